"""dev helper: apply a textual replacement to a scratch copy of the repo source and run function verifications on it"""
import sys, os, shutil, subprocess, pathlib, json
rel, old, new = sys.argv[1], sys.argv[2], sys.argv[3]
quals = sys.argv[4:]
root = pathlib.Path('/tmp/mrepo_%d' % os.getpid())
shutil.rmtree(root, ignore_errors=True); (root/'src').mkdir(parents=True)
shutil.copytree('/repo/src/aspire', root/'src'/'aspire')
p = root/'src'/'aspire'/rel; s = p.read_text(); assert s.count(old) >= 1, 'pattern not found'; p.write_text(s.replace(old, new, 1))
env = dict(os.environ, ASPIRE_REPO=str(root))
out = subprocess.run([sys.executable, '-m', 'pyvc.run'] + quals, env=env, capture_output=True, text=True, cwd='/verif').stdout
names = {}
for l in out.splitlines():
    l = l.strip()
    if l.startswith(('FAILED', 'UNKNOWN')):
        nm = l.split(' {')[0]; names[nm] = names.get(nm, 0) + 1
    elif 'unsupported' in l or 'crash' in l or 'out-of-date' in l: print(l[:300])
for k, v in names.items(): print(v, k[:220])
if not names: print('NO FAILED OBLIGATION')
shutil.rmtree(root, ignore_errors=True)
