import numpy as np, pickle, warnings
warnings.filterwarnings("ignore")
from stub import *
ck=[]
s=make(seed=5, scale=200.0)
out=s.sample(80, min_step=0.01, max_n_steps=2, checkpoint_callback=lambda st: ck.append(pickle.dumps(st)), checkpoint_every=1)
print("ref: iterations", len(s.history.beta), "betas", s.history.beta, "ncheckpoints", len(ck))
s2=make(seed=5, scale=200.0)
out2=s2.sample(80, min_step=0.01, max_n_steps=2, resume_from=ck[-1])
print("resumed from final checkpoint: iterations", len(s2.history.beta), "betas", s2.history.beta)
