from z3 import *
import time
# dump_pickle_to_hdf against an assumed h5py dataset model: (exists, shape, data)
def check(name, hyps, goal):
    s=Solver(); s.set(timeout=20000); s.add(*hyps); s.add(Not(goal)); r=s.check()
    print(f"{'proved' if r==unsat else r!s:7s} {name}", ("  model "+str({str(d):s.model()[d] for d in s.model().decls() if d.arity()==0})) if r==sat else "")
B=ArraySort(IntSort(), IntSort())
exists0=Bool('exists0'); shape0=Int('shape0'); data0=Const('data0',B)
nb=Int('nb'); b=Const('b',B); i=Int('i')
pre=[nb>=0, Implies(exists0, shape0>=0)]
# code paths of dump_pickle_to_hdf (utils.py:730-736), model of h5py ops as state transformers:
def run(with_resize=True):
    # if dsetname not in target: create_dataset(shape=bdata.shape) -> shape=nb, data=arbitrary
    # elif bdata.size != shape: resize((nb,)) -> shape=nb, data kept on the common prefix
    # target[dsetname][:] = bdata  -- assumed contract: REQUIRES len(bdata)==shape ; ensures data[i]=b[i]
    shape1 = If(Not(exists0), nb, If(And(shape0!=nb, BoolVal(with_resize)), nb, shape0))
    return shape1
s1=run(True)
check("h5py.__setitem__ precondition: shape == len(bdata) on every path", pre, s1==nb)
s1m=run(False)
check("MUTANT (resize removed): setitem precondition", pre, s1m==nb)
# post: after write data[i]==b[i] for 0<=i<nb and shape==nb  (data1 = b on [0,nb) by the assumed contract once precondition holds)
data1=Const('data1',B)
check("post: stored blob is byte-for-byte the payload, no stale suffix", pre+[s1==nb, Implies(And(0<=i,i<nb), data1[i]==b[i])], And(s1==nb, Implies(And(0<=i,i<s1), data1[i]==b[i])))
