import sys; sys.path.insert(0,'/tmp/probe/stubs')
import warnings; warnings.filterwarnings("ignore")
import numpy as np, math, os, pickle, h5py
import jax; jax.config.update("jax_enable_x64", True)
from aspire import Aspire, Samples
from aspire.utils import AspireFile
dims=2
def log_prior(s):
    x=np.asarray(s.x); return np.where((np.abs(x)<=10).all(-1), -dims*math.log(20.0), -np.inf)
class LL:
    def __init__(s): s.n=0; s.fail_at=None
    def __call__(s, smp):
        s.n+=1
        if s.fail_at is not None and s.n==s.fail_at: raise RuntimeError("interrupted")
        x=np.asarray(smp.x); return -0.5*8*((x-1.0)**2).sum(-1)
rng=np.random.default_rng(0); A=Samples(rng.normal(1,1,size=(300,2)))
def mk(ll):
    return Aspire(log_likelihood=ll, log_prior=log_prior, dims=dims, parameters=['a','b'], prior_bounds={'a':[-10,10],'b':[-10,10]}, flow_backend='flowjax', key=jax.random.key(0), nn_depth=1, dtype='float64')
KW=dict(n_samples=40, sampler='smc', n_steps=4, adaptive=False, n_final_samples=50, sampler_kwargs={'n_steps':2})
path='/tmp/probe/c11.h5'
def fresh(ll):
    if os.path.exists(path): os.remove(path)
    a=mk(ll); a.fit(A, max_epochs=2); return a
# reference (uninterrupted, checkpointing on)
ll=LL(); a=fresh(ll)
ref,refh=a.sample_posterior(return_history=True, checkpoint_path=path, **{k:(dict(v) if isinstance(v,dict) else v) for k,v in KW.items()})
ncalls=ll.n
print("reference: likelihood calls",ncalls,"iters",len(refh.beta),"logZ",float(ref.log_evidence))
ok=0; bad=[]
for k in range(2, ncalls+1):
    ll=LL(); ll.fail_at=k; a=fresh(ll)
    try:
        a.sample_posterior(checkpoint_path=path, **{kk:(dict(v) if isinstance(v,dict) else v) for kk,v in KW.items()}); print("no interruption at",k); continue
    except RuntimeError: pass
    with AspireFile(path,'r') as f: has_ck='checkpoint' in f; keys=list(f.keys())
    ll2=LL()
    try:
        r=Aspire.resume_from_file(path, log_likelihood=ll2, log_prior=log_prior)
        kw={kk:(dict(v) if isinstance(v,dict) else v) for kk,v in KW.items()}
        out,h=r.sample_posterior(return_history=True, **kw)
        same=np.array_equal(np.asarray(out.x),np.asarray(ref.x)) and float(out.log_evidence)==float(ref.log_evidence) and list(h.beta)==list(refh.beta)
        (bad.append((k,has_ck,'differs', len(h.beta), float(out.log_evidence))) if not same else None); ok+=same
    except Exception as e:
        bad.append((k,has_ck,type(e).__name__,str(e)[:80]))
print("interruption points",ncalls-1,"identical",ok); print("bad (first 8):",bad[:8])
