import warnings; warnings.filterwarnings("ignore")
import numpy as np, math, io, h5py, pickle
import array_api_compat.numpy as xnp, array_api_compat.torch as xt
import jax; jax.config.update("jax_enable_x64", True); import jax.numpy as jnp
import torch
from aspire.transforms import *
from aspire.history import SMCHistory, FlowHistory
from aspire.samples import SMCSamples, Samples
def t(name,f):
    try: print("OK  ",name,f())
    except Exception as e: print("FAIL",name,type(e).__name__,str(e)[:160])
rng=np.random.default_rng(0)
# ---- C13 transforms save/load, every class, fitted
x=rng.uniform(-0.9,0.9,size=(50,3))
def rt(tr, xp):
    xx=xp.asarray(x)
    tr.fit(xx)
    with h5py.File(io.BytesIO(),'w') as f:
        tr.save(f,'t'); tr2=BaseTransform.load(f,'t')
    a=tr.forward(xx); b=tr2.forward(xx)
    return (type(tr2).__name__, bool(np.allclose(np.asarray(a[0]),np.asarray(b[0]))), bool(np.allclose(np.asarray(a[1]),np.asarray(b[1]))), str(getattr(tr2,'dtype',None)))
for xp,nm in ((xnp,'np'),(xt,'torch'),(jnp,'jax')):
    for dt in (None,'float32','float64'):
        t(f"Identity {nm} {dt}", lambda: rt(IdentityTransform(xp=xp,dtype=dt),xp))
        t(f"Affine {nm} {dt}", lambda: rt(AffineTransform(xp=xp,dtype=dt),xp))
        t(f"Logit {nm} {dt}", lambda: rt(LogitTransform(lower=[-1,-1,-1],upper=[1,1,1],xp=xp,dtype=dt),xp))
        t(f"Probit {nm} {dt}", lambda: rt(ProbitTransform(lower=[-1,-1,-1],upper=[1,1,1],xp=xp,dtype=dt),xp))
        t(f"Periodic {nm} {dt}", lambda: rt(PeriodicTransform(lower=[-1,-1,-1],upper=[1,1,1],xp=xp,dtype=dt),xp))
        for bt in ('logit','probit'):
            t(f"Composite {bt} {nm} {dt}", lambda: rt(CompositeTransform(parameters=['a','b','c'],periodic_parameters=['c'],prior_bounds={'a':[-1,1],'b':[-1,1],'c':[-1,1]},bounded_transform=bt,xp=xp,dtype=dt),xp))
        t(f"FlowTransform {nm} {dt}", lambda: rt(FlowTransform(parameters=['a','b','c'],prior_bounds={'a':[-1,1],'b':[-1,1],'c':[-1,1]},xp=xp,dtype=dt),xp))
