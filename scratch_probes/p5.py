import numpy as np, pickle, copy, warnings
warnings.filterwarnings("ignore")
from stub import *
def run(resume=None, seed=5, scale=30.0, **kw):
    ck=[]
    s=make(seed=seed, scale=scale)
    try:
        out=s.sample(80, checkpoint_callback=lambda st: ck.append(pickle.dumps(st)), checkpoint_every=1, resume_from=resume, **kw)
    except Exception as e:
        print("   RAISED", type(e).__name__, e, "after betas", s.history.beta); out=None
    return s,out,ck
s,out,ck=run(max_n_steps=4, scale=2000.)
print("ref betas", s.history.beta, "iters", len(s.history.beta))
for k in range(len(ck)-1):
    s2,out2,_=run(resume=ck[k], max_n_steps=4, scale=2000.)
    print(" resume from ckpt",k,"betas", s2.history.beta, "same", s2.history.beta==s.history.beta)
for M in (1,2,3,5):
    s,out,ck=run(max_n_steps=M, scale=200.0)
    print("max_n_steps",M,"iters",len(s.history.beta),"final beta",s.history.beta[-1:])
s,out,ck=run(min_step=0.3, scale=200.0); print("min_step .3 betas", s.history.beta)
s,out,ck=run(target_efficiency=(0.3,0.8), scale=50.0); print("ramp betas", np.round(s.history.beta,4), "eff_target", np.round(s.history.eff_target,3), "ess/N", np.round(np.array(s.history.ess)/80,3))
s,out,ck=run(target_efficiency=1); 
for every in (1,2,3):
    s=make(seed=2, scale=30.0); its=[]
    out=s.sample(50, n_steps=5, adaptive=False, checkpoint_callback=lambda st: its.append(st['iteration']), checkpoint_every=every)
    print("every",every,"checkpoint iterations",its)
nl=[]; s=make(seed=2, nlike=nl); out=s.sample(50, n_steps=3, adaptive=False, n_final_samples=70)
print("n_like_evals reported", s.n_likelihood_evaluations, "actual", sum(nl))
