import numpy as np, pickle, copy
from stub import *
# 1. fixed schedule n_steps=10 -> iterations?
for n in (3,5,7,10,20,49,100):
    s = make(); out = s.sample(50, n_steps=n, adaptive=False)
    print("n_steps",n,"iterations",len(s.history.beta), s.history.beta[-2:], "sample_hist",len(s.history.sample_history))
# 2. adaptive default
s=make(); out=s.sample(200); print("adaptive betas", np.round(s.history.beta,4), "logZ", out.log_evidence, "+-", out.log_evidence_error)
print("true logZ approx", 0.0)
# 3. peaked likelihood: zero step?
s=make(scale=1e9)
import signal
def h(*a): raise TimeoutError
signal.signal(signal.SIGALRM,h); signal.alarm(20)
try:
    out=s.sample(50); print("peaked betas", len(s.history.beta), s.history.beta[:5])
except TimeoutError:
    print("peaked: TIMEOUT spin; iterations so far", len(s.history.beta), s.history.beta[:3], s.history.beta[-3:])
except Exception as e:
    print("peaked: raised", type(e).__name__, e)
signal.alarm(0)
