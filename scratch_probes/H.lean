import Mathlib.Analysis.SpecialFunctions.Log.Basic
import Mathlib.Analysis.SpecialFunctions.Log.Deriv
import Mathlib.Analysis.SpecialFunctions.Exp
import Mathlib.Algebra.Order.Chebyshev
import Mathlib.Algebra.BigOperators.Fin
import Mathlib.Tactic

open Finset Real
set_option linter.style.haveILetI false

namespace Spec
variable {n : ℕ}
noncomputable def LSE (x : Fin n → ℝ) : ℝ := Real.log (∑ i, Real.exp (x i))
noncomputable def ESS (x : Fin n → ℝ) : ℝ := (∑ i, Real.exp (x i)) ^ 2 / ∑ i, Real.exp (x i) ^ 2
noncomputable def vmax [NeZero n] (x : Fin n → ℝ) : ℝ := Finset.univ.sup' Finset.univ_nonempty x

lemma sum_exp_pos [NeZero n] (x : Fin n → ℝ) : 0 < ∑ i, Real.exp (x i) :=
  Finset.sum_pos (fun i _ => Real.exp_pos _) Finset.univ_nonempty

lemma lse_shift [NeZero n] (x : Fin n → ℝ) (c : ℝ) :
    c + Real.log (∑ i, Real.exp (x i - c)) = LSE x := by
  unfold LSE
  have hpos := sum_exp_pos (fun i => x i - c)
  have h : ∑ i : Fin n, Real.exp (x i) = Real.exp c * ∑ i : Fin n, Real.exp (x i - c) := by
    rw [Finset.mul_sum]; apply Finset.sum_congr rfl; intro i _
    rw [← Real.exp_add]; congr 1; ring
  rw [h, Real.log_mul (Real.exp_pos c).ne' hpos.ne', Real.log_exp]

lemma lse_add_const [NeZero n] (x : Fin n → ℝ) (c : ℝ) : LSE (fun i => x i + c) = LSE x + c := by
  have := lse_shift (fun i => x i + c) c
  simp only [add_sub_cancel_right] at this
  unfold LSE at *; linarith

lemma ess_eq_exp [NeZero n] (a : Fin n → ℝ) :
    Real.exp (LSE a * 2 - LSE (fun i => a i * 2)) = ESS a := by
  have h1 := sum_exp_pos a
  have h2 := sum_exp_pos (fun i => a i * 2)
  unfold LSE ESS
  rw [Real.exp_sub, Real.exp_log h2]
  congr 1
  · rw [show Real.log (∑ i, Real.exp (a i)) * 2 = Real.log (∑ i, Real.exp (a i)) + Real.log (∑ i, Real.exp (a i)) by ring,
      Real.exp_add, Real.exp_log h1]; ring
  · apply Finset.sum_congr rfl; intro i _
    rw [← Real.exp_nat_mul]; congr 1; push_cast; ring

lemma ess_shift [NeZero n] (a : Fin n → ℝ) (c : ℝ) : ESS (fun i => a i + c) = ESS a := by
  unfold ESS
  have e1 : ∀ i, Real.exp (a i + c) = Real.exp (a i) * Real.exp c := fun i => Real.exp_add _ _
  simp only [e1, mul_pow, ← Finset.sum_mul]
  have hc : Real.exp c ^ 2 ≠ 0 := by positivity
  have h2 : (∑ i : Fin n, Real.exp (a i) ^ 2) ≠ 0 :=
    (Finset.sum_pos (fun i _ => by positivity) Finset.univ_nonempty).ne'
  field_simp

lemma ess_le [NeZero n] (a : Fin n → ℝ) : ESS a ≤ n := by
  unfold ESS
  have h2 : 0 < ∑ i : Fin n, Real.exp (a i) ^ 2 :=
    Finset.sum_pos (fun i _ => by positivity) Finset.univ_nonempty
  rw [div_le_iff₀ h2]
  have := sq_sum_le_card_mul_sum_sq (s := (Finset.univ : Finset (Fin n))) (f := fun i => Real.exp (a i))
  simpa using this

lemma one_le_ess [NeZero n] (a : Fin n → ℝ) : 1 ≤ ESS a := by
  unfold ESS
  have h2 : 0 < ∑ i : Fin n, Real.exp (a i) ^ 2 :=
    Finset.sum_pos (fun i _ => by positivity) Finset.univ_nonempty
  rw [le_div_iff₀ h2, one_mul]
  exact Finset.sum_sq_le_sq_sum_of_nonneg (fun i _ => (Real.exp_pos _).le)

lemma ess_const [NeZero n] (c : ℝ) : ESS (fun _ : Fin n => c) = n := by
  unfold ESS
  simp only [Finset.sum_const, Finset.card_univ, Fintype.card_fin, nsmul_eq_mul]
  have hc : Real.exp c ≠ 0 := (Real.exp_pos c).ne'
  have hn : (n:ℝ) ≠ 0 := by exact_mod_cast NeZero.ne n
  field_simp

lemma ess_perm (a : Fin n → ℝ) (σ : Equiv.Perm (Fin n)) : ESS (a ∘ σ) = ESS a := by
  unfold ESS
  simp only [Function.comp]
  rw [Equiv.sum_comp σ (fun i => Real.exp (a i)), Equiv.sum_comp σ (fun i => Real.exp (a i) ^ 2)]

lemma le_lse [NeZero n] (a : Fin n → ℝ) (i : Fin n) : a i ≤ LSE a := by
  unfold LSE
  rw [← Real.log_exp (a i)]
  apply Real.log_le_log (Real.exp_pos _)
  exact Finset.single_le_sum (f := fun j => Real.exp (a j)) (fun j _ => (Real.exp_pos _).le) (Finset.mem_univ i)
end Spec


namespace Gen
open Spec
variable {n : ℕ} [NeZero n]
noncomputable def logsumexp (x : Fin n → ℝ) : ℝ := ((Real.log (∑ j1, (Real.exp ((x j1) - (Spec.vmax (fun j2 => (x j2))))))) + (Spec.vmax (fun j0 => (x j0))))
noncomputable def effective_sample_size (log_w : Fin n → ℝ) : ℝ := (Real.exp (((2 : ℝ) * (logsumexp (fun k => (log_w k)))) - (logsumexp (fun k => ((2 : ℝ) * (log_w k))))))
noncomputable def cw_log_w (ll : Fin n → ℝ) (lp : Fin n → ℝ) (lq : Fin n → ℝ) : Fin n → ℝ := fun i => (((ll i) + (lp i)) - (lq i))
noncomputable def cw_log_evidence (ll : Fin n → ℝ) (lp : Fin n → ℝ) (lq : Fin n → ℝ) : ℝ := ((logsumexp (fun k => (((ll k) + (lp k)) - (lq k)))) - (Real.log (n : ℝ)))
noncomputable def cw_weights (ll : Fin n → ℝ) (lp : Fin n → ℝ) (lq : Fin n → ℝ) : Fin n → ℝ := fun i => (Real.exp (((ll i) + (lp i)) - (lq i)))
noncomputable def cw_evidence (ll : Fin n → ℝ) (lp : Fin n → ℝ) (lq : Fin n → ℝ) : ℝ := (Real.exp ((logsumexp (fun k => (((ll k) + (lp k)) - (lq k)))) - (Real.log (n : ℝ))))
noncomputable def cw_evidence_error (ll : Fin n → ℝ) (lp : Fin n → ℝ) (lq : Fin n → ℝ) : ℝ := (Real.sqrt ((∑ j3, (((Real.exp (((ll j3) + (lp j3)) - (lq j3))) - (Real.exp ((logsumexp (fun k => (((ll k) + (lp k)) - (lq k)))) - (Real.log (n : ℝ))))) ^ 2)) / (((n : ℝ) - (1 : ℝ)) * (n : ℝ))))
noncomputable def cw_log_evidence_error (ll : Fin n → ℝ) (lp : Fin n → ℝ) (lq : Fin n → ℝ) : ℝ := |((Real.sqrt ((∑ j4, (((Real.exp (((ll j4) + (lp j4)) - (lq j4))) - (Real.exp ((logsumexp (fun k => (((ll k) + (lp k)) - (lq k)))) - (Real.log (n : ℝ))))) ^ 2)) / (((n : ℝ) - (1 : ℝ)) * (n : ℝ)))) / (Real.exp ((logsumexp (fun k => (((ll k) + (lp k)) - (lq k)))) - (Real.log (n : ℝ)))))|
noncomputable def cw_effective_sample_size (ll : Fin n → ℝ) (lp : Fin n → ℝ) (lq : Fin n → ℝ) : ℝ := (Real.exp (((2 : ℝ) * (logsumexp (fun k => ((((ll k) + (lp k)) - (lq k)) - (Spec.vmax (fun j5 => (((ll j5) + (lp j5)) - (lq j5)))))))) - (logsumexp (fun k => (((((ll k) + (lp k)) - (lq k)) - (Spec.vmax (fun j6 => (((ll j6) + (lp j6)) - (lq j6))))) * (2 : ℝ))))))
noncomputable def log_p_t (ll : Fin n → ℝ) (lp : Fin n → ℝ) (lq : Fin n → ℝ) (beta : ℝ) : Fin n → ℝ := fun i => ((((1 : ℝ) - beta) * (lq i)) + (((ll i) + (lp i)) * beta))
noncomputable def unnormalized_log_weights (ll : Fin n → ℝ) (lp : Fin n → ℝ) (lq : Fin n → ℝ) (beta0 : ℝ) (beta : ℝ) : Fin n → ℝ := fun i => ((((ll i) + (lp i)) * (beta - beta0)) + ((beta0 - beta) * (lq i)))
noncomputable def logit_y (x : ℝ) : ℝ := ((Real.log x) - (Real.log (1 + (-x))))
noncomputable def logit_lj (x : ℝ) : ℝ := ((-(Real.log x)) - (Real.log (1 + (-x))))
noncomputable def sigmoid_x (y : ℝ) : ℝ := ((1 : ℝ) / ((1 : ℝ) + (Real.exp (-y))))
noncomputable def sigmoid_lj (y : ℝ) : ℝ := ((Real.log ((1 : ℝ) / ((1 : ℝ) + (Real.exp (-y))))) + (Real.log (1 + (-((1 : ℝ) / ((1 : ℝ) + (Real.exp (-y))))))))
noncomputable def periodic_fwd (lower : ℝ) (width : ℝ) (x : ℝ) : ℝ := (((x - lower) - width * (⌊(x - lower) / width⌋ : ℝ)) + lower)
end Gen

namespace Obl
open Spec Gen
variable {n : ℕ} [NeZero n]

theorem logsumexp_spec (x : Fin n → ℝ) : logsumexp x = LSE x := by
  unfold logsumexp; rw [add_comm]; exact lse_shift x _

theorem ess_spec (a : Fin n → ℝ) : effective_sample_size a = ESS a := by
  unfold effective_sample_size; rw [logsumexp_spec, logsumexp_spec]
  have := ess_eq_exp a
  simpa [mul_comm] using this

theorem cw_log_w_spec (ll lp lq : Fin n → ℝ) (i : Fin n) : cw_log_w ll lp lq i = ll i + lp i - lq i := by
  unfold cw_log_w; ring

theorem cw_log_evidence_spec (ll lp lq : Fin n → ℝ) :
    cw_log_evidence ll lp lq = Real.log ((∑ i, Real.exp (ll i + lp i - lq i)) / n) := by
  unfold cw_log_evidence; rw [logsumexp_spec]; unfold LSE
  have hn : (n:ℝ) ≠ 0 := by exact_mod_cast NeZero.ne n
  rw [Real.log_div (sum_exp_pos _).ne' hn]

theorem cw_ess_spec (ll lp lq : Fin n → ℝ) :
    cw_effective_sample_size ll lp lq = ESS (fun i => ll i + lp i - lq i) := by
  unfold cw_effective_sample_size
  rw [logsumexp_spec, logsumexp_spec]
  have h := ess_eq_exp (fun k => ll k + lp k - lq k - vmax (fun j => ll j + lp j - lq j))
  have hs := ess_shift (fun i => ll i + lp i - lq i) (-(vmax (fun j => ll j + lp j - lq j)))
  simp only [← sub_eq_add_neg] at hs
  rw [← hs, ← h]; congr 1; ring

theorem log_p_t_spec (ll lp lq : Fin n → ℝ) (beta : ℝ) (i : Fin n) :
    log_p_t ll lp lq beta i = (1 - beta) * lq i + beta * (ll i + lp i) := by
  unfold log_p_t; ring

theorem iw_spec (ll lp lq : Fin n → ℝ) (b0 b : ℝ) (i : Fin n) :
    unnormalized_log_weights ll lp lq b0 b i = (b - b0) * (ll i + lp i - lq i) := by
  unfold unnormalized_log_weights; ring

theorem sigmoid_logit (x : ℝ) (h0 : 0 < x) (h1 : x < 1) : sigmoid_x (logit_y x) = x := by
  unfold sigmoid_x logit_y
  have h1x : 0 < 1 + -x := by linarith
  rw [neg_sub, Real.exp_sub, Real.exp_log h1x, Real.exp_log h0]
  field_simp; ring

theorem inverse_lj_is_negative (x : ℝ) (h0 : 0 < x) (h1 : x < 1) :
    sigmoid_lj (logit_y x) = -logit_lj x := by
  unfold sigmoid_lj; rw [show (1:ℝ) / (1 + Real.exp (-logit_y x)) = sigmoid_x (logit_y x) from rfl, sigmoid_logit x h0 h1]
  unfold logit_lj; ring

theorem periodic_mem (lower width x : ℝ) (hw : 0 < width) :
    lower ≤ periodic_fwd lower width x ∧ periodic_fwd lower width x < lower + width := by
  unfold periodic_fwd
  have h1 := Int.floor_le ((x - lower) / width)
  have h2 := Int.lt_floor_add_one ((x - lower) / width)
  rw [le_div_iff₀ hw] at h1
  rw [div_lt_iff₀ hw] at h2
  constructor <;> nlinarith
end Obl
