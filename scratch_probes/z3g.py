from z3 import *
import time, itertools
def check(name, hyps, goal):
    s=Solver(); s.set(timeout=20000); s.add(*hyps); s.add(Not(goal)); t=time.time(); r=s.check()
    print(f"{'proved' if r==unsat else r!s:7s} {name}  {time.time()-t:.3f}s")
    if r==sat:
        m=s.model(); print("     model:", sorted((str(d), str(m[d])) for d in m.decls() if d.arity()==0))
    return r
Arr=DeclareSort('Arr'); Mat=DeclareSort('Mat'); Row=DeclareSort('Row'); Idx=DeclareSort('Idx')
at=Function('at',Arr,IntSort(),RealSort()); row=Function('row',Mat,IntSort(),Row)
mlen=Function('mlen',Mat,IntSort()); ilen=Function('ilen',Idx,IntSort()); ix=Function('ix',Idx,IntSort(),IntSort())
take=Function('take',Arr,Idx,Arr); mtake=Function('mtake',Mat,Idx,Mat); pi=Function('pi',Row,RealSort())
x=Const('x',Mat); lp=Const('lp',Arr); idx=Const('idx',Idx); idx2=Const('idx2',Idx); jj=Int('jj')
# engine-side instantiation: schemas as python functions, instantiated at the index terms reachable from the goal
def take_ax(a,k,j): return Implies(And(0<=j,j<ilen(k)), at(take(a,k),j)==at(a,ix(k,j)))
def mtake_ax(m,k,j): return Implies(And(0<=j,j<ilen(k)), row(mtake(m,k),j)==row(m,ix(k,j)))
def valid_ax(k,j): return Implies(And(0<=j,j<ilen(k)), And(0<=ix(k,j), ix(k,j)<mlen(x)))
def aligned_ax(i): return Implies(And(0<=i,i<mlen(x)), at(lp,i)==pi(row(x,i)))
def ground(idxs):
    terms=[jj]+[ix(k,jj) for k in idxs]
    H=[ilen(k)>=0 for k in idxs]
    for k in idxs: H+=[take_ax(lp,k,jj), mtake_ax(x,k,jj), valid_ax(k,jj)]
    for t in terms: H.append(aligned_ax(t))
    return H
rng=And(0<=jj, jj<ilen(idx))
check("ground: Aligned(s[idx])", ground([idx])+[rng], at(take(lp,idx),jj)==pi(row(mtake(x,idx),jj)))
check("ground MUTANT: different idx for log_prior", ground([idx,idx2])+[rng, ilen(idx2)==ilen(idx)], at(take(lp,idx2),jj)==pi(row(mtake(x,idx),jj)))
check("ground MUTANT: log_prior not indexed", ground([idx])+[rng], at(lp,jj)==pi(row(mtake(x,idx),jj)))
