import sys; sys.path.insert(0,'/tmp/probe/stubs')
import warnings; warnings.filterwarnings("ignore")
import numpy as np, math, io, h5py
import jax; jax.config.update("jax_enable_x64", True); import jax.numpy as jnp
import torch
from aspire import Aspire, Samples
def t(name,f):
    try: print("OK  ",name,f())
    except Exception as e: print("FAIL",name,type(e).__name__,str(e)[:200])
rng=np.random.default_rng(0)
X=rng.uniform(-0.8,0.9,size=(400,2))
lp=lambda s: np.zeros(len(s.x)); ll=lambda s: np.zeros(len(s.x))
def mk(backend, bt, b2u, dtype, **kw):
    a=Aspire(log_likelihood=ll, log_prior=lp, dims=2, parameters=['a','b'], prior_bounds={'a':[-1,1],'b':[-1,1]}, flow_backend=backend, bounded_transform=bt, bounded_to_unbounded=b2u, dtype=dtype, **kw)
    return a
def agree(flow, n=200):
    x,lq=flow.sample_and_log_prob(n)
    l2=flow.log_prob(x)
    x=np.asarray(x.detach() if hasattr(x,'detach') else x); lq=np.asarray(lq.detach() if hasattr(lq,'detach') else lq); l2=np.asarray(l2.detach() if hasattr(l2,'detach') else l2)
    return float(np.max(np.abs(lq-l2))), bool((np.abs(x)<=1).all()), str(x.dtype)
def quad(flow, m=400):
    g=np.linspace(-1+1e-4,1-1e-4,m); A,B=np.meshgrid(g,g); P=np.column_stack([A.ravel(),B.ravel()])
    l=flow.log_prob(P); l=np.asarray(l.detach() if hasattr(l,'detach') else l)
    return float(np.exp(l).sum()*(g[1]-g[0])**2)
for backend,fitkw,extra in (('zuko',dict(n_epochs=3),{}),('flowjax',dict(max_epochs=3),{'key':jax.random.key(1)})):
    for bt,b2u in (('logit',True),('probit',True),('logit',False)):
        for dt in ('float32','float64'):
            def run():
                a=mk(backend,bt,b2u,dt,**extra); a.init_flow()
                try: r0=agree(a.flow)
                except Exception as e: r0='RAISES '+type(e).__name__
                a.fit(Samples(X), **fitkw)
                r1=agree(a.flow); q=quad(a.flow) if b2u else None
                with h5py.File(io.BytesIO(),'w') as f:
                    a.save_flow(f); b=mk(backend,bt,b2u,dt,**extra); b.load_flow(f)
                P=rng.uniform(-0.9,0.9,size=(20,2))
                la=a.flow.log_prob(P); lb=b.flow.log_prob(P)
                la=np.asarray(la.detach() if hasattr(la,'detach') else la); lb=np.asarray(lb.detach() if hasattr(lb,'detach') else lb)
                return ("untrained",r0,"trained",r1,"integral",q,"reload maxdiff",float(np.abs(la-lb).max()))
            t(f"C03 {backend} {bt} b2u={b2u} {dt}", run)
