from z3 import *
import time
# determine_beta adaptive branch, hand-encoded (what the generator will emit) to probe solver behaviour
E = Function('E', RealSort(), RealSort())   # eff(beta) = ESS(log_weights(beta))/N  (contract of callee chain)
beta_prev, tol, t, min_step = Reals('beta_prev tol t min_step')
pre = And(0 <= beta_prev, beta_prev < 1, tol > 0, 0 < t, t < 1, min_step >= 0, E(beta_prev) == 1,
          ForAll([beta_prev], And(E(beta_prev) > 0, E(beta_prev) <= 1)))
# loop invariant at head
bmin, bmax = Reals('bmin bmax')
Inv = lambda bmin,bmax: And(beta_prev <= bmin, bmin <= bmax, bmax <= 1, E(bmin) >= t, Or(bmax == 1, E(bmax) < t), Or(bmin < bmax, bmin == 1))
def prove(name, hyp, goal):
    s=Solver(); s.set(timeout=10000); s.add(hyp); s.add(Not(goal)); t0=time.time(); r=s.check()
    print(name, "->", "proved" if r==unsat else r, f"{time.time()-t0:.3f}s")
    if r==sat:
        m=s.model(); print("   model:", {str(d): m[d] for d in m.decls() if d.arity()==0}); print("   E =", m[E])
# init: eff_beta_max >= t -> bmin=1 else bmin=beta_prev
prove("init/full-step", And(pre, E(1) >= t), Inv(RealVal(1), RealVal(1)))
prove("init/bisect", And(pre, E(1) < t), Inv(beta_prev, RealVal(1)))
# preservation
btry = 0.5*(bmax+bmin)
hyp = And(pre, Inv(bmin,bmax), bmax-bmin > tol)
prove("pres/then", And(hyp, E(btry) >= t), Inv(btry, bmax))
prove("pres/else", And(hyp, Not(E(btry) >= t)), Inv(bmin, btry))
# exit: post
exit_h = And(pre, Inv(bmin,bmax), Not(bmax-bmin > tol))
bstar = bmin
beta_new = If(If(bstar >= beta_prev+min_step, bstar, beta_prev+min_step) <= 1, If(bstar >= beta_prev+min_step, bstar, beta_prev+min_step), 1)
prove("post/C07 bracket", exit_h, And(E(bstar) >= t, Or(bstar == 1, And(E(bmax) < t, bmax - bstar <= tol))))
prove("post/range", exit_h, And(beta_new <= 1, beta_new >= beta_prev))
prove("post/C06 strict progress", exit_h, beta_new > beta_prev)
prove("safety/div (adaptive_min_step)", exit_h, 1 - bstar != 0)
