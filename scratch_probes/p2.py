import numpy as np, traceback, pickle, io, h5py
import array_api_compat.numpy as xnp
import array_api_compat.torch as xtorch
import jax; jax.config.update("jax_enable_x64", True)
import jax.numpy as jnp
import torch
from aspire.samples import BaseSamples, Samples, SMCSamples
rng=np.random.default_rng(0)
def mk(cls, xp, dtype=None, **kw):
    n=6
    return cls(x=rng.normal(size=(n,2)), log_likelihood=rng.normal(size=n), log_prior=rng.normal(size=n), log_q=rng.normal(size=n), xp=xp, dtype=dtype, **kw)
def t(name, f):
    try:
        r=f(); print("OK  ",name, r)
    except Exception as e:
        print("FAIL",name, type(e).__name__, str(e)[:200])
for cls in (BaseSamples,Samples,SMCSamples):
  for a,an in ((xnp,'np'),(xtorch,'torch'),(jnp,'jax')):
    s=mk(cls,a)
    t(f"{cls.__name__} {an} to_dict/from_dict", lambda: type(cls.from_dict(s.to_dict()).x).__name__)
    t(f"{cls.__name__} {an} to_dict(flat=False)/from_dict", lambda: type(cls.from_dict(s.to_dict(flat=False)).x).__name__)
    t(f"{cls.__name__} {an} pickle", lambda: (type(pickle.loads(pickle.dumps(s)).x).__name__, pickle.loads(pickle.dumps(s)).xp.__name__))
    def sl():
        with h5py.File(io.BytesIO(),'w') as f:
            s.save(f,'s'); r=cls.load(f,'s'); return (type(r.x).__name__, str(r.x.dtype), bool(np.allclose(np.asarray(r.x), np.asarray(s.x))))
    t(f"{cls.__name__} {an} save/load", sl)
    def sl2():
        with h5py.File(io.BytesIO(),'w') as f:
            s.save(f,'s',flat=True); r=cls.load(f,'s'); return (type(r.x).__name__, str(r.x.dtype))
    t(f"{cls.__name__} {an} save(flat)/load", sl2)
    t(f"{cls.__name__} {an} getitem int", lambda: (s[1].x.shape, ))
    t(f"{cls.__name__} {an} getitem mask", lambda: (s[s.log_prior > -100].x.shape, ))
    t(f"{cls.__name__} {an} getitem idxarr", lambda: (s[a.asarray([0,2,2])].x.shape, ))
