import warnings; warnings.filterwarnings("ignore")
import numpy as np, jax, jax.numpy as jnp
jax.config.update("jax_enable_x64", True)
from aspire.flows.jax.flows import FlowJax
from aspire.flows.torch.flows import ZukoFlow
import torch
f=FlowJax(dims=2, key=jax.random.key(0), dtype='float64')
x=np.random.default_rng(0).normal(size=(5,2))
for name in ("forward","inverse"):
    try:
        r=getattr(f,name)(x); print("FlowJax",name,"ok", r[0].shape)
    except Exception as e: print("FlowJax",name,"FAIL",type(e).__name__, str(e)[:120])
xs,lq=f.sample_and_log_prob(4); print("FlowJax sample/logprob agree", np.allclose(lq, f.log_prob(xs)))
z=ZukoFlow(dims=2, dtype='float64')
xs,lq=z.sample_and_log_prob(4); print("Zuko agree", np.allclose(lq.numpy(), z.log_prob(xs).detach().numpy()))
zz,lj=z.forward(xs); xb,ljb=z.inverse(zz); print("zuko fwd/inv roundtrip", np.allclose(xb.detach().numpy(), xs.numpy()), np.allclose((lj+ljb).detach().numpy(),0, atol=1e-9))
lp=z.log_prob(xs); print("zuko log_prob requires_grad", lp.requires_grad)
try: np.asarray(lp); print("np.asarray ok")
except Exception as e: print("np.asarray FAIL", e)
# periodic edge
from aspire.transforms import PeriodicTransform
import array_api_compat.numpy as xnp
p=PeriodicTransform(lower=np.array([0.0]), upper=np.array([1.0]), xp=xnp)
print("periodic wrap of -1e-20:", p.forward(np.array([[-1e-20]]))[0])
