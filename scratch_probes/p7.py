import sys; sys.path.insert(0,'/tmp/probe/stubs')
import numpy as np, pickle, warnings, h5py, os, math, io
warnings.filterwarnings("ignore")
from aspire import Aspire, Samples
from aspire.utils import AspireFile
import jax
dims=2
def log_prior(s):
    x=np.asarray(s.x); return np.where((np.abs(x)<=10).all(-1), -dims*math.log(20.0), -np.inf)
def log_like(s):
    x=np.asarray(s.x); return -0.5*((x-1.0)**2).sum(-1)
rng=np.random.default_rng(0)
A=Samples(rng.normal(1,1,size=(300,2)))
path='/tmp/probe/c13.h5'
if os.path.exists(path): os.remove(path)
a=Aspire(log_likelihood=log_like, log_prior=log_prior, dims=dims, parameters=['a','b'], prior_bounds={'a':[-10,10],'b':[-10,10]}, periodic_parameters=['b'], flow_backend='flowjax', key=jax.random.key(0), dtype='float32', nn_depth=1)
a.fit(A, max_epochs=2, checkpoint_path=path)
out=a.sample_posterior(n_samples=30, sampler='smc', n_steps=2, adaptive=False, sampler_kwargs={'n_steps':2}, checkpoint_path=path, rng=np.random.default_rng(1))
r=Aspire.resume_from_file(path, log_likelihood=log_like, log_prior=log_prior)
c0=a.config_dict(include_sampler_config=False); c1=r.config_dict(include_sampler_config=False)
for k in sorted(set(c0)|set(c1)):
    print(k, "|", c0.get(k), "|", c1.get(k))
print("dtype", a.dtype, r.dtype, "xp", a.xp, r.xp)
print("out dtype", out.x.dtype)
