import sys; sys.path.insert(0,'/tmp/probe/stubs')
import warnings; warnings.filterwarnings("ignore")
import numpy as np, math
import jax; jax.config.update("jax_enable_x64", True)
from aspire import Aspire, Samples
from stub import *
def t(name,f):
    try: print("OK  ",name,f())
    except Exception as e: print("FAIL",name,type(e).__name__,str(e)[:200])
def two_smc():
    outs=[]
    for _ in range(2):
        s=make(seed=11); o=s.sample(40, n_final_samples=50); outs.append((np.asarray(o.x), float(o.log_evidence), list(s.history.beta)))
    return (bool(np.array_equal(outs[0][0],outs[1][0])), outs[0][1]==outs[1][1], outs[0][2]==outs[1][2])
t("C20 stub SMC twice", two_smc)
rng=np.random.default_rng(0); X=rng.normal(1,1,size=(300,2))
lp=lambda s: np.where((np.abs(np.asarray(s.x))<=10).all(-1), 0.0, -np.inf); ll=lambda s: -0.5*((np.asarray(s.x)-1)**2).sum(-1)
def two_is(backend, fitkw, extra):
    outs=[]
    for _ in range(2):
        a=Aspire(log_likelihood=ll, log_prior=lp, dims=2, parameters=['a','b'], prior_bounds={'a':[-10,10],'b':[-10,10]}, flow_backend=backend, **extra())
        h=a.fit(Samples(X), **fitkw); o=a.sample_posterior(100)
        outs.append((np.asarray(o.x), float(o.log_evidence), list(np.asarray(h.training_loss, dtype=float))))
    return (bool(np.array_equal(outs[0][0],outs[1][0])), outs[0][1]==outs[1][1], outs[0][2]==outs[1][2])
t("C20 zuko fit+importance twice (seed default)", lambda: two_is('zuko', dict(n_epochs=3), lambda: {}))
t("C20 flowjax fit+importance twice (key given)", lambda: two_is('flowjax', dict(max_epochs=3), lambda: {'key': jax.random.key(3)}))
def smc_top():
    outs=[]
    for _ in range(2):
        a=Aspire(log_likelihood=ll, log_prior=lp, dims=2, parameters=['a','b'], prior_bounds={'a':[-10,10],'b':[-10,10]}, flow_backend='flowjax', key=jax.random.key(3))
        a.fit(Samples(X), max_epochs=2)
        o=a.sample_posterior(30, sampler='smc', rng=np.random.default_rng(5), n_steps=2, adaptive=False, sampler_kwargs={'n_steps':2})
        outs.append(np.asarray(o.x))
    return bool(np.array_equal(outs[0],outs[1]))
t("C20 top-level smc with rng= twice identical?", smc_top)
