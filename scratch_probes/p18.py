import warnings; warnings.filterwarnings("ignore")
import inspect
from aspire import Aspire
a=Aspire(log_likelihood=lambda s:0, log_prior=lambda s:0, dims=1)
try: print("n_likelihood_evaluations before sampling:", a.n_likelihood_evaluations)
except Exception as e: print("n_likelihood_evaluations before sampling RAISES", type(e).__name__, e)
from aspire.samplers.smc.emcee import EmceeSMC
from aspire.samplers.smc.minipcn import MiniPCNSMC
from aspire.samplers.smc.blackjax import BlackJAXSMC
from aspire.samplers.mcmc import Emcee, MiniPCN
for c in (MiniPCNSMC, EmceeSMC, BlackJAXSMC, Emcee, MiniPCN):
    print(c.__name__, "rng in __init__:", 'rng' in inspect.signature(c.__init__).parameters, "| rng in sample:", 'rng' in inspect.signature(c.sample).parameters, "| rng_key in sample:", 'rng_key' in inspect.signature(c.sample).parameters)
