import warnings; warnings.filterwarnings("ignore")
import numpy as np, h5py, io, pickle
from aspire.utils import dump_state, recursively_save_to_h5_file, load_from_h5_file, encode_for_hdf5, decode_from_hdf5, PoolHandler
with h5py.File(io.BytesIO(),'w') as f:
    for payload in ({"a":list(range(1000))}, {"a":1}, {"a":list(range(5000))}, {}):
        dump_state(payload, f, path="checkpoint", dsetname="state")
        b=f["checkpoint"]["state"][...].tobytes()
        print("payload size", len(pickle.dumps(payload, protocol=pickle.HIGHEST_PROTOCOL)), "stored", len(b), "equal", pickle.loads(b)==payload, b==pickle.dumps(payload, protocol=pickle.HIGHEST_PROTOCOL))
cfg={"none":None,"empty":{}, "nested":{"a":{"b":1,"c":None}}, "strs":["x","y"], "npscalar":np.float64(2.5), "arr":np.arange(3.), "floats":[1.0,2.0], "tuple":(1,2), "s":"__none__", "bool":True, "int":3, "emptylist":[], "dotted.key":1, "mixed":[1,"a"]}
with h5py.File(io.BytesIO(),'w') as f:
    for k,v in cfg.items():
        try:
            recursively_save_to_h5_file(f, "c_"+k.replace('.','_'), {k:v})
            r=load_from_h5_file(f, "c_"+k.replace('.','_'))
            print(k, "->", repr(v), "=>", repr(r))
        except Exception as e:
            print(k, "FAIL", type(e).__name__, str(e)[:100])
# PoolHandler
class A:
    def __init__(s): s.log_likelihood=lambda x,map_fn=map:0; s.log_prior=lambda x:0
class P:
    closed=False
    def map(s,*a): pass
    def close(s): s.closed=True
    def join(s): pass
a=A(); l0,p0=a.log_likelihood,a.log_prior; p=P()
try:
    with PoolHandler(a,p,close_pool=False):
        assert a.log_likelihood is not l0
        raise RuntimeError
except RuntimeError: pass
print("restored", a.log_likelihood is l0, a.log_prior is p0, "closed", p.closed)
