import numpy as np, traceback, pickle, io
import array_api_compat.numpy as xnp
import array_api_compat.torch as xtorch
import jax; jax.config.update("jax_enable_x64", True)
import jax.numpy as jnp
import torch
from aspire.samples import BaseSamples, Samples, SMCSamples
rng=np.random.default_rng(0)
def mk(cls, xp, dtype=None, **kw):
    n=6
    return cls(x=rng.normal(size=(n,2)), log_likelihood=rng.normal(size=n), log_prior=rng.normal(size=n), log_q=rng.normal(size=n), xp=xp, dtype=dtype, **kw)
def t(name, f):
    try:
        r=f(); print("OK  ",name, r)
    except Exception as e:
        print("FAIL",name, type(e).__name__, str(e)[:150])
# from_samples dtype
s=mk(Samples,xnp,'float32')
t("from_samples np f32 -> SMCSamples dtype", lambda: SMCSamples.from_samples(s, xp=xnp, beta=0.0, dtype='float32').x.dtype)
s=mk(Samples,xtorch,torch.float64)
t("from_samples torch f64 -> SMCSamples dtype", lambda: SMCSamples.from_samples(s, xp=xtorch, beta=0.0, dtype=torch.float64).x.dtype)
# to_numpy dtype
s=mk(Samples,xnp,'float32'); t("Samples np f32 to_numpy dtype", lambda: s.to_numpy().x.dtype)
s=mk(BaseSamples,xnp,'float32'); t("BaseSamples np f32 to_numpy dtype", lambda: s.to_numpy().x.dtype)
# to_namespace
for cls in (BaseSamples,Samples,SMCSamples):
  for a,an in ((xnp,'np'),(xtorch,'torch'),(jnp,'jax')):
    for b,bn in ((xnp,'np'),(xtorch,'torch'),(jnp,'jax')):
      for dt in (None,'float32','float64'):
        def f():
            s=mk(cls,a,dt)
            r=s.to_namespace(b)
            return (str(s.x.dtype), str(r.x.dtype), type(r.x).__name__)
        t(f"{cls.__name__} {an}->{bn} {dt}", f)
