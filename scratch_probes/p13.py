import sys; sys.path.insert(0,'/tmp/probe/stubs')
import warnings; warnings.filterwarnings("ignore")
import numpy as np, math, io, h5py, pickle, os
import array_api_compat.numpy as xnp
from aspire.transforms import *
from aspire.samples import SMCSamples, Samples
from aspire.history import SMCHistory
from stub import *
def t(name,f):
    try: print("OK  ",name,f())
    except Exception as e: print("FAIL",name,type(e).__name__,str(e)[:200])
rng=np.random.default_rng(0)
# ---- C04 numeric log-Jacobian vs finite differences (composite, all combos)
def num_logdet(f, x, h=1e-6):
    d=len(x); J=np.zeros((d,d))
    for k in range(d):
        e=np.zeros(d); e[k]=h
        J[:,k]=(np.asarray(f(x+e))-np.asarray(f(x-e)))/(2*h)
    return np.log(abs(np.linalg.det(J)))
def c04():
    out=[]
    for per in ([],['c']):
      for b2u in (True,False):
        for bt in ('logit','probit'):
          for aff in (True,False):
            tr=CompositeTransform(parameters=['a','b','c'],periodic_parameters=per,prior_bounds={'a':[-2,3],'b':[0,1e3],'c':[-1,1]},bounded_to_unbounded=b2u,bounded_transform=bt,affine_transform=aff,xp=xnp)
            X=np.column_stack([rng.uniform(-1.9,2.9,40),rng.uniform(1,999,40),rng.uniform(-0.99,0.99,40)])
            tr.fit(X)
            y,lj=tr.forward(X); xb,ljb=tr.inverse(y)
            nd=[num_logdet(lambda v: tr.forward(v[None,:])[0][0], X[i]) for i in range(5)]
            out.append((bool(np.allclose(xb,X,atol=1e-8)), bool(np.allclose(lj+ljb,0,atol=1e-8)), bool(np.allclose(lj[:5],nd,atol=1e-4)), bool(np.allclose(tr.fit(X), tr.forward(X)[0]))))
    return set(out), len(out)
t("C04 composite all combos (roundtrip, lj_inv=-lj_fwd, lj=numeric, fit=forward)", c04)
# ---- C05 target
def c05():
    res=[]
    for prec in (None, dict(periodic=['x_1'], b2u=False, aff=False), dict(periodic=[], b2u=True, aff=True), dict(periodic=['x_1'], b2u=True, aff=False)):
        s=make(dims=2, seed=3)
        if prec is not None:
            s.preconditioning_transform=CompositeTransform(parameters=['x_0','x_1'],periodic_parameters=prec['periodic'],prior_bounds={'x_0':[-10,10],'x_1':[-10,10]},bounded_to_unbounded=prec['b2u'],affine_transform=prec['aff'],bounded_transform='logit',xp=xnp)
        X=rng.uniform(-9,9,size=(30,2)); X[0]=[11,0]   # one point outside prior
        z=np.asarray(s.preconditioning_transform.fit(X))
        z=z[1:]  # outside-prior point can't be represented in bounded space; test via direct x below
        for beta in (0.3,1.0):
            lp=np.asarray(s.log_prob(z.copy(),beta))
            x,J=s.preconditioning_transform.inverse(z.copy())
            smp=Samples(x,xp=xnp)
            ref=(1-beta)*s.prior_flow.log_prob(x)+beta*(s._log_likelihood(Samples(x,xp=xnp,log_prior=s.log_prior(smp)))+s.log_prior(smp))+np.asarray(J)
            res.append(bool(np.allclose(lp,ref)))
    s=make(dims=2, seed=3); z=np.array([[11.,0.],[0.,0.]]); lp=np.asarray(s.log_prob(z,0.5)); res.append(("outside-prior", lp[0]))
    return res
t("C05 SMC target vs recomputation", c05)
# ---- C09 p vector + rows intact
def c09():
    class Rec:
        def __init__(s): s.g=np.random.default_rng(1)
        def choice(s,a,size=None,replace=True,p=None): s.p=p; s.a=a; s.idx=s.g.choice(a,size=size,replace=replace,p=p); return s.idx
    n=40; ll=rng.normal(size=n)*30; lp=rng.normal(size=n); lq=rng.normal(size=n); X=rng.normal(size=(n,2))
    s=SMCSamples(X,log_likelihood=ll,log_prior=lp,log_q=lq,beta=0.2)
    r=Rec(); out=s.resample(0.7,n_samples=55,rng=r)
    w=(0.7-0.2)*(ll+lp-lq); w=np.exp(w-w.max()); w/=w.sum()
    return (bool(np.allclose(r.p,w)), len(out.x), out.beta, bool(np.array_equal(out.x,X[r.idx]) and np.array_equal(out.log_q,lq[r.idx]) and np.array_equal(out.log_prior,lp[r.idx]) and np.array_equal(out.log_likelihood,ll[r.idx])))
t("C09 resample p and rows", c09)
# ---- C10 initial population with tight prior
def c10():
    s=make(dims=2, seed=4)
    s.log_prior=lambda smp: np.where((np.abs(np.asarray(smp.x))<=1.0).all(-1), -math.log(4.0), -np.inf)
    pop=s.draw_initial_samples(37)
    x=np.asarray(pop.x)
    return (len(pop), bool(np.isfinite(pop.log_prior).all()), bool(np.allclose(pop.log_q, s.prior_flow.log_prob(x))), bool(np.allclose(pop.log_likelihood, -0.5*((x-1)**2).sum(-1))))
t("C10 draw_initial_samples", c10)
# ---- C12 fault injection: exception at every likelihood call index; file must hold last payload
def c12():
    path='/tmp/probe/c12.h5'; bad=[]; total=0
    for every in (1,2):
        # reference: count likelihood calls
        nl=[]; s=make(seed=6, nlike=nl); s.sample(30, n_steps=3, adaptive=False, checkpoint_every=every, checkpoint_file_path=path); ncalls=len(nl)
        for k in range(ncalls):
            if os.path.exists(path): os.remove(path)
            cnt=[0]; payloads=[]
            s=make(seed=6)
            orig=s._log_likelihood
            def ll(smp, _o=orig):
                cnt[0]+=1
                if cnt[0]==k+1: raise RuntimeError("boom")
                return _o(smp)
            s._log_likelihood=ll
            cb=s.default_file_checkpoint_callback(path)
            def rec(st, _cb=cb): payloads.append(pickle.dumps(st, protocol=pickle.HIGHEST_PROTOCOL)); _cb(st)
            try: s.sample(30, n_steps=3, adaptive=False, checkpoint_every=every, checkpoint_callback=rec)
            except RuntimeError: pass
            total+=1
            if payloads:
                with h5py.File(path,'r') as f: b=f['checkpoint']['state'][...].tobytes()
                st=pickle.loads(b)
                if st['iteration']!=pickle.loads(payloads[-1])['iteration'] or len(b)!=len(payloads[-1]): bad.append((every,k))
            else:
                if os.path.exists(path):
                    with h5py.File(path,'r') as f:
                        if 'checkpoint' in f: bad.append((every,k,'unexpected'))
    return ("cases",total,"bad",bad)
t("C12 fault injection", c12)
# ---- C13 history save/load
def c13h():
    s=make(seed=2); out=s.sample(20, n_steps=3, adaptive=False)
    h=s.history
    with h5py.File(io.BytesIO(),'w') as f:
        h.save(f,'h'); h2=SMCHistory.load(f,'h')
    return (bool(np.allclose(h.beta,h2.beta)), bool(np.allclose(h.log_norm_ratio,h2.log_norm_ratio)), len(h2.sample_history)==len(h.sample_history), bool(np.allclose(h2.sample_history[2].x, h.sample_history[2].x)), h2.sample_history[2].beta==h.sample_history[2].beta, type(h2.beta).__name__, type(h2.mcmc_acceptance).__name__, h2.mcmc_autocorr)
t("C13 SMCHistory save/load", c13h)
