import sys; sys.path.insert(0,'/tmp/probe/stubs')
import numpy as np, pickle, warnings, h5py, os, math
warnings.filterwarnings("ignore")
import logging
from aspire import Aspire, Samples
import orng
dims=2
def log_prior(s):
    x=np.asarray(s.x); return np.where((np.abs(x)<=10).all(-1), -dims*math.log(20.0), -np.inf)
def log_like(s):
    x=np.asarray(s.x); return -0.5*((x-1.0)**2).sum(-1)
def mk():
    return Aspire(log_likelihood=log_like, log_prior=log_prior, dims=dims, parameters=['a','b'], prior_bounds={'a':[-10,10],'b':[-10,10]}, flow_backend='flowjax', key=__import__('jax').random.key(0))
rng=np.random.default_rng(0)
A=Samples(rng.normal(1,1,size=(300,2))); B=Samples(rng.normal(-3,0.5,size=(300,2)))
# C20: rng routing
a=mk(); a.fit(A, max_epochs=3)
my=np.random.default_rng(123)
n0=len(orng.CREATED)
out=a.sample_posterior(n_samples=30, sampler='smc', rng=my, n_steps=2, adaptive=False, sampler_kwargs={'n_steps':2})
print("C20: user rng is sampler.rng?", a.sampler.rng is my, "ArrayRNG created:", len(orng.CREATED)-n0)
# C14: refit then sample to same file
path='/tmp/probe/c14.h5'
if os.path.exists(path): os.remove(path)
a=mk(); a.fit(A, max_epochs=3, checkpoint_path=path)
a.fit(B, max_epochs=3, checkpoint_path=path)   # no overwrite
out=a.sample_posterior(n_samples=30, sampler='smc', n_steps=2, adaptive=False, sampler_kwargs={'n_steps':2}, checkpoint_path=path, rng=np.random.default_rng(1))
from aspire.utils import AspireFile
with AspireFile(path,'r') as f:
    print("file keys", list(f.keys()))
    st=pickle.loads(f['checkpoint']['state'][...].tobytes())
    b=mk(); b.load_flow(f)
smp=st['samples']
lq_file=np.asarray(b.flow.log_prob(np.asarray(smp.x))); lq_cur=np.asarray(a.flow.log_prob(np.asarray(smp.x)))
print("C14: stored log_q vs file-flow log_q maxdiff", np.abs(np.asarray(smp.log_q)-lq_file).max(), " vs current-flow", np.abs(np.asarray(smp.log_q)-lq_cur).max())
r=Aspire.resume_from_file(path, log_likelihood=log_like, log_prior=log_prior)
print("resume sampler type", r._resume_sampler_type, "n", r._resume_n_samples)
