import warnings; warnings.filterwarnings("ignore")
import numpy as np, io, h5py, torch
from aspire.flows.torch.flows import ZukoFlow
from aspire.flows import get_flow_wrapper
def t(name,f):
    try: print("OK  ",name,f())
    except Exception as e: print("FAIL",name,type(e).__name__,str(e)[:200])
X=np.random.default_rng(0).normal(size=(200,2))
def rt(**kw):
    f=ZukoFlow(dims=2, dtype='float64', **kw); f.fit(X, n_epochs=2)
    print("   config keys:", list(f.config_dict().keys()), {k:v for k,v in f.config_dict().items() if k=='kwargs'})
    with h5py.File(io.BytesIO(),'w') as h:
        f.save(h,'flow'); g=ZukoFlow.load(h,'flow')
    P=np.random.default_rng(1).normal(size=(10,2))
    return float(np.abs(f.log_prob(P).detach().numpy()-g.log_prob(P).detach().numpy()).max())
t("zuko default", lambda: rt())
t("zuko hidden_features=[16,16]", lambda: rt(hidden_features=[16,16]))
t("zuko transforms=2", lambda: rt(transforms=2))
t("zuko flow_class=NSF", lambda: rt(flow_class='NSF'))
# via Aspire with flow kwargs
from aspire import Aspire, Samples
def via_aspire():
    a=Aspire(log_likelihood=lambda s:0, log_prior=lambda s:0, dims=2, parameters=['a','b'], flow_backend='zuko', hidden_features=[16,16], dtype='float64')
    a.fit(Samples(X), n_epochs=2)
    with h5py.File(io.BytesIO(),'w') as h:
        a.save_flow(h); b=Aspire(log_likelihood=lambda s:0, log_prior=lambda s:0, dims=2, parameters=['a','b'], flow_backend='zuko'); b.load_flow(h)
    P=np.random.default_rng(1).normal(size=(10,2))
    return float(np.abs(a.flow.log_prob(P).detach().numpy()-b.flow.log_prob(P).detach().numpy()).max())
t("Aspire zuko hidden_features save_flow/load_flow", via_aspire)
