from z3 import *
import time
def prove(name, hyps, goal, timeout=20000):
    s=Solver(); s.set(timeout=timeout); s.add(*hyps); s.add(Not(goal)); t=time.time(); r=s.check()
    print(f"{'proved' if r==unsat else r!s:7s} {name}  {time.time()-t:.3f}s")
    if r==sat: print("    ", s.model())
# ---------- (a) Aligned under take / concat (C10, C16, C09)
Arr=DeclareSort('Arr'); Mat=DeclareSort('Mat'); Row=DeclareSort('Row'); Idx=DeclareSort('Idx')
at=Function('at',Arr,IntSort(),RealSort()); row=Function('row',Mat,IntSort(),Row)
alen=Function('alen',Arr,IntSort()); mlen=Function('mlen',Mat,IntSort()); ilen=Function('ilen',Idx,IntSort()); ix=Function('ix',Idx,IntSort(),IntSort())
take=Function('take',Arr,Idx,Arr); mtake=Function('mtake',Mat,Idx,Mat)
pi=Function('pi',Row,RealSort())
a=Const('a',Arr); m=Const('m',Mat); k=Const('k',Idx); i,j=Ints('i j')
AX=[ForAll([a,k,j], Implies(And(0<=j,j<ilen(k)), at(take(a,k),j)==at(a,ix(k,j))), patterns=[at(take(a,k),j)]),
    ForAll([m,k,j], Implies(And(0<=j,j<ilen(k)), row(mtake(m,k),j)==row(m,ix(k,j))), patterns=[row(mtake(m,k),j)]),
    ForAll([a,k], alen(take(a,k))==ilen(k)), ForAll([m,k], mlen(mtake(m,k))==ilen(k))]
x=Const('x',Mat); lp=Const('lp',Arr); idx=Const('idx',Idx)
valid=ForAll([j], Implies(And(0<=j,j<ilen(idx)), And(0<=ix(idx,j), ix(idx,j)<mlen(x))), patterns=[ix(idx,j)])
aligned=ForAll([i], Implies(And(0<=i,i<mlen(x)), at(lp,i)==pi(row(x,i))), patterns=[at(lp,i)])
jj=Int('jj')
goal=Implies(And(0<=jj,jj<mlen(mtake(x,idx))), at(take(lp,idx),jj)==pi(row(mtake(x,idx),jj)))
prove("Aligned(s) => Aligned(s[idx])  [same idx on every field]", AX+[valid,aligned,alen(lp)==mlen(x)], goal)
idx2=Const('idx2',Idx)
goal_bad=Implies(And(0<=jj,jj<ilen(idx), ilen(idx2)==ilen(idx)), at(take(lp,idx2),jj)==pi(row(mtake(x,idx),jj)))
prove("MUTANT: log_prior indexed with a different idx", AX+[valid,aligned,alen(lp)==mlen(x)], goal_bad)
goal_bad2=Implies(And(0<=jj,jj<ilen(idx)), at(lp,jj)==pi(row(mtake(x,idx),jj)))
prove("MUTANT: log_prior not indexed at all", AX+[valid,aligned,alen(lp)==mlen(x)], goal_bad2)
# concat
cat=Function('cat',Arr,Arr,Arr); mcat=Function('mcat',Mat,Mat,Mat)
b=Const('b',Arr); m2=Const('m2',Mat)
AXC=[ForAll([a,b,j], at(cat(a,b),j)==If(j<alen(a), at(a,j), at(b,j-alen(a))), patterns=[at(cat(a,b),j)]),
     ForAll([m,m2,j], row(mcat(m,m2),j)==If(j<mlen(m), row(m,j), row(m2,j-mlen(m))), patterns=[row(mcat(m,m2),j)]),
     ForAll([a,b], alen(cat(a,b))==alen(a)+alen(b)), ForAll([m,m2], mlen(mcat(m,m2))==mlen(m)+mlen(m2)),
     ForAll([a], alen(a)>=0), ForAll([m], mlen(m)>=0)]
x2=Const('x2',Mat); lp2=Const('lp2',Arr)
aligned2=ForAll([i], Implies(And(0<=i,i<mlen(x2)), at(lp2,i)==pi(row(x2,i))), patterns=[at(lp2,i)])
goalc=Implies(And(0<=jj,jj<mlen(mcat(x,x2))), at(cat(lp,lp2),jj)==pi(row(mcat(x,x2),jj)))
prove("Aligned(a) & Aligned(b) => Aligned(concatenate([a,b]))", AXC+[aligned,aligned2,alen(lp)==mlen(x),alen(lp2)==mlen(x2)], goalc)
goalc_bad=Implies(And(0<=jj,jj<mlen(mcat(x,x2))), at(cat(lp2,lp),jj)==pi(row(mcat(x,x2),jj)))
prove("MUTANT: concatenation order swapped for one field", AXC+[aligned,aligned2,alen(lp)==mlen(x),alen(lp2)==mlen(x2)], goalc_bad)

# ---------- (b) extended reals for C05
XR=Datatype('XR'); XR.declare('fin',('v',RealSort())); XR.declare('ninf'); XR.declare('pinf'); XR.declare('nan'); XR=XR.create()
fin,ninf,pinf,nan=XR.fin,XR.ninf,XR.pinf,XR.nan
def xadd(p,q):
    return If(Or(p==nan,q==nan), nan,
           If(XR.is_fin(p), If(XR.is_fin(q), fin(XR.v(p)+XR.v(q)), q),
           If(XR.is_fin(q), p, If(p==q, p, nan))))
def xscale(c,p):   # python float c (finite real) times extended p
    return If(p==nan, nan, If(XR.is_fin(p), fin(c*XR.v(p)),
           If(c==0, nan, If(c>0, p, If(p==ninf, pinf, ninf)))))
def nan_to_ninf(p): return If(p==nan, ninf, p)
q,L,P,J=Consts('q L P J',XR); beta=Real('beta')
res_smc = nan_to_ninf(xadd(xadd(xscale(1-beta,q), xscale(beta, xadd(L,P))), J))
pre=[0<beta, beta<=1]
prove("C05 SMC: zero prior => -inf (never finite)", pre+[P==ninf], Not(XR.is_fin(res_smc)))
prove("C05 SMC: zero prior => exactly -inf when q,J finite and L not +inf", pre+[P==ninf, XR.is_fin(q), XR.is_fin(J), L!=pinf], res_smc==ninf)
prove("C05 SMC: result is never NaN", pre, res_smc!=nan)
prove("C05 SMC: finite case equals the formula", pre+[XR.is_fin(q),XR.is_fin(L),XR.is_fin(P),XR.is_fin(J)],
      res_smc==fin((1-beta)*XR.v(q)+beta*(XR.v(L)+XR.v(P))+XR.v(J)))
res_mut = nan_to_ninf(xadd(xadd(xscale(beta,q), xscale(1-beta, xadd(L,P))), J))
prove("MUTANT: beta and 1-beta swapped", pre+[XR.is_fin(q),XR.is_fin(L),XR.is_fin(P),XR.is_fin(J)],
      res_mut==fin((1-beta)*XR.v(q)+beta*(XR.v(L)+XR.v(P))+XR.v(J)))
res_nonan = xadd(xadd(xscale(1-beta,q), xscale(beta, xadd(L,P))), J)
prove("MUTANT: NaN mapping removed", pre, res_nonan!=nan)
