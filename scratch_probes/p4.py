import numpy as np, pickle, copy, warnings
warnings.filterwarnings("ignore")
from stub import *
from aspire.samples import Samples
# C02 stability
for shift in (0, 500, 800, 1e5, -800, -1e5):
    ll=np.array([0.0,1.0,2.0,-1.0])+shift
    s=Samples(x=np.zeros((4,1)), log_likelihood=ll, log_prior=np.zeros(4), log_q=np.zeros(4))
    print("shift",shift,"logZ",s.log_evidence,"relerr",s.log_evidence_error,"ess",s.effective_sample_size, "eff", s.efficiency)
# with -inf subset
ll=np.array([0.0,1.0,-np.inf,-1.0])
s=Samples(x=np.zeros((4,1)), log_likelihood=ll, log_prior=np.zeros(4), log_q=np.zeros(4))
print("-inf subset","logZ",s.log_evidence,"relerr",s.log_evidence_error,"ess",s.effective_sample_size)
# C18/C11 resume
ck=[]
s=make(seed=3); out=s.sample(60, n_steps=4, adaptive=False, checkpoint_callback=lambda st: ck.append(pickle.dumps(st)), checkpoint_every=1)
ref_beta=list(s.history.beta); ref_lnr=list(s.history.log_norm_ratio); ref_len=len(s.history.sample_history)
print("ref: iters",len(ref_beta),"sample_history",ref_len,"ncheckpoints",len(ck), "logZ", out.log_evidence)
st=pickle.loads(ck[1]); print("ckpt[1] iteration",st['iteration'],"beta",st['meta'],"hist lens",len(st['history'].beta),len(st['history'].sample_history), 'keys', list(st.keys()))
s2=make(seed=3); out2=s2.sample(60, n_steps=4, adaptive=False, resume_from=ck[1])
print("resumed: iters",len(s2.history.beta),"sample_history",len(s2.history.sample_history),"betas",s2.history.beta, "logZ", out2.log_evidence)
print("betas equal", s2.history.beta==ref_beta, "lnr equal", np.allclose(s2.history.log_norm_ratio, ref_lnr), s2.history.log_norm_ratio, ref_lnr)
print("x equal", np.array_equal(np.asarray(out.x), np.asarray(out2.x)))
