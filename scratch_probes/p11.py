import warnings; warnings.filterwarnings("ignore")
from aspire.utils import PoolHandler
class A:
    def __init__(s): s.log_likelihood=lambda x,map_fn=map:0; s.log_prior=lambda x:0
a=A(); l0=a.log_likelihood
try:
    with PoolHandler(a, None):
        pass
    print("exit ok")
except Exception as e:
    print("exit raised", type(e).__name__, e, "| restored:", a.log_likelihood is l0)
# nested auto_checkpoint
from aspire import Aspire
asp=Aspire(log_likelihood=lambda s:0, log_prior=lambda s:0, dims=1)
try:
    with asp.auto_checkpoint("a.h5"):
        d1=asp._checkpoint_defaults
        try:
            with asp.auto_checkpoint("b.h5", every=3):
                raise RuntimeError
        except RuntimeError: pass
        print("inner restored to outer dict:", asp._checkpoint_defaults is d1)
        raise KeyError
except KeyError: pass
print("outer removed:", not hasattr(asp, "_checkpoint_defaults"))
