import Mathlib.Analysis.SpecialFunctions.Log.Basic
import Mathlib.Analysis.SpecialFunctions.Log.Deriv
import Mathlib.Analysis.SpecialFunctions.Exp
import Mathlib.Algebra.Order.Chebyshev
import Mathlib.Algebra.BigOperators.Fin
import Mathlib.Tactic

open Finset Real
set_option linter.style.haveILetI false

namespace Spec
variable {n : ℕ}
noncomputable def LSE (x : Fin n → ℝ) : ℝ := Real.log (∑ i, Real.exp (x i))
noncomputable def ESS (x : Fin n → ℝ) : ℝ := (∑ i, Real.exp (x i)) ^ 2 / ∑ i, Real.exp (x i) ^ 2
noncomputable def vmax [NeZero n] (x : Fin n → ℝ) : ℝ := Finset.univ.sup' Finset.univ_nonempty x

lemma sum_exp_pos [NeZero n] (x : Fin n → ℝ) : 0 < ∑ i, Real.exp (x i) :=
  Finset.sum_pos (fun i _ => Real.exp_pos _) Finset.univ_nonempty

lemma lse_shift [NeZero n] (x : Fin n → ℝ) (c : ℝ) :
    c + Real.log (∑ i, Real.exp (x i - c)) = LSE x := by
  unfold LSE
  have hpos := sum_exp_pos (fun i => x i - c)
  have h : ∑ i : Fin n, Real.exp (x i) = Real.exp c * ∑ i : Fin n, Real.exp (x i - c) := by
    rw [Finset.mul_sum]; apply Finset.sum_congr rfl; intro i _
    rw [← Real.exp_add]; congr 1; ring
  rw [h, Real.log_mul (Real.exp_pos c).ne' hpos.ne', Real.log_exp]

lemma lse_add_const [NeZero n] (x : Fin n → ℝ) (c : ℝ) : LSE (fun i => x i + c) = LSE x + c := by
  have := lse_shift (fun i => x i + c) c
  simp only [add_sub_cancel_right] at this
  unfold LSE at *; linarith

lemma ess_eq_exp [NeZero n] (a : Fin n → ℝ) :
    Real.exp (LSE a * 2 - LSE (fun i => a i * 2)) = ESS a := by
  have h1 := sum_exp_pos a
  have h2 := sum_exp_pos (fun i => a i * 2)
  unfold LSE ESS
  rw [Real.exp_sub, Real.exp_log h2]
  congr 1
  · rw [show Real.log (∑ i, Real.exp (a i)) * 2 = Real.log (∑ i, Real.exp (a i)) + Real.log (∑ i, Real.exp (a i)) by ring,
      Real.exp_add, Real.exp_log h1]; ring
  · apply Finset.sum_congr rfl; intro i _
    rw [← Real.exp_nat_mul]; congr 1; push_cast; ring

lemma ess_shift [NeZero n] (a : Fin n → ℝ) (c : ℝ) : ESS (fun i => a i + c) = ESS a := by
  unfold ESS
  have e1 : ∀ i, Real.exp (a i + c) = Real.exp (a i) * Real.exp c := fun i => Real.exp_add _ _
  simp only [e1, mul_pow, ← Finset.sum_mul]
  have hc : Real.exp c ^ 2 ≠ 0 := by positivity
  have h2 : (∑ i : Fin n, Real.exp (a i) ^ 2) ≠ 0 :=
    (Finset.sum_pos (fun i _ => by positivity) Finset.univ_nonempty).ne'
  field_simp

lemma ess_le [NeZero n] (a : Fin n → ℝ) : ESS a ≤ n := by
  unfold ESS
  have h2 : 0 < ∑ i : Fin n, Real.exp (a i) ^ 2 :=
    Finset.sum_pos (fun i _ => by positivity) Finset.univ_nonempty
  rw [div_le_iff₀ h2]
  have := sq_sum_le_card_mul_sum_sq (s := (Finset.univ : Finset (Fin n))) (f := fun i => Real.exp (a i))
  simpa using this

lemma one_le_ess [NeZero n] (a : Fin n → ℝ) : 1 ≤ ESS a := by
  unfold ESS
  have h2 : 0 < ∑ i : Fin n, Real.exp (a i) ^ 2 :=
    Finset.sum_pos (fun i _ => by positivity) Finset.univ_nonempty
  rw [le_div_iff₀ h2, one_mul]
  exact Finset.sum_sq_le_sq_sum_of_nonneg (fun i _ => (Real.exp_pos _).le)

lemma ess_const [NeZero n] (c : ℝ) : ESS (fun _ : Fin n => c) = n := by
  unfold ESS
  simp only [Finset.sum_const, Finset.card_univ, Fintype.card_fin, nsmul_eq_mul]
  have hc : Real.exp c ≠ 0 := (Real.exp_pos c).ne'
  have hn : (n:ℝ) ≠ 0 := by exact_mod_cast NeZero.ne n
  field_simp

lemma ess_perm (a : Fin n → ℝ) (σ : Equiv.Perm (Fin n)) : ESS (a ∘ σ) = ESS a := by
  unfold ESS
  simp only [Function.comp]
  rw [Equiv.sum_comp σ (fun i => Real.exp (a i)), Equiv.sum_comp σ (fun i => Real.exp (a i) ^ 2)]

lemma le_lse [NeZero n] (a : Fin n → ℝ) (i : Fin n) : a i ≤ LSE a := by
  unfold LSE
  rw [← Real.log_exp (a i)]
  apply Real.log_le_log (Real.exp_pos _)
  exact Finset.single_le_sum (f := fun j => Real.exp (a j)) (fun j _ => (Real.exp_pos _).le) (Finset.mem_univ i)
end Spec

/-! ### "generated" from src/aspire/utils.py (what py2lean would emit) -/
namespace Gen
open Spec
variable {n : ℕ} [NeZero n]

-- def logsumexp(x, axis=None): c = x.max(); return c + xp.log(xp.sum(xp.exp(x - c), axis=axis))
noncomputable def logsumexp (x : Fin n → ℝ) : ℝ :=
  let c := vmax x
  c + Real.log (∑ i, Real.exp (x i - c))

-- def effective_sample_size(log_w): return xp.exp(xp.asarray(logsumexp(log_w) * 2 - logsumexp(log_w * 2)))
noncomputable def effective_sample_size (log_w : Fin n → ℝ) : ℝ :=
  Real.exp (logsumexp log_w * 2 - logsumexp (fun i => log_w i * 2))

-- Samples.compute_weights (fields become parameters)
noncomputable def cw_log_w (ll lp lq : Fin n → ℝ) : Fin n → ℝ := fun i => ll i + lp i - lq i
noncomputable def cw_log_evidence (ll lp lq : Fin n → ℝ) : ℝ :=
  logsumexp (cw_log_w ll lp lq) - Real.log (n : ℝ)
noncomputable def cw_ess (ll lp lq : Fin n → ℝ) : ℝ :=
  let log_w := fun i => cw_log_w ll lp lq i - vmax (cw_log_w ll lp lq)
  Real.exp (logsumexp log_w * 2 - logsumexp (fun i => log_w i * 2))
end Gen

/-! ### obligations (statements generated; proofs are the sidecar) -/
namespace Obl
open Spec Gen
variable {n : ℕ} [NeZero n]

theorem logsumexp_spec (x : Fin n → ℝ) : logsumexp x = LSE x := by
  unfold logsumexp; exact lse_shift x _

theorem logsumexp_exp_args_nonpos (x : Fin n → ℝ) (i : Fin n) : x i - vmax x ≤ 0 := by
  unfold vmax; have := Finset.le_sup' x (Finset.mem_univ i); linarith

theorem ess_spec (a : Fin n → ℝ) : effective_sample_size a = ESS a := by
  unfold effective_sample_size; rw [logsumexp_spec, logsumexp_spec]; exact ess_eq_exp a

theorem ess_bounds (a : Fin n → ℝ) : 1 ≤ effective_sample_size a ∧ effective_sample_size a ≤ n := by
  rw [ess_spec]; exact ⟨one_le_ess a, ess_le a⟩

theorem cw_log_evidence_spec (ll lp lq : Fin n → ℝ) :
    cw_log_evidence ll lp lq = Real.log ((∑ i, Real.exp (ll i + lp i - lq i)) / n) := by
  unfold cw_log_evidence; rw [logsumexp_spec]; unfold LSE cw_log_w
  have hn : (n:ℝ) ≠ 0 := by exact_mod_cast NeZero.ne n
  rw [Real.log_div (sum_exp_pos _).ne' hn]

theorem cw_ess_spec (ll lp lq : Fin n → ℝ) : cw_ess ll lp lq = ESS (cw_log_w ll lp lq) := by
  unfold cw_ess
  simp only []
  rw [logsumexp_spec, logsumexp_spec, ess_eq_exp]
  have := ess_shift (cw_log_w ll lp lq) (-(vmax (cw_log_w ll lp lq)))
  simpa [sub_eq_add_neg] using this

theorem cw_log_evidence_shift (ll lp lq : Fin n → ℝ) (c : ℝ) :
    cw_log_evidence (fun i => ll i + c) lp lq = cw_log_evidence ll lp lq + c := by
  unfold cw_log_evidence; rw [logsumexp_spec, logsumexp_spec]
  have : cw_log_w (fun i => ll i + c) lp lq = fun i => cw_log_w ll lp lq i + c := by
    funext i; unfold cw_log_w; ring
  rw [this, lse_add_const]; ring
end Obl

/-! ### element-wise transforms: utils.logit / utils.sigmoid (scalar element) -/
namespace Tr
-- y = xp.log(x) - xp.log1p(-x) ; log_j elem = -xp.log(x) - xp.log1p(-x)
noncomputable def logit_y (x : ℝ) : ℝ := Real.log x - Real.log (1 + -x)
noncomputable def logit_lj (x : ℝ) : ℝ := -Real.log x - Real.log (1 + -x)
-- x = 1/(1+exp(-y)) ; log_j elem = log(x) + log1p(-x)
noncomputable def sigmoid_x (y : ℝ) : ℝ := 1 / (1 + Real.exp (-y))
noncomputable def sigmoid_lj (y : ℝ) : ℝ := Real.log (sigmoid_x y) + Real.log (1 + -(sigmoid_x y))

theorem sigmoid_mem (y : ℝ) : 0 < sigmoid_x y ∧ sigmoid_x y < 1 := by
  unfold sigmoid_x; have := Real.exp_pos (-y)
  constructor
  · positivity
  · rw [div_lt_one (by positivity)]; linarith

theorem sigmoid_logit (x : ℝ) (h0 : 0 < x) (h1 : x < 1) : sigmoid_x (logit_y x) = x := by
  unfold sigmoid_x logit_y
  have h1x : 0 < 1 + -x := by linarith
  rw [neg_sub, Real.exp_sub, Real.exp_log h1x, Real.exp_log h0]
  field_simp; ring

theorem logit_deriv (x : ℝ) (h0 : 0 < x) (h1 : x < 1) :
    HasDerivAt logit_y (Real.exp (logit_lj x)) x := by
  have h1x : 0 < 1 + -x := by linarith
  have hd : HasDerivAt logit_y (x⁻¹ - (-1) / (1 + -x)) x := by
    unfold logit_y
    exact (Real.hasDerivAt_log h0.ne').sub (((hasDerivAt_id x).neg.const_add 1).log h1x.ne')
  have e : Real.exp (logit_lj x) = x⁻¹ - (-1) / (1 + -x) := by
    unfold logit_lj
    rw [Real.exp_sub, Real.exp_neg, Real.exp_log h0, Real.exp_log h1x]
    field_simp; ring
  rw [e]; exact hd

theorem inverse_lj_is_negative (x : ℝ) (h0 : 0 < x) (h1 : x < 1) :
    sigmoid_lj (logit_y x) = -logit_lj x := by
  unfold sigmoid_lj; rw [sigmoid_logit x h0 h1]; unfold logit_lj; ring
end Tr
