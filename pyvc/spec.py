"""Spec functions shared by the sidecar contracts (uninterpreted in SMT, defined in Lean).

  LSE(a)            log sum_i exp a_i
  ESS(a)            (sum e^{a_i})^2 / sum e^{2 a_i}
  IW(s, b)          incremental log-weights of population s for the move s.beta -> b
  ESS_IW(d,b0,b1)   ESS(IW) of the population with data d at temperature b0 moved to b1
  LER / LERV        log mean incremental weight and its delta-method variance
  TE(cfg, beta)     target efficiency in force at beta

Lemma instances (proved in /verif/lean/Spec.lean, imported here through this hand-maintained
table - the only trusted translation) are added as hypotheses at the point where a term is
created, and their names are recorded in the evidence.
"""
from __future__ import annotations

import hashlib

import z3

from .lib import RS, IS, BS, Misc, assumed, red
from .values import NONE, Arr, B, I as IV, NoneV, Obj, R, Row, Str, Sym, Tup, Z, base_arr, fresh, skey, to_int, to_real, uf

PopData = z3.DeclareSort("PopData")
ESS_IW = uf("ESS_IW", PopData, RS, RS, RS)
LER = uf("LER", PopData, RS, RS, RS)
LERV = uf("LERV", PopData, RS, RS, RS)
NPOP = uf("npop", PopData, IS)

LEMMAS_USED = set()


def lemma(I, name):
    I.path.ex.assumed.add(f"lemma[{name}] (proved in lean/Spec.lean)")


def data_of(s: Obj):
    """identity of the weight-relevant data of a population: its four cached arrays"""
    if "__data" in s.f:
        return s.f["__data"]
    ks = "|".join(skey(s.f.get(k, NONE)) for k in ("x", "log_likelihood", "log_prior", "log_q"))
    h = hashlib.sha1(ks.encode()).hexdigest()[:12]
    return z3.Const(f"data<{h}>", PopData)


def pop_n(s: Obj):
    x = s.f["x"]
    return x.n


def iw_arr(I, s: Obj, b, shifted=False):
    """IW(s, b)_i = (s.beta - b) * lq_i + (b - s.beta) * (ll_i + lp_i)   [+ LER when shifted]"""
    d = data_of(s)
    b0 = to_real(s.f["beta"])
    b1 = to_real(b)
    ll, lp, lq = s.f["log_likelihood"], s.f["log_prior"], s.f["log_q"]
    c = LER(d, b0, b1) if shifted else z3.RealVal(0)

    def at(k):
        return (b0 - b1) * lq.at(k) + (b1 - b0) * (ll.at(k) + lp.at(k)) + c
    key = f"IW{'+LER' if shifted else ''}({d.sexpr()},{z3.simplify(b0).sexpr()},{z3.simplify(b1).sexpr()})"
    return Arr(lq.n, "real", at, key, {"iw": (d, b0, b1), "pop": s})


def ess_of(I, a: Arr):
    """ESS(a) as a z3 term, with the lemma instances 1 <= ESS <= n, ESS(IW(d,b,b)) = n"""
    if "iw" in a.meta:
        d, b0, b1 = a.meta["iw"]
        t = ESS_IW(d, b0, b1)
        lemma(I, "ess_shift: ESS(a + c) = ESS(a)")
        # instance of ess_const: IW(d,b,b) is the zero vector
        I.path.assume(z3.Implies(b0 == b1, t == z3.ToReal(a.n)), check=False)
        lemma(I, "ess_const: ESS(const) = n")
    else:
        t = red("ESS", a)
    I.path.assume(z3.And(t >= 1, t <= z3.ToReal(a.n)), check=False)
    lemma(I, "ess_bounds: 1 <= ESS(a) <= n")
    return t


def lse_of(I, a: Arr):
    return red("LSE", a)


# ---- helpers to build symbolic pre-states
def mk_arrays(name, n, with_x=True):
    out = {}
    if with_x:
        out["x"] = base_arr(f"{name}_x", "row", n)
    for f in ("log_likelihood", "log_prior", "log_q"):
        out[f] = base_arr(f"{name}_{f}", "real", n)
    return out


def mk_samples(cls, name, n=None, beta=None, fields=("log_likelihood", "log_prior", "log_q"), extra=None):
    n = n if n is not None else z3.Int(f"N_{name}")
    arrs = mk_arrays(name, n)
    f = {"x": arrs["x"]}
    for k in ("log_likelihood", "log_prior", "log_q"):
        f[k] = arrs[k] if k in fields else NONE
    f.update({"parameters": Sym(z3.Const(f"params_{name}", Misc), "params"), "dtype": Sym(z3.Const(f"dtype_{name}", Misc), "dtype"),
              "xp": Sym(z3.Const(f"xp_{name}", Misc), "ns"), "device": NONE})
    if cls == "SMCSamples":
        f["beta"] = beta if beta is not None else R(z3.Real(f"beta_{name}"))
        f["log_evidence"] = NONE
        f["log_evidence_error"] = NONE
    if cls == "Samples":
        f["log_evidence"] = NONE
        f["log_evidence_error"] = NONE
    f.update(extra or {})
    return Obj(cls, f)
