"""Runs one property check: deductive part (z3 over the real source, Lean for analytic lemmas),
bounded native stand-ins, known-finding handling, replay files, evidence."""
from __future__ import annotations

import hashlib
import json
import os
import pathlib
import re
import subprocess
import sys
import time
import traceback

ROOT = pathlib.Path(__file__).resolve().parent.parent
TAG = re.compile(r"\bC\d\d\b")


class PropertySpec:
    def __init__(self, pid, title, functions=(), lean=(), native=None, technique="", level_text="", trusted_base=(),
                 assumptions=(), include_untagged=True, extra_static=None, miss=()):
        self.pid, self.title, self.functions, self.lean, self.native = pid, title, list(functions), list(lean), native
        self.technique, self.level_text, self.trusted_base, self.assumptions = technique, level_text, list(trusted_base), list(assumptions)
        self.include_untagged = include_untagged
        self.extra_static = extra_static      # callable(tier) -> list of obligation dicts (call-graph / ast facts)
        self.miss = list(miss)


def relevant(pid, name, include_untagged=True):
    tags = set(TAG.findall(name))
    if tags:
        return pid in tags
    return include_untagged


def load_known():
    p = ROOT / "known_findings.json"
    return json.loads(p.read_text()) if p.exists() else {"open": [], "fixed": []}


def write_replay(pid, name, payload):
    d = ROOT / "replays" / pid
    d.mkdir(parents=True, exist_ok=True)
    h = hashlib.sha1((name + json.dumps(payload, sort_keys=True, default=str)).encode()).hexdigest()[:10]
    f = d / f"{re.sub(r'[^A-Za-z0-9_.-]+', '_', name)[:80]}-{h}.json"
    f.write_text(json.dumps(payload, indent=1, default=str))
    return str(f)


def run_property(pid, spec: PropertySpec, tier, seed, t0):
    from pyvc.run import load, verify_many
    from pyvc.cli import ASSUMPTIONS_COMMON
    known = load_known()
    open_kf = [k for k in known.get("open", []) if k["property"] == pid]
    os.environ["PYVC_PROPERTY"] = pid
    from pyvc import engine as _engine
    _engine.set_property(pid)
    os.environ["PYVC_TIER"] = tier
    lines = []
    violations = []
    undecided = []
    defects = []
    kf_emitted = []

    # ------------------------------------------------------------------ deductive part (z3)
    statuses = verify_many(spec.functions) if spec.functions else []
    fuc = {}
    all_obl = []
    assumed, inlined, used = set(), set(), set()
    solver_s = 0.0
    paths = 0
    for st in statuses:
        f = fuc.setdefault(st["function"], {"qualname": st["function"], "file": st["file"], "lines": st["span"], "source_hash": st["source_hash"],
                                            "shapes": 0, "paths": 0, "returned_paths": 0})
        f["shapes"] += 1
        f["paths"] += st["paths"]
        f["returned_paths"] += st["returned_paths"]
        paths += st["paths"]
        solver_s += st["solver_s"]
        assumed.update(st["assumed"])
        inlined.update(st["inlined"])
        used.update(st["contracts_used"])
        if st["status"] == "unsupported" or st["status"] == "contract-out-of-date":
            undecided.append((st["label"], st["status"], st.get("reason", "")))
        elif st["status"] != "ok":
            defects.append((st["label"], st.get("reason", "")))
        for nm, v in st["canaries"]:
            if v == "vacuous":
                defects.append((st["label"], f"must-fail canary proved (vacuous hypotheses): {nm}"))
        for o in st["obligations"]:
            if relevant(pid, o["name"], spec.include_untagged):
                o = dict(o, label=st["label"])
                all_obl.append(o)
    # stale-name guard: a contract file that names a private attribute which existed in the reference tree but is gone from the current source is out of
    # date (the attribute was renamed or removed); what fails in the functions it serves is undecided, never a violation
    try:
        from pyvc.attrnames import stale_names
        from pyvc.front import SRC as _SRC
        _stale = stale_names(os.path.join(os.path.dirname(os.path.dirname(os.path.abspath(__file__))), "contracts"), _SRC)
    except Exception:
        _stale = {}
    if _stale:
        from pyvc.run import load as _load
        _cs = _load()[2]
        _mods_of = {}
        for st in statuses:
            ms = set()
            for q in [st["function"]] + list(st["contracts_used"]):
                c = _cs.get(q)
                if c is not None:
                    ms.update(k.__module__ for k in type(c).__mro__ if k.__module__.startswith("contracts."))
            _mods_of[st["label"]] = ms
        for o in all_obl:
            if o["verdict"] == "failed" and o.get("backend", "z3") == "z3":
                gone = sorted({n for m in _mods_of.get(o.get("label"), ()) for n in _stale.get(m, ())})
                if gone:
                    o["verdict"] = "unknown"
                    o["name"] = f"{o['name']} [undecided: the contract names the attribute(s) {', '.join(gone)} of the reference tree, which no longer exist in the source - contract out of date]"
    for q, f in fuc.items():
        if f["returned_paths"] == 0 and f["paths"] > 0 and not q.endswith(".setter"):
            pass
    # static (ast / call-graph) obligations
    static_obl = []
    if spec.extra_static is not None:
        static_obl = spec.extra_static(tier)
        for o in static_obl:
            all_obl.append(dict(o, label=o.get("function", "static")))

    # ------------------------------------------------------------------ Lean part
    lean_res = []
    lean_s = 0.0
    lean_extra = {}
    if spec.lean:
        from pyvc import lean as leanmod
        tl = time.time()
        lean_res = leanmod.run(spec.lean, pid)
        lean_s = time.time() - tl
        gen = leanmod.LAST_GEN
        lean_extra = {"extraction_drops": {k: v for k, v in gen.get("dropped", {}).items() if v}, "not_translatable": gen.get("errors", [])}
        # theorems are tagged with the properties they belong to (comment line above the statement); a proof file shared by several
        # properties contributes to each check only the theorems of that property (untagged helper lemmas count for all)
        lean_res = [o for o in lean_res if relevant(pid, o["name"], True)]
        gen = leanmod.LAST_GEN
        rel_text = "\n".join(o.get("statement", "") + " " + o["name"] for o in lean_res) + ("\n" + gen.get("range_text", "") if "@range" in spec.lean else "")
        for d in gen.get("index", []):
            if not re.search(r"\b" + re.escape(d["def"]) + r"\b", rel_text):
                continue
            fuc.setdefault(d["function"], {"qualname": d["function"], "file": "src/aspire/" + d["function"].split(":")[0].replace(".", "/") + ".py",
                                           "lines": d["lines"], "source_hash": d["source_hash"], "shapes": 0, "paths": 0, "returned_paths": 0,
                                           "lean_definitions": []}).setdefault("lean_definitions", []).append(d["def"])
        for e in gen.get("errors", []):
            # a definition that could not be generated only matters to the properties whose theorems mention it
            defs = e.get("defs", [])
            if defs and not any(re.search(r"(?<![A-Za-z0-9_'.])" + re.escape(d) + r"(?![A-Za-z0-9_'])", rel_text) for d in defs):
                continue
            undecided.append((e["function"], "not-translatable", e["error"]))
        for o in lean_res:
            all_obl.append(dict(o, label="lean"))

    # ------------------------------------------------------------------ verdicts of the deductive part
    by_name = {}
    for o in all_obl:
        d = by_name.setdefault(o["name"], {"proved": 0, "failed": 0, "unknown": 0, "kind": o.get("kind", "goal"), "backend": o.get("backend", "z3"), "ms": 0.0})
        d[o["verdict"]] = d.get(o["verdict"], 0) + 1
        d["ms"] += o.get("ms", 0.0)
    n_obl = len(all_obl)
    failed = [o for o in all_obl if o["verdict"] == "failed"]
    unknown = [o for o in all_obl if o["verdict"] == "unknown"]
    for o in unknown:
        undecided.append((o["name"], "unknown", o.get("label", "")))

    # ------------------------------------------------------------------ bounded native stand-in
    native = {"what": "none", "cases": 0, "failures": []}
    if spec.native is not None:
        try:
            native = spec.native(tier, seed)
        except Exception:
            defects.append((f"native stand-in of {pid}", traceback.format_exc()[-1500:]))
            native = {"what": "crashed", "cases": 0, "failures": []}

    # known findings: a native failure / failed obligation that matches an open entry is reported as KNOWN-FINDING
    def match_kf(text):
        for k in open_kf:
            if k.get("match") and re.search(k["match"], text):
                return k
        return None

    seen_fail = set()
    for o in failed:
        if o["name"] in seen_fail:
            continue
        seen_fail.add(o["name"])
        k = match_kf(o["name"])
        if k is not None:
            kf_emitted.append((k, o["name"]))
            continue
        # try to find a native failing input for this obligation
        nat = [f for f in native.get("failures", []) if f.get("obligation") and f["obligation"] in o["name"] and match_kf(f.get("id", "") + " " + f.get("what", "")) is None]
        payload = {"property": pid, "obligation": o["name"], "function": o.get("function", o.get("label")), "verdict": o["verdict"],
                   "backend": o.get("backend", "z3"), "solver_model": o.get("model"), "label": o.get("label"),
                   "verifier_output": o.get("output"), "replay_cmd": f"./check {pid} --replay <this file>"}
        if not nat:
            try:
                from checks.replayers import replay as _replay_model
                rr = _replay_model(o)
            except Exception:
                rr = None
            if rr is not None:
                payload["counter_model_replay"] = rr
                if rr.get("reproduced"):
                    nat = [dict(rr, id="counter-model", obligation=o["name"], what="; ".join(rr.get("observed", []))[:400])]
        if nat:
            payload["native_input"] = nat[0]
            payload["confirmed_natively"] = True
            f = write_replay(pid, o["name"], payload)
            violations.append(f"VIOLATION property={pid} replay={f}")
        else:
            payload["confirmed_natively"] = False
            f = write_replay(pid, o["name"], payload)
            violations.append(f"VIOLATION property={pid} replay={f} obligation=\"{o['name'][:150]}\" no-failing-input-found")
    for fl in native.get("failures", []):
        k = match_kf(fl.get("id", "") + " " + fl.get("what", ""))
        if k is not None:
            kf_emitted.append((k, fl.get("id", "")))
            continue
        if fl.get("obligation") and any(fl["obligation"] in o["name"] and match_kf(o["name"]) is None for o in failed):
            continue
        payload = {"property": pid, "obligation": fl.get("obligation", "bounded-native"), "native_input": fl, "confirmed_natively": True,
                   "replay_cmd": f"./check {pid} --replay <this file>"}
        f = write_replay(pid, "native-" + fl.get("id", "case"), payload)
        violations.append(f"VIOLATION property={pid} replay={f}")

    # a known finding must still reproduce, otherwise the entry is stale (reported, not fatal)
    kf_lines = []
    for k, what in {(json.dumps(k, sort_keys=True), w) for k, w in kf_emitted}:
        kk = json.loads(k)
        kf_lines.append(f"KNOWN-FINDING: property={pid} {kk['what']}")
    for k in open_kf:
        if not any(k is e[0] or k == e[0] for e in kf_emitted):
            lines.append(f"NOTE: known finding '{k['id']}' did not reproduce in this run (stale entry or outside this tier)")

    discharged = sum(1 for o in all_obl if o["verdict"] == "proved") + sum(1 for o in failed if match_kf(o["name"]))
    wall = time.time() - t0
    # ------------------------------------------------------------------ evidence
    samples = []
    for nm, d in list(by_name.items())[:400]:
        if len(samples) < 12:
            samples.append({"obligation": nm, "verdicts": {k: d[k] for k in ("proved", "failed", "unknown") if d.get(k)}, "backend": d["backend"], "kind": d["kind"]})
    ev = {
        "property_id": pid, "tier": tier, "seed": seed, "level": "proof",
        "coverage": {
            "obligations": n_obl, "discharged": discharged,
            "checker_cmd": f"./check {pid} --tier {tier}",
            "trusted_base": spec.trusted_base + ["z3 5.1 (Python API)", "Lean 4.33 kernel + Mathlib (analytic lemmas)", "pyvc symbolic executor (/verif/pyvc): encoding of Python semantics listed under assumptions"],
            "functions_under_contract": list(fuc.values()),
            "distinct_obligations": len(by_name),
            "obligations_by_name": {nm: {k: v for k, v in d.items() if v} for nm, d in sorted(by_name.items())} if len(by_name) <= 600 else "see distinct_obligations (too many to list)",
            "paths_explored": paths, "shapes": sum(f["shapes"] for f in fuc.values()),
            "solver_time_s": {"z3": round(solver_s, 2), "lean": round(lean_s, 2)},
            "callee_contracts_used": sorted(used), "inlined_callees": sorted(inlined),
            "lean_theorems": [o["name"] for o in lean_res], "lean_extraction": lean_extra,
            "static_obligations": [o["name"] for o in static_obl],
            "bounded": {"what": native.get("what"), "bound": native.get("bound"), "cases": native.get("cases", 0),
                        "failures": len(native.get("failures", [])), "note": "bounded stand-in: never counted in `discharged`"},
            "known_findings_emitted": [kk["id"] for kk, _ in kf_emitted],
            "samples": samples,
            "undecided": [list(u) for u in undecided][:20],
            "not_seen": spec.miss,
        },
        "assumptions": ASSUMPTIONS_COMMON + spec.assumptions + sorted(assumed) + [f"known finding excluded from the claim: {kk['id']}: {kk['what']}" for kk, _ in kf_emitted],
        "wall_s": round(wall, 2), "violations": len(violations),
    }
    # ASPIRE_VERIF_EVIDENCE_DIR: development only (runs against deliberately broken scratch trees must not overwrite the committed records)
    evdir = pathlib.Path(os.environ["ASPIRE_VERIF_EVIDENCE_DIR"]) if os.environ.get("ASPIRE_VERIF_EVIDENCE_DIR") else ROOT / "evidence"
    evdir.mkdir(exist_ok=True, parents=True)
    (evdir / f"{pid}.json").write_text(json.dumps(ev, indent=1, default=str))
    try:
        import jsonschema
        schema = json.loads(pathlib.Path("/root/.vp/EVIDENCE.schema.json").read_text())
        jsonschema.validate(ev, schema)
    except FileNotFoundError:
        pass
    except Exception as e:
        defects.append(("evidence schema", str(e)[:300]))

    # ------------------------------------------------------------------ report
    print(f"[{pid}] {spec.title}")
    print(f"[{pid}] functions under contract: {len(fuc)}; shapes {ev['coverage']['shapes']}; paths {paths}; obligations {n_obl} "
          f"(distinct {len(by_name)}); discharged {discharged}; z3 {solver_s:.1f}s, lean {lean_s:.1f}s; bounded cases {native.get('cases', 0)}; wall {wall:.1f}s")
    for ln in lines:
        print(ln)
    for ln in sorted(set(kf_lines)):
        print(ln)
    if n_obl == 0:
        defects.append((pid, "zero obligations generated"))
    if violations:
        for v in violations:
            print(v)
        return 1
    if defects:
        for d in defects:
            print(f"CHECKER-DEFECT property={pid} {d[0]}: {d[1][:600]}")
        return 3
    if undecided:
        for u in undecided[:20]:
            print(f"UNDECIDED property={pid} obligation={u[0]} reason={u[1]} {str(u[2])[:300]}")
        return 2
    print(f"[{pid}] HELD on everything explored")
    return 0
