"""Extended reals for element values (C05): ER = fin(r) | +inf | -inf | NaN with IEEE-754 rules for the operations
the tempered target uses (+, scalar *, negation, isnan, where).  Fully interpreted (If-cascades over a z3 datatype)."""
import z3

_ER = z3.Datatype("ER")
_ER.declare("fin", ("val", z3.RealSort()))
_ER.declare("pinf")
_ER.declare("ninf")
_ER.declare("nan")
ER = _ER.create()
fin, PINF, NINF, NAN = ER.fin, ER.pinf, ER.ninf, ER.nan
is_fin, is_pinf, is_ninf, is_nan = ER.is_fin, ER.is_pinf, ER.is_ninf, ER.is_nan
val = ER.val


def xadd(a, b):
    return z3.If(z3.Or(is_nan(a), is_nan(b)), NAN,
                 z3.If(z3.And(is_fin(a), is_fin(b)), fin(val(a) + val(b)),
                       z3.If(is_fin(a), b, z3.If(is_fin(b), a, z3.If(a == b, a, NAN)))))


def xscale(r, a):
    """real scalar r times extended real a (IEEE: 0 * inf = NaN)"""
    return z3.If(is_nan(a), NAN,
                 z3.If(is_fin(a), fin(r * val(a)),
                       z3.If(r == 0, NAN, z3.If((r > 0) == is_pinf(a), PINF, NINF))))


def xneg(a):
    return z3.If(is_fin(a), fin(-val(a)), z3.If(is_pinf(a), NINF, z3.If(is_ninf(a), PINF, NAN)))


def xmul(a, b):
    return z3.If(is_fin(a), xscale(val(a), b), z3.If(is_fin(b), xscale(val(b), a),
                 z3.If(z3.Or(is_nan(a), is_nan(b)), NAN, z3.If(a == b, PINF, NINF))))


def nan_to_ninf(a):
    return z3.If(is_nan(a), NINF, a)
