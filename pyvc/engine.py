"""pyvc symbolic executor: one path at a time, with decision replay (DART-style).

A *path* executes the real function's AST from its first statement with a script of
branch decisions; when it meets a new symbolic branch whose two sides are both
feasible it takes one side and schedules the other.  The interpreter is therefore a plain
single-path evaluator over mutable symbolic state (no state forking).  Loops are cut at
their head by the invariant given in the sidecar contract.  Obligations are proved per
path with z3 (`pc and not goal` unsat) and named after the construct or contract clause
they come from (never after line numbers).
"""
from __future__ import annotations

import ast
import time

import z3

from .front import Front, FuncInfo, signature
from .values import *  # noqa: F401,F403
from .values import (NONE, Arr, B, ClassRef, Closure, Fn, FuncRef, I, Mod, NoneV, Obj, Partial,
                     PyDict, PyList, R, Str, Sym, SymList, Tup, Z, fresh, to_int, to_real)


import os as _os
import re as _re
_TAG = _re.compile(r"\bC\d\d\b")
_PROP = _os.environ.get("PYVC_PROPERTY", "")


def set_property(p):
    global _PROP
    _PROP = p


# --------------------------------------------------------------------------- signals
class PathEnd(Exception):
    """path is over (infeasible assumption, loop-body end, explicit stop)"""


class ReturnSig(Exception):
    def __init__(self, value):
        self.value = value


class RaiseSig(Exception):
    def __init__(self, exc, node=None, implicit=False, msg=""):
        self.exc, self.node, self.implicit, self.msg = exc, node, implicit, msg

    def __str__(self):
        return f"{self.exc}@{getattr(self.node, 'lineno', '?')} {self.msg}"


class BreakSig(Exception):
    pass


class ContinueSig(Exception):
    pass


class Unsupported(Exception):
    pass


class ContractOutOfDate(Exception):
    pass


EXC_PARENTS = {
    "ZeroDivisionError": ["ArithmeticError", "Exception"], "KeyError": ["LookupError", "Exception"],
    "IndexError": ["LookupError", "Exception"], "AttributeError": ["Exception"], "TypeError": ["Exception"],
    "ValueError": ["Exception"], "RuntimeError": ["Exception"], "NotImplementedError": ["RuntimeError", "Exception"],
    "ImportError": ["Exception"], "UserError": ["Exception"], "OSError": ["Exception"],
    # not Exceptions: `except Exception` does not catch them, `finally` / `except BaseException` do
    "KeyboardInterrupt": [], "SystemExit": [], "GeneratorExit": [], "PoolShutdownError": ["Exception"],
}


def exc_matches(name, handler_types):
    if handler_types is None:
        return True
    fam = [name] + (EXC_PARENTS[name] if name in EXC_PARENTS else ["Exception"])
    return any(h in fam or h == "BaseException" for h in handler_types)


# --------------------------------------------------------------------------- exploration
class Obligation:
    __slots__ = ("name", "func", "verdict", "ms", "model", "kind", "backend", "path_id", "smt2", "extra")

    def __init__(self, name, func, verdict, ms, kind="goal", model=None, backend="z3", path_id=0, smt2=None, extra=None):
        self.name, self.func, self.verdict, self.ms, self.kind = name, func, verdict, ms, kind
        self.model, self.backend, self.path_id, self.smt2, self.extra = model, backend, path_id, smt2, extra

    def as_dict(self):
        d = {"name": self.name, "function": self.func, "verdict": self.verdict, "ms": round(self.ms, 2),
             "kind": self.kind, "backend": self.backend, "path": self.path_id}
        if self.model is not None:
            d["model"] = self.model
        if self.extra:
            d["extra"] = self.extra
        return d


class Explorer:
    """runs `path_fn(path)` over every feasible path"""

    def __init__(self, func_name, timeout_ms=20000, max_paths=20000):
        self.func_name = func_name
        self.timeout_ms = timeout_ms
        self.max_paths = max_paths
        self.obligations: list[Obligation] = []
        self.outcomes = []          # (path_id, kind, detail)
        self.n_paths = 0
        self.solver_s = 0.0
        self.queries = 0
        self.assumed = set()        # assumed contracts / opaque calls actually used
        self.inlined = set()
        self.contracts_used = set()
        self.covers = []
        self.no_assume = set()      # (decision prefix, ordinal of the prove call): failed goals whose assumption would make the path infeasible

    def run(self, path_fn):
        work = [[]]
        while work:
            script = work.pop()
            if self.n_paths >= self.max_paths:
                raise Unsupported(f"path explosion (> {self.max_paths} paths)")
            p = Path(self, script, self.n_paths)
            self.n_paths += 1
            try:
                path_fn(p)
            except PathEnd:
                pass
            work.extend(p.alternatives)
        return self


class Path:
    def __init__(self, ex: Explorer, script, pid):
        self.ex, self.script, self.pid = ex, list(script), pid
        self.pos = 0
        self.decisions = []
        self.alternatives = []
        self.pc = []
        self.solver = z3.Solver()
        self.solver.set("timeout", ex.timeout_ms)
        self.ghost = {}
        self.events = []
        self.hyps = []        # lemma instances added (names)
        self.n_proves = 0

    # -- replay bookkeeping
    @property
    def replaying(self):
        return self.pos < len(self.script)

    def _check(self, *extra, timeout_ms=500):
        """feasibility query.  `unknown` (short time-out) is treated by the callers as feasible: exploring an
        infeasible path is harmless (its obligations hold vacuously), skipping a feasible one would be unsound."""
        t = time.time()
        self.solver.push()
        self.solver.set("timeout", timeout_ms)
        for e in extra:
            self.solver.add(e)
        r = self.solver.check()
        self.solver.pop()
        self.solver.set("timeout", self.ex.timeout_ms)
        self.ex.solver_s += time.time() - t
        self.ex.queries += 1
        return r

    def assume(self, cond, check=True):
        if isinstance(cond, bool):
            cond = z3.BoolVal(cond)
        cond = z3.simplify(cond)
        if z3.is_true(cond):
            return
        if z3.is_false(cond):
            raise PathEnd()
        self.pc.append(cond)
        self.solver.add(cond)
        if check and not self.replaying:
            if self._check() == z3.unsat:
                raise PathEnd()

    def branch(self, cond) -> bool:
        """decide a symbolic condition; forks when both sides are feasible"""
        if isinstance(cond, bool):
            return cond
        cond = z3.simplify(cond)
        if z3.is_true(cond):
            return True
        if z3.is_false(cond):
            return False
        if self.replaying:
            d = self.script[self.pos]
            self.pos += 1
            self.decisions.append(d)
            c = cond if d else z3.Not(cond)
            self.pc.append(c)
            self.solver.add(c)
            return bool(d)
        ft = self._check(cond) != z3.unsat
        ff = self._check(z3.Not(cond)) != z3.unsat
        if not ft and not ff:
            raise PathEnd()
        d = ft
        if ft and ff:
            self.alternatives.append(self.decisions + [False])
        self.decisions.append(d)
        self.pos += 1
        self.script.append(d)
        c = cond if d else z3.Not(cond)
        self.pc.append(c)
        self.solver.add(c)
        return d

    def choose(self, n, label="choice") -> int:
        """nondeterministic choice among n options (all explored)"""
        if n == 1:
            return 0
        if self.replaying:
            d = self.script[self.pos]
            self.pos += 1
            self.decisions.append(d)
            return d
        for k in range(1, n):
            self.alternatives.append(self.decisions + [k])
        self.decisions.append(0)
        self.pos += 1
        self.script.append(0)
        return 0

    # -- obligations
    def prove(self, goal, name, kind="goal", assume_after=True, extra=None):
        """emit an obligation under the current path condition.  While replaying the
        decision prefix the obligation was already emitted by the path that discovered
        the fork, so it is only (re-)assumed."""
        if isinstance(goal, bool):
            goal = z3.BoolVal(goal)
        if _PROP:
            tags = _TAG.findall(name)
            if tags and _PROP not in tags:
                # obligation of another property: decided by that property's own check; neither proved nor assumed here
                return True
        self.n_proves += 1
        key = (tuple(self.decisions), self.n_proves)
        if self.replaying and key in self.ex.no_assume:
            return True
        if not self.replaying:
            g = z3.simplify(goal)
            t = time.time()
            if z3.is_true(g):
                verdict, model = "proved", None
            else:
                self.solver.push()
                self.solver.add(z3.Not(goal))
                r = self.solver.check()
                if r == z3.unknown:
                    # a time-out must not depend on how busy the machine is: retry on a fresh solver with other seeds and a longer budget
                    for seed, mult in ((1, 3), (7, 6)):
                        s2 = z3.Solver()
                        s2.set("timeout", self.ex.timeout_ms * mult)
                        s2.set("random_seed", seed)
                        s2.add(self.solver.assertions())
                        r2 = s2.check()
                        self.ex.queries += 1
                        if r2 == z3.unsat:
                            r = r2
                            break
                        if r2 == z3.sat:
                            # let the incremental solver produce the model it is asked for below
                            self.solver.set("timeout", self.ex.timeout_ms * mult)
                            r = self.solver.check()
                            self.solver.set("timeout", self.ex.timeout_ms)
                            break
                verdict = "proved" if r == z3.unsat else ("failed" if r == z3.sat else "unknown")
                if verdict == "failed" and self.ghost.get("ctor_attr_unknown"):
                    # the contract's hand-built object lacks a constructor-derived attribute whose value could not be reconstructed: out of date, not refuted
                    verdict, r = "unknown", z3.unknown
                    name = f"{name} [undecided: the contract's state model does not know the constructor-derived attribute {self.ghost['ctor_attr_unknown']}]"
                model = None
                smt2 = None
                if r == z3.sat:
                    m = self.solver.model()
                    model = {}
                    for d in m.decls():
                        try:
                            model[d.name()] = str(m[d])[:200]
                        except Exception:
                            pass
                if r == z3.unknown:
                    smt2 = self.solver.to_smt2()
                self.solver.pop()
                self.ex.queries += 1
                if r == z3.unknown:
                    ob = Obligation(name, self.ex.func_name, verdict, (time.time() - t) * 1000, kind, model, "z3", self.pid, smt2, extra)
                    self.ex.obligations.append(ob)
                    self.ex.solver_s += time.time() - t
                    if assume_after:
                        self.assume(goal)
                    return False
            ms = (time.time() - t) * 1000
            self.ex.solver_s += ms / 1000
            self.ex.obligations.append(Obligation(name, self.ex.func_name, verdict, ms, kind, model, "z3", self.pid, None, extra))
            if verdict == "failed" and assume_after:
                # a failed goal is assumed afterwards only to keep one failure from cascading; when the goal is false on the *whole* path
                # (e.g. an open known finding) the assumption would end the path and hide every obligation that follows it
                self.solver.push()
                self.solver.add(goal)
                dead = self.solver.check() == z3.unsat
                self.solver.pop()
                if dead:
                    self.ex.no_assume.add(key)
                    return True
        if assume_after:
            self.assume(goal)
        return True

    def cover(self, name):
        if not self.replaying:
            self.ex.covers.append(name)

    def event(self, *ev):
        self.events.append(ev)


# --------------------------------------------------------------------------- interpreter
class Frame:
    def __init__(self, module, cls=None, func=None, parent=None):
        self.env = {}
        self.module, self.cls, self.func, self.parent = module, cls, func, parent
        self.loop_ord = 0


class Interp:
    """evaluates real aspire ASTs on one Path"""

    def __init__(self, front: Front, path: Path, registry, contracts, target=None, inline_depth=6):
        self.front, self.path, self.reg, self.contracts = front, path, registry, contracts
        self.target = target                  # qualname under verification (its own contract is not used for the top call)
        self.frames: list[Frame] = []
        self.try_stack = []                   # list of sets of exception names (None = catches all)
        self.inline_depth = inline_depth
        self.depth = 0
        self.loop_specs = {}                  # (qualname, ordinal) -> spec
        self.call_hooks = {}                  # callee key -> hook(interp, args, kwargs, node)  (assert_at)
        self.occ = {}                         # occurrence counters for naming
        self.use_contract_for = None          # optional set restricting which contracts are applied
        self.force_inline_quals = set()       # callees whose real body is executed although a caller-side model exists

    # ---------------------------------------------------------------- helpers
    @property
    def frame(self) -> Frame:
        return self.frames[-1]

    def snippet(self, node, n=60):
        try:
            s = ast.unparse(node).replace("\n", " ")
        except Exception:
            s = type(node).__name__
        return s[:n]

    def oname(self, kind, node):
        """obligation name from construct kind + source snippet + occurrence"""
        fn = self.frame.func.qualname if (self.frames and self.frame.func) else (self.target or "?")
        base = f"{fn}:{kind}[{self.snippet(node)}]"
        return base

    def unsupported(self, what, node=None):
        raise Unsupported(f"{what} at {self.frame.module}:{getattr(node, 'lineno', '?')} `{self.snippet(node) if node is not None else ''}`")

    def implicit_exception(self, ok_cond, exc, node):
        """no-implicit-exception obligation (or a raising branch when inside a try that catches it)"""
        if isinstance(ok_cond, bool):
            ok_cond = z3.BoolVal(ok_cond)
        for caught in reversed(self.try_stack):
            if exc_matches(exc, caught):
                if not self.path.branch(ok_cond):
                    raise RaiseSig(exc, node, implicit=True)
                return
        self.path.prove(ok_cond, self.oname(f"no-{exc}", node), kind="no-implicit-exception")

    # ---------------------------------------------------------------- truthiness
    def truth(self, v, node=None):
        if isinstance(v, NoneV):
            return z3.BoolVal(False)
        if isinstance(v, Z):
            if v.kind == "bool":
                return v.e
            return v.e != 0
        if isinstance(v, Str):
            return z3.BoolVal(len(v.v) > 0)
        if isinstance(v, (PyList, Tup)):
            return z3.BoolVal(len(v.items) > 0)
        if isinstance(v, PyDict):
            return z3.BoolVal(len(v.d) > 0)
        if isinstance(v, SymList):
            return v.len > 0
        if isinstance(v, Obj):
            if v.cls in self.front.classes and self.front.find_method(v.cls, "__len__"):
                r = self.call_method(v, "__len__", [], {}, node)
                return to_int(r) != 0
            if "__truth__" in v.f:
                return v.f["__truth__"].e
            return z3.BoolVal(True)
        if isinstance(v, (Fn, Closure, FuncRef, ClassRef, Mod, Partial)):
            return z3.BoolVal(True)
        if isinstance(v, Sym):
            if "truth" in v.info:
                return v.info["truth"]
            return z3.BoolVal(True)
        if isinstance(v, Arr):
            self.unsupported("truth value of an array", node)
        self.unsupported(f"truth of {v!r}", node)

    def is_true(self, v, node=None) -> bool:
        return self.path.branch(self.truth(v, node))

    # ---------------------------------------------------------------- name resolution
    def lookup(self, name, node=None):
        f = self.frame
        while f is not None:
            if name in f.env:
                return f.env[name]
            f = f.parent
        return self.module_name(self.frame.module, name, node)

    def module_name(self, module, name, node=None):
        fi = self.front.module_function(module, name)
        if fi is not None:
            return FuncRef(fi)
        if name in self.front.classes and (self.front.classes[name].module == module or name in self.front.imports.get(module, {})):
            return ClassRef(name)
        imp = self.front.imports.get(module, {}).get(name)
        if imp is not None:
            if ":" in imp:
                modpart, obj = imp.split(":")
                if modpart.startswith("."):
                    # relative import inside aspire
                    target_mod = self.resolve_relative(module, modpart)
                    if obj in self.front.classes and self.front.classes[obj].module == target_mod:
                        return ClassRef(obj)
                    fi = self.front.module_function(target_mod, obj)
                    if fi is not None:
                        return FuncRef(fi)
                    # re-exported names (e.g. `from ..samples import to_numpy`)
                    sub = self.front.imports.get(target_mod, {}).get(obj)
                    if sub is not None:
                        return self.module_name(target_mod, obj, node)
                    if target_mod in self.front.modules or (target_mod + "." + obj) in self.front.modules:
                        return Mod(f"aspire.{target_mod}.{obj}" if target_mod else f"aspire.{obj}")
                key = f"{modpart}.{obj}" if not modpart.startswith(".") else obj
                if key in self.reg.handlers:
                    return Fn(self.reg.handlers[key], key)
                if obj in self.reg.handlers:
                    return Fn(self.reg.handlers[obj], obj)
                if key in self.reg.consts:
                    return self.reg.consts[key]
                return Mod(key)
            return Mod(self.reg.module_alias.get(imp, imp))
        if name == "__name__":
            return Str("aspire." + module)
        # module-level assignment  NAME = <expr>
        tree = self.front.modules.get(module)
        if tree is not None:
            for st in tree.body:
                if isinstance(st, ast.Assign) and any(isinstance(t, ast.Name) and t.id == name for t in st.targets):
                    return self.eval_in_module(st.value, module)
        import builtins as _bi
        # only genuine Python builtins may be resolved by bare name; a registry entry called like a library function (`device`,
        # `deepcopy`, ...) must have been imported by the module to be visible in it
        if hasattr(_bi, name):
            if name in self.reg.handlers:
                return Fn(self.reg.handlers[name], name)
            if name in self.reg.consts:
                return self.reg.consts[name]
            if name in self.reg.builtin_types:
                return ClassRef(name)
        self.unsupported(f"unbound name {name}", node)

    def resolve_relative(self, module, rel):
        level = len(rel) - len(rel.lstrip("."))
        rest = rel.lstrip(".")
        parts = module.split(".") if module != "__init__" else []
        # module "samplers.smc.base": package parts = ["samplers","smc"]
        pkg = parts[:-1]
        if level > 1:
            pkg = pkg[: len(pkg) - (level - 1)]
        target = ".".join(pkg + ([rest] if rest else []))
        return target

    # ---------------------------------------------------------------- expressions
    def ev(self, n):
        m = getattr(self, "e_" + type(n).__name__, None)
        if m is None:
            self.unsupported(f"expression {type(n).__name__}", n)
        return m(n)

    def e_Constant(self, n):
        v = n.value
        if v is None:
            return NONE
        if isinstance(v, bool):
            return B(v)
        if isinstance(v, int):
            return I(v)
        if isinstance(v, float):
            return R(v)
        if isinstance(v, str):
            return Str(v)
        if v is Ellipsis:
            return Sym(z3.Const("Ellipsis", z3.DeclareSort("Misc")), "ellipsis")
        if isinstance(v, bytes):
            return Str(v.decode("latin1"))
        self.unsupported(f"constant {v!r}", n)

    def e_Name(self, n):
        return self.lookup(n.id, n)

    def e_JoinedStr(self, n):
        # f-strings built from concrete strings (dataset names, keys) are evaluated; anything else is an opaque
        # string (A-LOG: formatting of symbolic values for log messages has no effect and does not raise)
        parts = []
        for v in n.values:
            if isinstance(v, ast.Constant):
                parts.append(str(v.value))
                continue
            e = v.value if isinstance(v, ast.FormattedValue) else None
            if e is None or v.format_spec is not None or not isinstance(e, (ast.Name, ast.Constant)):
                return Str("<fstring>")
            try:
                val = self.ev(e)
            except Unsupported:
                return Str("<fstring>")
            if isinstance(val, Str) and not val.v.startswith("<"):
                parts.append(val.v)
            elif isinstance(val, Z) and val.kind == "int" and z3.is_int_value(z3.simplify(val.e)):
                parts.append(str(z3.simplify(val.e).as_long()))
            else:
                return Str("<fstring>")
        return Str("".join(parts))

    def e_Tuple(self, n):
        items = []
        for e in n.elts:
            if isinstance(e, ast.Starred):
                items += self.iterate(self.ev(e.value), e)
            else:
                items.append(self.ev(e))
        return Tup(items)

    def e_Slice(self, n):
        # a slice inside a tuple index (x[:, 0]); plain x[a:b] is handled in e_Subscript
        return Tup([Str("<slice>"), self.ev(n.lower) if n.lower else NONE, self.ev(n.upper) if n.upper else NONE,
                    self.ev(n.step) if n.step else NONE])

    def e_List(self, n):
        items = []
        for e in n.elts:
            if isinstance(e, ast.Starred):
                items += self.iterate(self.ev(e.value), e)
            else:
                items.append(self.ev(e))
        return PyList(items)

    def e_Set(self, n):
        return PyList([self.ev(e) for e in n.elts])

    def e_Dict(self, n):
        d = {}
        for k, v in zip(n.keys, n.values):
            if k is None:
                src = self.ev(v)
                if isinstance(src, PyDict):
                    d.update(src.d)
                    continue
                self.unsupported("** of non-dict in dict literal", n)
            kv = self.ev(k)
            d[self.dict_key(kv, k)] = self.ev(v)
        return PyDict(d)

    def dict_key(self, kv, node=None):
        if isinstance(kv, Str):
            return kv.v
        if isinstance(kv, Z) and z3.is_int_value(z3.simplify(kv.e)):
            return z3.simplify(kv.e).as_long()
        if isinstance(kv, Z) and kv.kind == "bool" and (z3.is_true(z3.simplify(kv.e)) or z3.is_false(z3.simplify(kv.e))):
            return z3.is_true(z3.simplify(kv.e))
        self.unsupported(f"symbolic dict key {kv!r}", node)

    def e_Attribute(self, n):
        o = self.ev(n.value)
        return self.getattr(o, n.attr, n)

    def e_Lambda(self, n):
        fd = ast.FunctionDef(name="<lambda>", args=n.args, body=[ast.Return(value=n.body, lineno=n.lineno, col_offset=0)],
                             decorator_list=[], lineno=n.lineno, col_offset=0)
        return Closure(fd, self.frame, self.frame.module, self.frame.cls, "<lambda>")

    def e_NamedExpr(self, n):
        v = self.ev(n.value)
        self.frame.env[n.target.id] = v
        return v

    def havoc_unmodelled_attr(self, o, attr, n):
        """An instance attribute that the class's own methods assign but the contract's state model does not list: the object may
        be in any state a previous call left it in, so the attribute is havoc'd over the kinds of value the class assigns to it
        (None / bool / int / float); any other kind is opaque (its use is unsupported -> undecided, never a violation)."""
        vals = self.front.instance_attr_values(o.cls, attr)
        if not vals:
            return None
        if all(meth == "__init__" for _, meth, _ in vals):
            # assigned only by constructors: not run state but something the constructor derives (typically a cached value).  The contract built
            # `self` by hand before this attribute existed; evaluate the constructor's own expression over the object's other attributes ...
            owner, meth, e = vals[0]
            if len(vals) == 1 and e is not None:
                mi = self.front.find_method(owner, "__init__")
                me = mi.node.args.args[0].arg if mi is not None and mi.node.args.args else "self"
                names = {x.id for x in ast.walk(e) if isinstance(x, ast.Name)}
                params = {a.arg for a in (mi.node.args.args[1:] + mi.node.args.kwonlyargs)} if mi is not None else set()
                if not (names & params):
                    fr = Frame(self.front.classes[owner].module, owner)
                    fr.env[me] = o
                    self.frames.append(fr)
                    try:
                        v = self.ev(e)
                        o.f[attr] = v
                        self.path.ex.assumed.add(f"{o.cls}.{attr} is derived by the constructor: computed from the object's other attributes by the constructor's own expression `{ast.unparse(e)[:60]}`")
                        return v
                    except (Unsupported, KeyError, AttributeError, TypeError):
                        pass
                    finally:
                        self.frames.pop()
            # ... and where that is not possible (it depends on constructor arguments the hand-built object does not have) the value is unknown:
            # an obligation that fails on this path may fail only because of that, so it is reported as undecided, never as a violation
            self.path.ghost["ctor_attr_unknown"] = f"{o.cls}.{attr}"
        kinds = []

        def add(k):
            if k not in kinds:
                kinds.append(k)
        for owner, meth, e in vals:
            if isinstance(e, ast.Constant):
                v = e.value
                add("none" if v is None else "bool" if isinstance(v, bool) else "int" if isinstance(v, int) else "real" if isinstance(v, float) else "str" if isinstance(v, str) else "opaque")
            elif isinstance(e, ast.Call) and isinstance(e.func, ast.Attribute) and isinstance(e.func.value, ast.Name):
                m = self.front.find_method(o.cls, e.func.attr)
                ann = ast.unparse(m.node.returns) if (m is not None and m.node.returns is not None) else ""
                add({"float": "real", "int": "int", "bool": "bool"}.get(ann, "opaque"))
            elif isinstance(e, ast.Name):
                # assigned from a parameter of the method: its annotation tells the kind (`n_samples: int`)
                mi = self.front.find_method(owner, meth) if meth else None
                ann = ""
                if mi is not None:
                    for arg in mi.node.args.args + mi.node.args.kwonlyargs:
                        if arg.arg == e.id and arg.annotation is not None:
                            ann = ast.unparse(arg.annotation)
                add({"float": "real", "int": "int", "bool": "bool"}.get(ann.split("|")[0].strip(), "opaque"))
            else:
                add("opaque")
        pick = kinds[self.path.choose(len(kinds), f"unmodelled:{o.cls}.{attr}")] if len(kinds) > 1 else kinds[0]
        nm = fresh(f"unmodelled_{attr}")
        v = {"none": lambda: NONE, "bool": lambda: Z(z3.Bool(nm), "bool"), "int": lambda: Z(z3.Int(nm), "int"), "real": lambda: Z(z3.Real(nm), "real"),
             "str": lambda: Sym(z3.Const(nm, z3.DeclareSort("Misc")), "str"), "opaque": lambda: Sym(z3.Const(nm, z3.DeclareSort("Misc")), "unmodelled")}[pick]()
        o.f[attr] = v
        self.path.ghost.setdefault("unmodelled_attrs", []).append(f"{o.cls}.{attr}")
        self.path.ex.assumed.add(f"{o.cls}.{attr} is outside the contract's state model: havoc'd over the kinds the class assigns ({', '.join(kinds)})")
        return v

    def e_Yield(self, n):
        v = self.ev(n.value) if n.value is not None else NONE
        hook = getattr(self, "yield_hook", None)
        if hook is None:
            self.unsupported("yield outside a @contextmanager contract", n)
        r = hook(self, v, n)
        return NONE if r is None else r

    def e_Starred(self, n):
        self.unsupported("starred", n)

    def getattr(self, o, attr, n=None, default=None):
        if isinstance(o, Obj):
            if attr in o.f:
                return o.f[attr]
            if attr == "__class__":
                return ClassRef(o.cls)
            if attr == "__dict__":
                d = PyDict(dict(o.f))
                d.dict_of = o                   # live view: `self.__dict__.update(state)` / item assignment write through to the object (see lib dict.update)
                return d
            if o.cls in self.front.classes:
                p = self.front.find_property(o.cls, attr)
                if p is not None:
                    return self.call_repo(p, o, [], {}, n)
                m = self.front.find_method(o.cls, attr)
                if m is not None:
                    if m.kind == "classmethod":
                        return FuncRef(m, bound=ClassRef(o.cls))
                    if m.kind == "staticmethod":
                        return FuncRef(m)
                    return FuncRef(m, bound=o)
                ca, owner = self.front.find_class_attr(o.cls, attr)
                if ca is not None:
                    return self.eval_in_module(ca, self.front.classes[owner].module)
            key = f"{o.cls}.{attr}"
            if key in self.reg.obj_props:
                v = self.reg.obj_props[key](self, o, n)
                if v is not None:
                    return v
            if o.cls == "NS":
                # a namespace token behaves like the generic array namespace for everything that is not dtype-specific
                if f"xp.{attr}" in self.reg.handlers and key not in self.reg.handlers:
                    h = self.reg.handlers[f"xp.{attr}"]
                    return Fn(h, f"xp.{attr}", bound=o if getattr(h, "_wants_mod", False) else None)
                if f"xp.{attr}" in self.reg.consts:
                    return self.reg.consts[f"xp.{attr}"]
            if key in self.reg.handlers:
                return Fn(self.reg.handlers[key], key, bound=o)
            for c in (self.front.mro(o.cls) if o.cls in self.front.classes else []):
                if f"{c}.{attr}" in self.reg.handlers:
                    return Fn(self.reg.handlers[f"{c}.{attr}"], f"{c}.{attr}", bound=o)
            if default is not None:
                if attr not in o.absent and o.cls in self.front.classes and self.front.instance_attr_values(o.cls, attr):
                    # getattr(obj, name, default) on an attribute the class assigns somewhere but the contract's state does not list: the object may
                    # come from an earlier call (attribute present, any value) or be fresh (absent -> default)
                    if self.path.choose(2, f"present:{o.cls}.{attr}") == 1:
                        v = self.havoc_unmodelled_attr(o, attr, n)
                        if v is not None:
                            return v
                    else:
                        o.absent.add(attr)
                return default
            if attr not in o.absent and o.cls in self.front.classes:
                v = self.havoc_unmodelled_attr(o, attr, n)
                if v is not None:
                    return v
            if o.cls not in self.front.classes and attr not in o.absent:
                # an object of an external library (kernel, file, module stub): what the model does not describe is unknown, not absent
                self.unsupported(f"attribute `{attr}` of an external object ({o.cls}) that its assumed contract does not describe", n)
            # attribute access on an object that does not have it
            self.implicit_exception(False, "AttributeError", n)
            raise PathEnd()
        if isinstance(o, SuperProxy):
            m = self.front.find_method(o.obj.cls if isinstance(o.obj, Obj) else o.obj.name, attr, after=o.cls)
            if m is None:
                key = f"super.{attr}"
                if key in self.reg.handlers:
                    return Fn(self.reg.handlers[key], key, bound=o.obj)
                self.unsupported(f"super().{attr}", n)
            if m.kind == "classmethod":
                return FuncRef(m, bound=o.obj if isinstance(o.obj, ClassRef) else ClassRef(o.obj.cls))
            return FuncRef(m, bound=o.obj, via_super=True)
        if isinstance(o, ClassRef):
            if o.name in self.front.classes:
                if attr == "__name__":
                    return Str(o.name)
                m = self.front.find_method(o.name, attr)
                if m is not None:
                    if m.kind == "classmethod":
                        return FuncRef(m, bound=o)
                    return FuncRef(m)
                ca, owner = self.front.find_class_attr(o.name, attr)
                if ca is not None:
                    return self.eval_in_module(ca, self.front.classes[owner].module)
                if attr == "__dataclass_fields__":
                    return PyDict({nm: Obj("Field", {"name": Str(nm)}) for nm, _, _, _ in self.front.dataclass_fields(o.name)})
            key = f"{o.name}.{attr}"
            if key in self.reg.handlers:
                return Fn(self.reg.handlers[key], key)
            self.unsupported(f"class attribute {o.name}.{attr}", n)
        if isinstance(o, Mod):
            key = f"{o.name}.{attr}"
            if key in self.reg.handlers:
                h = self.reg.handlers[key]
                return Fn(h, key, bound=o if getattr(h, "_wants_mod", False) else None)
            if key in self.reg.consts:
                return self.reg.consts[key]
            gen = self.reg.module_attr(self, o, attr)
            if gen is not None:
                return gen
            return Mod(key, o.info)
        if isinstance(o, NoneV):
            if default is not None:
                return default
            self.implicit_exception(False, "AttributeError", n)
            raise PathEnd()
        h = self.reg.value_attr(self, o, attr, n)
        if h is not None:
            return h
        if default is not None:
            return default
        self.unsupported(f"attribute .{attr} of {o!r}", n)

    def eval_in_module(self, expr, module):
        fr = Frame(module)
        self.frames.append(fr)
        try:
            return self.ev(expr)
        finally:
            self.frames.pop()

    def eval_expr(self, src, module, env):
        """evaluate a Python expression (text) in the context of a repo module with the given local names: used by contracts to state a clause
        as `the result equals what <reference repo function> computes on ...`"""
        fr = Frame(module)
        fr.env.update(env)
        self.frames.append(fr)
        try:
            return self.ev(ast.parse(src, mode="eval").body)
        finally:
            self.frames.pop()

    # -- arithmetic
    def e_BinOp(self, n):
        a = self.ev(n.left)
        b = self.ev(n.right)
        return self.binop(n.op, a, b, n)

    def binop(self, op, a, b, n):
        if isinstance(a, Arr) or isinstance(b, Arr):
            return self.reg.arr_binop(self, op, a, b, n)
        if isinstance(a, Z) and isinstance(b, Z):
            both_int = a.kind in ("int", "bool") and b.kind in ("int", "bool")
            if isinstance(op, ast.Add):
                return I(to_int(a) + to_int(b)) if both_int else R(to_real(a) + to_real(b))
            if isinstance(op, ast.Sub):
                return I(to_int(a) - to_int(b)) if both_int else R(to_real(a) - to_real(b))
            if isinstance(op, ast.Mult):
                return I(to_int(a) * to_int(b)) if both_int else R(to_real(a) * to_real(b))
            if isinstance(op, ast.Div):
                self.implicit_exception(to_real(b) != 0, "ZeroDivisionError", n)
                return R(to_real(a) / to_real(b))
            if isinstance(op, ast.Mod):
                if both_int:
                    self.implicit_exception(to_int(b) != 0, "ZeroDivisionError", n)
                    # python % : sign follows divisor; z3 % : non-negative remainder.  Equal when divisor > 0.
                    self.path.prove(to_int(b) > 0, self.oname("mod-divisor-positive(encoding)", n), kind="encoding-side-condition")
                    return I(to_int(a) % to_int(b))
                self.implicit_exception(to_real(b) != 0, "ZeroDivisionError", n)
                return R(self.reg.fmod(to_real(a), to_real(b)))
            if isinstance(op, ast.FloorDiv) and both_int:
                self.implicit_exception(to_int(b) != 0, "ZeroDivisionError", n)
                self.path.prove(to_int(b) > 0, self.oname("floordiv-divisor-positive(encoding)", n), kind="encoding-side-condition")
                return I(to_int(a) / to_int(b))
            if isinstance(op, ast.Pow):
                bb = z3.simplify(to_real(b))
                if both_int and z3.is_int_value(z3.simplify(to_int(b))) and 0 <= z3.simplify(to_int(b)).as_long() <= 4:
                    k = z3.simplify(to_int(b)).as_long()
                    r = z3.IntVal(1)
                    for _ in range(k):
                        r = r * to_int(a)
                    return I(r)
                if z3.is_rational_value(bb) and bb.denominator_as_long() == 1 and 0 <= bb.numerator_as_long() <= 4:
                    r = z3.RealVal(1)
                    for _ in range(bb.numerator_as_long()):
                        r = r * to_real(a)
                    return R(r)
                return R(self.reg.pow(self, to_real(a), to_real(b)))
        if isinstance(a, Str) and isinstance(b, Str) and isinstance(op, ast.Add):
            return Str(a.v + b.v)
        if isinstance(a, Str) and isinstance(op, ast.Mod):
            return Str("<fmt>")
        if isinstance(a, PyList) and isinstance(b, PyList) and isinstance(op, ast.Add):
            return PyList(a.items + b.items)
        if isinstance(a, PyList) and isinstance(b, Z) and isinstance(op, ast.Mult):
            k = z3.simplify(to_int(b))
            if z3.is_int_value(k):
                return PyList(a.items * k.as_long())
        if isinstance(b, PyList) and isinstance(a, Z) and isinstance(op, ast.Mult):
            k = z3.simplify(to_int(a))
            if z3.is_int_value(k):
                return PyList(b.items * k.as_long())
        if isinstance(a, PyDict) and isinstance(b, PyDict) and isinstance(op, ast.BitOr):
            d = dict(a.d)
            d.update(b.d)
            return PyDict(d)
        if isinstance(a, Tup) and isinstance(b, Tup) and isinstance(op, ast.Add):
            return Tup(a.items + b.items)
        if isinstance(a, NoneV) or isinstance(b, NoneV):
            # arithmetic on None raises TypeError
            self.implicit_exception(False, "TypeError", n)
            raise PathEnd()
        r = self.reg.value_binop(self, op, a, b, n)
        if r is not None:
            return r
        self.unsupported(f"binop {type(op).__name__} on {a!r}, {b!r}", n)

    def e_UnaryOp(self, n):
        a = self.ev(n.operand)
        if isinstance(n.op, ast.Not):
            return B(z3.Not(self.truth(a, n)))
        if isinstance(n.op, ast.USub):
            if isinstance(a, Sym) and a.tag == "xreal":
                from .xreal import xneg
                return Sym(xneg(a.e), "xreal")
            if isinstance(a, Arr) and a.elem == "xreal":
                from .xreal import xneg
                return Arr(a.n, "xreal", lambda k, _at=a.at: xneg(_at(k)), f"neg({a.key})", a.meta)
            if isinstance(a, Arr):
                return self.reg.arr_unop(self, "neg", a, n)
            if isinstance(a, Z):
                return I(-to_int(a)) if a.kind in ("int", "bool") else R(-a.e)
            if isinstance(a, Sym) and a.tag == "inf":
                # float('inf') / -float('inf'): opaque infinite constants (distinct from every real and from each other)
                nm = str(a.e)
                return Sym(z3.Const(nm[1:] if nm.startswith("-") else "-" + nm, a.e.sort()), "inf")
        if isinstance(n.op, ast.UAdd):
            return a
        if isinstance(n.op, ast.Invert) and isinstance(a, Arr) and a.elem == "bool":
            return self.reg.arr_unop(self, "not", a, n)
        self.unsupported(f"unary {type(n.op).__name__} on {a!r}", n)

    def e_BoolOp(self, n):
        # python semantics: returns an operand
        for i, e in enumerate(n.values):
            v = self.ev(e)
            if i == len(n.values) - 1:
                return v
            t = self.truth(v, e)
            if isinstance(v, Z) and v.kind == "bool":
                # pure boolean operand: keep symbolic when the remaining operands are pure boolean too (no fork)
                rest = self.try_pure_bool(n.values[i + 1:])
                if rest is not None:
                    return B(z3.Or(t, rest) if isinstance(n.op, ast.Or) else z3.And(t, rest))
            short = t if isinstance(n.op, ast.Or) else z3.Not(t)
            if self.path.branch(short):
                return v
        return v

    def try_pure_bool(self, exprs):
        """evaluate remaining BoolOp operands as one z3 Bool if they are side-effect free comparisons of scalars"""
        return None

    def e_IfExp(self, n):
        c = self.ev(n.test)
        if self.is_true(c, n.test):
            return self.ev(n.body)
        return self.ev(n.orelse)

    def e_Compare(self, n):
        left = self.ev(n.left)
        acc = None
        for op, rn in zip(n.ops, n.comparators):
            right = self.ev(rn)
            c = self.compare(op, left, right, n)
            if isinstance(c, Arr):
                if len(n.ops) != 1:
                    self.unsupported("chained comparison of arrays", n)
                return c
            acc = c if acc is None else z3.And(acc, c)
            left = right
        return B(acc)

    def compare(self, op, a, b, n):
        if isinstance(op, (ast.Is, ast.IsNot)):
            r = self.identical(a, b, n)
            return r if isinstance(op, ast.Is) else z3.Not(r)
        if isinstance(op, (ast.In, ast.NotIn)):
            r = self.contains(b, a, n)
            return r if isinstance(op, ast.In) else z3.Not(r)
        if isinstance(a, Arr) or isinstance(b, Arr):
            return self.reg.arr_compare(self, op, a, b, n)
        if isinstance(op, (ast.Eq, ast.NotEq)):
            r = self.equal(a, b, n)
            return r if isinstance(op, ast.Eq) else z3.Not(r)
        if isinstance(a, Z) and isinstance(b, Z):
            if a.kind in ("int", "bool") and b.kind in ("int", "bool"):
                x, y = to_int(a), to_int(b)
            else:
                x, y = to_real(a), to_real(b)
            return {ast.Lt: x < y, ast.LtE: x <= y, ast.Gt: x > y, ast.GtE: x >= y}[type(op)]
        if isinstance(a, NoneV) or isinstance(b, NoneV):
            self.implicit_exception(False, "TypeError", n)
            raise PathEnd()
        self.unsupported(f"compare {type(op).__name__} {a!r} {b!r}", n)

    def identical(self, a, b, n=None):
        if isinstance(a, NoneV) or isinstance(b, NoneV):
            return z3.BoolVal(isinstance(a, NoneV) and isinstance(b, NoneV))
        if isinstance(a, Obj) and isinstance(b, Obj):
            return z3.BoolVal(a.id == b.id)
        if isinstance(a, Sym) and isinstance(b, Sym) and a.e.sort() == b.e.sort():
            return a.e == b.e
        if isinstance(a, (PyList, PyDict, SymList)) or isinstance(b, (PyList, PyDict, SymList)):
            return z3.BoolVal(a is b)
        if isinstance(a, Z) and isinstance(b, Z) and a.kind == b.kind == "bool":
            return a.e == b.e
        if isinstance(a, ClassRef) and isinstance(b, ClassRef):
            return z3.BoolVal(a.name == b.name)
        if isinstance(a, Mod) and isinstance(b, Mod):
            return z3.BoolVal(a.name == b.name)
        if isinstance(a, Arr) and isinstance(b, Arr):
            return z3.BoolVal(a is b)
        if isinstance(a, (Fn, Closure, FuncRef, Partial)) or isinstance(b, (Fn, Closure, FuncRef, Partial)):
            return z3.BoolVal(self.same_callable(a, b))
        if type(a) is not type(b):
            return z3.BoolVal(False)
        self.unsupported(f"`is` on {a!r}, {b!r}", n)

    def same_callable(self, a, b):
        if a is b:
            return True
        if isinstance(a, FuncRef) and isinstance(b, FuncRef):
            return a.info is b.info and (a.bound is b.bound)
        if isinstance(a, Fn) and isinstance(b, Fn):
            return a.h is b.h and a.bound is b.bound and a.name == b.name
        return False

    def equal(self, a, b, n=None):
        if isinstance(a, NoneV) or isinstance(b, NoneV):
            return z3.BoolVal(isinstance(a, NoneV) and isinstance(b, NoneV))
        if isinstance(a, Z) and isinstance(b, Z):
            if a.kind == b.kind == "bool":
                return a.e == b.e
            if a.kind in ("int", "bool") and b.kind in ("int", "bool"):
                return to_int(a) == to_int(b)
            return to_real(a) == to_real(b)
        if isinstance(a, Str) and isinstance(b, Str):
            return z3.BoolVal(a.v == b.v)
        if isinstance(a, Sym) and isinstance(b, Sym) and a.e.sort() == b.e.sort():
            return a.e == b.e
        if isinstance(a, (Tup, PyList)) and isinstance(b, (Tup, PyList)):
            if len(a.items) != len(b.items):
                return z3.BoolVal(False)
            return z3.And([self.equal(x, y, n) for x, y in zip(a.items, b.items)] + [z3.BoolVal(True)])
        if isinstance(a, PyDict) and isinstance(b, PyDict):
            if set(a.d) != set(b.d):
                return z3.BoolVal(False)
            return z3.And([self.equal(a.d[k], b.d[k], n) for k in a.d] + [z3.BoolVal(True)])
        if isinstance(a, Obj) and isinstance(b, Obj):
            return z3.BoolVal(a.id == b.id)
        if isinstance(a, (ClassRef, Mod)) or isinstance(b, (ClassRef, Mod)):
            return self.identical(a, b, n)
        if type(a) is not type(b) and not isinstance(a, Sym) and not isinstance(b, Sym):
            return z3.BoolVal(False)
        r = self.reg.value_equal(self, a, b, n)
        if r is not None:
            return r
        self.unsupported(f"== on {a!r}, {b!r}", n)

    def contains(self, container, item, n=None):
        if isinstance(container, PyDict):
            if isinstance(item, Str):
                return z3.BoolVal(item.v in container.d)
            k = self.dict_key(item, n)
            return z3.BoolVal(k in container.d)
        if isinstance(container, (PyList, Tup)):
            return z3.Or([self.equal(x, item, n) for x in container.items] + [z3.BoolVal(False)])
        if isinstance(container, Str) and isinstance(item, Str):
            return z3.BoolVal(item.v in container.v)
        r = self.reg.value_contains(self, container, item, n)
        if r is not None:
            return r
        self.unsupported(f"`in` on {container!r}", n)

    # -- subscripts
    def e_Subscript(self, n):
        o = self.ev(n.value)
        if isinstance(n.slice, ast.Slice):
            idx = ("slice", self.ev(n.slice.lower) if n.slice.lower else NONE, self.ev(n.slice.upper) if n.slice.upper else NONE,
                   self.ev(n.slice.step) if n.slice.step else NONE)
        else:
            idx = self.ev(n.slice)
        return self.subscript(o, idx, n)

    def subscript(self, o, idx, n):
        if isinstance(o, PyDict):
            k = self.dict_key(idx, n)
            if k not in o.d:
                self.implicit_exception(False, "KeyError", n)
                raise PathEnd()
            return o.d[k]
        if isinstance(o, (PyList, Tup)):
            if isinstance(idx, tuple) and idx[0] == "slice":
                lo = self.concrete_int(idx[1], n, 0) if not isinstance(idx[1], NoneV) else None
                hi = self.concrete_int(idx[2], n, 0) if not isinstance(idx[2], NoneV) else None
                st = self.concrete_int(idx[3], n, 1) if not isinstance(idx[3], NoneV) else None
                items = o.items[slice(lo, hi, st)]
                return PyList(items) if isinstance(o, PyList) else Tup(items)
            k = z3.simplify(to_int(idx))
            if z3.is_int_value(k):
                kk = k.as_long()
                if not (-len(o.items) <= kk < len(o.items)):
                    self.implicit_exception(False, "IndexError", n)
                    raise PathEnd()
                return o.items[kk]
            self.unsupported("symbolic index into concrete list", n)
        if isinstance(o, SymList):
            if isinstance(idx, Z):
                k = z3.simplify(to_int(idx))
                if z3.is_int_value(k) and k.as_long() == -1:
                    self.implicit_exception(o.len > 0, "IndexError", n)
                    if o.last is None:
                        o.last = self.reg.fresh_elem(self, o)
                    return o.last
                if z3.is_int_value(k) and k.as_long() == 0:
                    self.implicit_exception(o.len > 0, "IndexError", n)
                    if o.first is None:
                        o.first = self.reg.fresh_elem(self, o)
                    return o.first
            self.unsupported("index into symbolic list", n)
        r = self.reg.value_subscript(self, o, idx, n)
        if r is not None:
            return r
        self.unsupported(f"subscript of {o!r} with {idx!r}", n)

    def concrete_int(self, v, n, default=None):
        if isinstance(v, NoneV):
            return default
        k = z3.simplify(to_int(v))
        if z3.is_int_value(k):
            return k.as_long()
        self.unsupported("symbolic value where a concrete int is needed", n)

    # -- comprehensions (concrete iterables only)
    def iterate(self, it, n=None):
        if isinstance(it, (PyList, Tup)):
            return list(it.items)
        if isinstance(it, PyDict):
            return [Str(k) if isinstance(k, str) else I(k) for k in it.d]
        r = self.reg.value_iterate(self, it, n)
        if r is not None:
            return r
        self.unsupported(f"iteration over {it!r}", n)

    def comp_envs(self, generators, i=0):
        """yields after binding the comprehension variables (as a nested frame)"""
        if i == len(generators):
            yield
            return
        g = generators[i]
        for item in self.iterate(self.ev(g.iter), g.iter):
            self.assign(g.target, item)
            if all(self.is_true(self.ev(c), c) for c in g.ifs):
                yield from self.comp_envs(generators, i + 1)

    def _comp(self, n, elt_fn):
        fr = Frame(self.frame.module, self.frame.cls, self.frame.func, parent=self.frame)
        self.frames.append(fr)
        try:
            out = []
            for _ in self.comp_envs(n.generators):
                out.append(elt_fn())
            return out
        finally:
            self.frames.pop()

    def e_ListComp(self, n):
        return PyList(self._comp(n, lambda: self.ev(n.elt)))

    def e_GeneratorExp(self, n):
        return PyList(self._comp(n, lambda: self.ev(n.elt)))

    def e_SetComp(self, n):
        return PyList(self._comp(n, lambda: self.ev(n.elt)))

    def e_DictComp(self, n):
        pairs = self._comp(n, lambda: (self.dict_key(self.ev(n.key), n.key), self.ev(n.value)))
        return PyDict(dict(pairs))

    # -- calls
    def e_Call(self, n):
        # super() special form
        if isinstance(n.func, ast.Name) and n.func.id == "super" and not n.args:
            fr = self.frame
            while fr is not None and "self" not in fr.env and "cls" not in fr.env:
                fr = fr.parent
            owner = self.frame.cls
            obj = fr.env.get("self", fr.env.get("cls"))
            return SuperProxy(obj, owner)
        fv = self.ev(n.func)
        args = []
        for a in n.args:
            if isinstance(a, ast.Starred):
                args += self.iterate(self.ev(a.value), a)
            else:
                args.append(self.ev(a))
        kwargs = {}
        for k in n.keywords:
            if k.arg is None:
                d = self.ev(k.value)
                if isinstance(d, PyDict):
                    for kk, vv in d.d.items():
                        kwargs[kk] = vv
                elif isinstance(d, NoneV):
                    self.implicit_exception(False, "TypeError", n)
                    raise PathEnd()
                else:
                    self.unsupported(f"** of {d!r}", n)
            else:
                kwargs[k.arg] = self.ev(k.value)
        return self.call(fv, args, kwargs, n)

    def call(self, fv, args, kwargs, n=None):
        if isinstance(fv, Fn):
            a = list(args)
            if fv.bound is not None:
                a = [fv.bound] + a
            return fv.h(self, a, kwargs, n)
        if isinstance(fv, FuncRef):
            return self.call_repo(fv.info, fv.bound, args, kwargs, n)
        if isinstance(fv, Closure):
            return self.call_closure(fv, args, kwargs, n)
        if isinstance(fv, ClassRef):
            return self.construct(fv, args, kwargs, n)
        if isinstance(fv, Partial):
            kw = dict(fv.kwargs)
            kw.update(kwargs)
            return self.call(fv.fn, fv.args + list(args), kw, n)
        if isinstance(fv, NoneV):
            self.implicit_exception(False, "TypeError", n)
            raise PathEnd()
        if isinstance(fv, Mod):
            key = fv.name
            if key in self.reg.handlers:
                return self.reg.handlers[key](self, list(args), kwargs, n)
            return self.reg.opaque_call(self, fv, args, kwargs, n)
        r = self.reg.value_call(self, fv, args, kwargs, n)
        if r is not NotImplemented:
            return r
        self.unsupported(f"call of {fv!r}", n)

    def call_method(self, obj, name, args, kwargs, n=None):
        return self.call(self.getattr(obj, name, n), args, kwargs, n)

    def bind(self, fn_node, args, kwargs, n, callee_module, skip_self=None):
        pos, defaults, vararg, kwonly, kwarg = signature(fn_node)
        env = {}
        args = list(args)
        if skip_self is not None:
            env[pos[0]] = skip_self
            pos = pos[1:]
        extra_pos = []
        for i, a in enumerate(args):
            if i < len(pos):
                env[pos[i]] = a
            else:
                extra_pos.append(a)
        if extra_pos:
            if vararg is None:
                self.implicit_exception(False, "TypeError", n)
                raise PathEnd()
        if vararg is not None:
            env[vararg] = Tup(extra_pos)
        extra_kw = {}
        for k, v in kwargs.items():
            if k in pos or k in kwonly:
                if k in env:
                    self.implicit_exception(False, "TypeError", n)   # multiple values
                    raise PathEnd()
                env[k] = v
            else:
                extra_kw[k] = v
        if extra_kw:
            if kwarg is None:
                # unexpected keyword argument
                self.implicit_exception(False, "TypeError", n)
                raise PathEnd()
        if kwarg is not None:
            env[kwarg] = PyDict(extra_kw)
        for p in pos + kwonly:
            if p not in env:
                if p in defaults:
                    env[p] = self.eval_in_module(defaults[p], callee_module)
                else:
                    self.implicit_exception(False, "TypeError", n)   # missing argument
                    raise PathEnd()
        return env

    def call_repo(self, info: FuncInfo, bound, args, kwargs, n=None, force_inline=False):
        q = info.qualname
        hook = self.call_hooks.get(q) or self.call_hooks.get(info.name)
        if hook is not None:
            hook(self, info, bound, args, kwargs, n)
        c = self.contracts.get(q)
        top = not self.frames or (self.depth == 0)
        if c is not None and not force_inline and not (top and q == self.target) and q not in self.force_inline_quals and c.usable_at_call(self, q):
            self.path.ex.contracts_used.add(q)
            return c.apply(self, info, bound, args, kwargs, n)
        if self.depth >= self.inline_depth:
            self.unsupported(f"inline depth exceeded calling {q}", n)
        if self.depth > 0:
            self.path.ex.inlined.add(q)
        for d in info.decorators:
            if d not in ("track_calls", "classmethod", "staticmethod", "property", "contextmanager") and not d.endswith(".setter"):
                self.unsupported(f"decorator @{d} on {q}", n)
        skip = bound if (info.kind in ("method", "property", "setter", "classmethod") and bound is not None) else None
        if info.kind in ("method", "property", "setter") and bound is None:
            # unbound method call: first positional argument is self
            skip = None
        env = self.bind(info.node, args, kwargs, n, info.module, skip_self=skip)
        fr = Frame(info.module, info.cls, info)
        fr.env.update(env)
        self.frames.append(fr)
        self.depth += 1
        try:
            self.exec_block(info.node.body)
            return NONE
        except ReturnSig as r:
            return r.value
        finally:
            self.depth -= 1
            if self.depth == 0:
                self.final_env = fr.env
            self.frames.pop()

    def call_closure(self, c: Closure, args, kwargs, n=None):
        env = self.bind(c.node, args, kwargs, n, c.module)
        fr = Frame(c.module, c.cls, c.frame.func if c.frame else None, parent=c.frame)   # late binding: reads enclosing frame
        fr.env.update(env)
        self.frames.append(fr)
        self.depth += 1
        try:
            self.exec_block(c.node.body)
            return NONE
        except ReturnSig as r:
            return r.value
        finally:
            self.depth -= 1
            self.frames.pop()

    def construct(self, cref: ClassRef, args, kwargs, n=None):
        name = cref.name
        key = f"{name}.__new__"
        if key in self.reg.handlers:
            return self.reg.handlers[key](self, list(args), kwargs, n)
        if name not in self.front.classes:
            if name in self.reg.handlers:
                return self.reg.handlers[name](self, list(args), kwargs, n)
            self.unsupported(f"construction of {name}", n)
        c = self.contracts.get(f"{self.front.classes[name].module}:{name}.__init__")
        ci = self.front.classes[name]
        obj = Obj(name)
        init = self.front.find_method(name, "__init__")
        if init is None and any(self.front.classes[k].is_dataclass for k in self.front.mro(name)):
            fields = self.front.dataclass_fields(name)
            # generated __init__
            initf = [(nm, d, owner) for nm, d, i, owner in fields if i]
            names = [nm for nm, _, _ in initf]
            if len(args) > len(names):
                self.implicit_exception(False, "TypeError", n)
                raise PathEnd()
            vals = dict(zip(names, args))
            for k, v in kwargs.items():
                if k not in names or k in vals:
                    self.implicit_exception(False, "TypeError", n)   # unexpected / duplicated keyword
                    raise PathEnd()
                vals[k] = v
            for nm, d, owner in initf:
                if nm not in vals:
                    if d is None:
                        self.implicit_exception(False, "TypeError", n)
                        raise PathEnd()
                    vals[nm] = self.eval_in_module(d, self.front.classes[owner].module)
                obj.f[nm] = vals[nm]
            for nm, d, i, owner in fields:
                if not i:
                    obj.absent.add(nm)
            post = self.front.find_method(name, "__post_init__")
            if post is not None:
                self.call_repo(post, obj, [], {}, n)
            return obj
        if init is not None:
            self.call_repo(init, obj, args, kwargs, n)
            return obj
        if args or kwargs:
            self.implicit_exception(False, "TypeError", n)
            raise PathEnd()
        return obj

    # ---------------------------------------------------------------- statements
    def exec_block(self, stmts):
        for s in stmts:
            self.exec(s)

    def exec(self, n):
        m = getattr(self, "s_" + type(n).__name__, None)
        if m is None:
            self.unsupported(f"statement {type(n).__name__}", n)
        return m(n)

    def s_Expr(self, n):
        if isinstance(n.value, ast.Constant):
            return
        self.ev(n.value)

    def s_Pass(self, n):
        pass

    def s_Import(self, n):
        for a in n.names:
            nm = a.asname or a.name.split(".")[0]
            full = a.name if a.asname else a.name.split(".")[0]
            self.frame.env[nm] = Mod(self.reg.module_alias.get(full, full))

    def s_ImportFrom(self, n):
        for a in n.names:
            nm = a.asname or a.name
            if n.level > 0 or (n.module or "").startswith("aspire"):
                rel = "." * n.level + (n.module or "")
                tm = self.resolve_relative(self.frame.module, rel) if n.level > 0 else (n.module or "").replace("aspire.", "").replace("aspire", "")
                if a.name in self.front.classes and self.front.classes[a.name].module == tm:
                    self.frame.env[nm] = ClassRef(a.name)
                    continue
                fi = self.front.module_function(tm, a.name)
                if fi is not None:
                    self.frame.env[nm] = FuncRef(fi)
                    continue
                if tm == "" and a.name == "__version__":
                    self.frame.env[nm] = Str("version")
                    continue
                self.frame.env[nm] = Mod(f"aspire.{tm}.{a.name}")
                continue
            key = f"{n.module}.{a.name}"
            if key in self.reg.handlers:
                self.frame.env[nm] = Fn(self.reg.handlers[key], key)
            elif a.name in self.reg.handlers and key in self.reg.import_ok:
                self.frame.env[nm] = Fn(self.reg.handlers[a.name], a.name)
            elif key in self.reg.consts:
                self.frame.env[nm] = self.reg.consts[key]
            else:
                self.frame.env[nm] = Mod(self.reg.module_alias.get(key, key))

    def s_Return(self, n):
        raise ReturnSig(self.ev(n.value) if n.value is not None else NONE)

    def s_Raise(self, n):
        if n.exc is None:
            raise RaiseSig("reraise", n)
        name = ast.unparse(n.exc.func) if isinstance(n.exc, ast.Call) else ast.unparse(n.exc)
        raise RaiseSig(name.split(".")[-1], n)

    def s_Break(self, n):
        raise BreakSig()

    def s_Continue(self, n):
        raise ContinueSig()

    def s_Assert(self, n):
        c = self.ev(n.test)
        self.implicit_exception(self.truth(c, n.test), "AssertionError", n)

    def s_FunctionDef(self, n):
        self.frame.env[n.name] = Closure(n, self.frame, self.frame.module, self.frame.cls)

    def s_Global(self, n):
        pass

    def s_Delete(self, n):
        for t in n.targets:
            if isinstance(t, ast.Subscript):
                o = self.ev(t.value)
                idx = self.ev(t.slice)
                if isinstance(o, PyDict):
                    k = self.dict_key(idx, t)
                    if k not in o.d:
                        self.implicit_exception(False, "KeyError", n)
                        raise PathEnd()
                    del o.d[k]
                    continue
                if self.reg.value_delitem(self, o, idx, n):
                    continue
            if isinstance(t, ast.Name):
                self.frame.env.pop(t.id, None)
                continue
            self.unsupported("del target", n)

    def assign(self, target, v, n=None):
        if isinstance(target, ast.Name):
            # assignment binds in the innermost function frame (comprehension frames excepted: they hold only loop vars)
            self.frame.env[target.id] = v
        elif isinstance(target, (ast.Tuple, ast.List)):
            items = self.iterate(v, target) if not isinstance(v, Tup) else v.items
            if len(items) != len(target.elts):
                self.implicit_exception(False, "ValueError", target)
                raise PathEnd()
            for t, x in zip(target.elts, items):
                self.assign(t, x, n)
        elif isinstance(target, ast.Attribute):
            o = self.ev(target.value)
            self.setattr(o, target.attr, v, target)
        elif isinstance(target, ast.Subscript):
            o = self.ev(target.value)
            if isinstance(target.slice, ast.Slice):
                idx = ("slice", self.ev(target.slice.lower) if target.slice.lower else NONE,
                       self.ev(target.slice.upper) if target.slice.upper else NONE, NONE)
            else:
                idx = self.ev(target.slice)
            if isinstance(o, PyDict):
                o.d[self.dict_key(idx, target)] = v
                return
            if isinstance(o, SymList) and isinstance(idx, Z) and z3.is_int_value(z3.simplify(idx.e)) and z3.simplify(idx.e).as_long() == -1:
                # l[-1] = v on a list of symbolic length: IndexError when empty; the ghost view's last element is replaced (the sum is no longer known)
                self.implicit_exception(o.len > 0, "IndexError", target)
                self.path.event("list.setitem", o.name, o, o.last, v)
                o.last = v
                if o.sum is not None:
                    o.sum = z3.Real(fresh(f"sum_{o.name}_after_setitem")) if o.elem == "real" else None
                return
            if self.reg.value_setitem(self, o, idx, v, target):
                return
            self.unsupported(f"subscript assignment on {o!r}", target)
        else:
            self.unsupported(f"assignment target {type(target).__name__}", target)

    def setattr(self, o, attr, v, n=None):
        if isinstance(o, Obj):
            if o.cls in self.front.classes:
                st = self.front.find_setter(o.cls, attr)
                if st is not None:
                    self.call_repo(st, o, [v], {}, n)
                    return
            hook = self.reg.setattr_hooks.get(attr)
            if hook is not None:
                hook(self, o, attr, v, n)
            o.f[attr] = v
            o.absent.discard(attr)
            return
        if isinstance(o, NoneV):
            self.implicit_exception(False, "AttributeError", n)
            raise PathEnd()
        if self.reg.value_setattr(self, o, attr, v, n):
            return
        self.unsupported(f"attribute assignment on {o!r}", n)

    def s_Assign(self, n):
        v = self.ev(n.value)
        for t in n.targets:
            self.assign(t, v, n)

    def s_AnnAssign(self, n):
        if n.value is not None:
            self.assign(n.target, self.ev(n.value), n)

    def s_AugAssign(self, n):
        if isinstance(n.target, ast.Name):
            cur = self.lookup(n.target.id, n)
        elif isinstance(n.target, ast.Attribute):
            cur = self.getattr(self.ev(n.target.value), n.target.attr, n)
        else:
            cur = self.ev(n.target)
        v = self.ev(n.value)
        new = self.binop(n.op, cur, v, n)
        if isinstance(cur, Arr) and isinstance(new, Arr):
            # `a op= b` on an array: in place on NumPy/Torch (every alias sees it), rebinding on immutable JAX arrays - both explored
            self.path.ex.assumed.add("augmented assignment on an array mutates it in place (NumPy, Torch) or rebinds the name (JAX)")
            if self.path.choose(2, "augassign-inplace") == 0:
                cur.at, cur.key, cur.n, cur.elem, cur.facts = new.at, new.key, new.n, new.elem, new.facts
                return
        self.assign(n.target, new, n)

    def s_If(self, n):
        c = self.ev(n.test)
        if not n.orelse and all(self.is_log_stmt(b) for b in n.body):
            return          # A-LOG: a branch that only logs is not forked
        if self.is_true(c, n.test):
            self.exec_block(n.body)
        else:
            self.exec_block(n.orelse)

    def is_log_stmt(self, st):
        return (isinstance(st, ast.Expr) and isinstance(st.value, ast.Call) and isinstance(st.value.func, ast.Attribute)
                and isinstance(st.value.func.value, ast.Name) and st.value.func.value.id == "logger")

    def s_With(self, n):
        mgrs = []
        for item in n.items:
            cm = self.ev(item.context_expr)
            val = self.reg.enter_context(self, cm, item)
            mgrs.append(cm)
            if item.optional_vars is not None:
                self.assign(item.optional_vars, val, n)
        try:
            self.exec_block(n.body)
        except (RaiseSig, ReturnSig, BreakSig, ContinueSig) as sig:
            for cm in reversed(mgrs):
                self.reg.exit_context(self, cm, n, exc=sig if isinstance(sig, RaiseSig) else None)
            raise
        for cm in reversed(mgrs):
            self.reg.exit_context(self, cm, n, exc=None)

    def s_Try(self, n):
        caught = set()
        for h in n.handlers:
            if h.type is None:
                caught = None
                break
            names = [ast.unparse(e).split(".")[-1] for e in (h.type.elts if isinstance(h.type, ast.Tuple) else [h.type])]
            caught.update(names)
        if n.handlers:
            self.try_stack.append(caught)
        try:
            try:
                self.exec_block(n.body)
            finally:
                if n.handlers:
                    self.try_stack.pop()
        except RaiseSig as sig:
            handled = False
            for h in n.handlers:
                names = None if h.type is None else [ast.unparse(e).split(".")[-1] for e in (h.type.elts if isinstance(h.type, ast.Tuple) else [h.type])]
                if exc_matches(sig.exc, names):
                    if h.name:
                        self.frame.env[h.name] = Obj("Exception", {"name": Str(sig.exc)})
                    try:
                        try:
                            self.exec_block(h.body)
                        except RaiseSig as s2:
                            if s2.exc == "reraise":
                                raise sig
                            raise
                    except BaseException:
                        if n.finalbody:
                            self._finally(n)
                        raise
                    handled = True
                    break
            if not handled:
                if n.finalbody:
                    self._finally(n)
                raise
        except (ReturnSig, BreakSig, ContinueSig):
            if n.finalbody:
                self._finally(n)
            raise
        else:
            self.exec_block(n.orelse)
        if n.finalbody:
            self.exec_block(n.finalbody)

    def _finally(self, n):
        self.path.event("finally", n.lineno)
        self.exec_block(n.finalbody)

    def s_For(self, n):
        it = self.ev(n.iter)
        spec = self.loop_spec(n)
        if spec is not None:
            return self.reg.cut_for(self, n, it, spec)
        items = self.iterate(it, n.iter)
        broke = False
        for item in items:
            self.assign(n.target, item, n)
            try:
                self.exec_block(n.body)
            except BreakSig:
                broke = True
                break
            except ContinueSig:
                continue
        if not broke:
            self.exec_block(n.orelse)

    def loop_spec(self, n):
        fn = self.frame.func
        if fn is None:
            return None
        k = self.loop_ordinal(fn, n)
        return self.loop_specs.get((fn.qualname, k))

    def loop_ordinal(self, fn, n):
        k = 0
        for x in ast.walk(fn.node):
            if isinstance(x, (ast.While, ast.For)):
                if x is n:
                    return k
                k += 1
        return -1

    def s_While(self, n):
        """Loop cut with a *guarded* invariant: the sidecar invariant has to hold at every loop head at which the guard is true (the states
        from which another iteration starts).  Exit states are covered exactly: the pre-state when the guard is false on entry, the
        state at a `break`, and the state after a body execution (from an arbitrary invariant state) that makes the guard false.
        So `while True: ...; if c: break` and `done = False; while not done: ...; done = c` are cut by the same invariant."""
        spec = self.loop_spec(n)
        if spec is None:
            self.unsupported("while loop without an invariant in the sidecar contract", n)
        p = self.path
        fn = self.frame.func.qualname
        k = self.loop_ordinal(self.frame.func, n)
        # 0. guard false on entry: the loop is skipped from the concrete pre-state
        t0 = self.truth(self.ev(n.test), n.test)
        if not p.branch(t0):
            p.cover(f"{fn}:loop{k}:skipped")
            self.exec_block(n.orelse)
            return
        # 1. invariant holds on entry (guard true)
        for nm, g in spec.inv(self):
            p.prove(g, f"{fn}:loop{k}:inv-init:{nm}", kind="loop-invariant")
        # 2. an arbitrary iteration: havoc everything the loop may modify, assume the invariant and the guard
        before = dict(self.frame.env)
        spec.havoc(self)
        self.havoc_unlisted_loop_locals(n, before)
        for nm, g in spec.inv(self):
            p.assume(g)
        if spec.at_head is not None:
            spec.at_head(self)
        t = self.truth(self.ev(n.test), n.test)
        p.assume(t)
        p.cover(f"{fn}:loop{k}:body-reachable")
        v0 = spec.variant(self) if spec.variant is not None else None
        try:
            self.exec_block(n.body)
        except BreakSig:
            if spec.at_break is not None:
                spec.at_break(self)
            return
        except ContinueSig:
            pass
        t1 = self.truth(self.ev(n.test), n.test)
        if p.branch(t1):
            # another iteration follows: the invariant is re-established and the variant has decreased
            for nm, g in spec.inv(self):
                p.prove(g, f"{fn}:loop{k}:inv-preserved:{nm}", kind="loop-invariant")
            if spec.body_end is not None:
                for nm, g in spec.body_end(self):
                    p.prove(g, f"{fn}:loop{k}:body:{nm}", kind="loop-body")
            if v0 is not None:
                for nm, g in spec.decreases(self, v0):
                    p.prove(g, f"{fn}:loop{k}:variant:{nm}", kind="termination")
            raise PathEnd()
        # the guard has become false: this iteration was the last one; continue after the loop from this state
        p.cover(f"{fn}:loop{k}:exit-reachable")
        if spec.at_break is not None:
            spec.at_break(self)
        elif spec.body_end is not None:
            for nm, g in spec.body_end(self):
                p.prove(g, f"{fn}:loop{k}:body(last iteration):{nm}", kind="loop-body")
        self.exec_block(n.orelse)

    def havoc_unlisted_loop_locals(self, n, before):
        """scalars assigned in the loop body that the sidecar's havoc did not rebind get a fresh unknown value of the same kind (a stale
        pre-loop value would be unsound); other kinds of value are left to the sidecar"""
        env = self.frame.env
        assigned = set()
        for st in ast.walk(n):
            if isinstance(st, ast.Name) and isinstance(st.ctx, ast.Store):
                assigned.add(st.id)
        for nm in sorted(assigned):
            if nm in env and nm in before and env[nm] is before[nm] and isinstance(env[nm], Z):
                v = env[nm]
                c = {"int": z3.Int, "real": z3.Real, "bool": z3.Bool}.get(v.kind)
                if c is not None:
                    env[nm] = Z(c(fresh(f"loopvar_{nm}")), v.kind)


class SuperProxy(V):
    def __init__(self, obj, cls):
        self.obj, self.cls = obj, cls


class LoopSpec:
    def __init__(self, inv, havoc, variant=None, decreases=None, body_end=None, at_head=None, at_break=None):
        self.inv, self.havoc, self.variant, self.decreases = inv, havoc, variant, decreases
        self.body_end, self.at_head, self.at_break = body_end, at_head, at_break
