"""Front end: reads the real source under /repo/src/aspire on every run.

Builds a class table (bases, MRO, methods, properties/setters, dataclass fields incl.
init=False and defaults, class attributes), module-level functions and import maps, and
gives every function a stable qualified name  `<module>:<Class>.<func>`.
Nothing is cached between runs: checks always see the current working tree.
"""
from __future__ import annotations

import ast
import hashlib
import os
import pathlib

REPO = pathlib.Path(os.environ.get("ASPIRE_REPO", "/repo"))
SRC = REPO / "src" / "aspire"


class FuncInfo:
    def __init__(self, module, cls, node, kind="function", decorators=()):
        self.module, self.cls, self.node, self.kind = module, cls, node, kind
        self.decorators = tuple(decorators)
        self.name = node.name

    @property
    def qualname(self):
        return f"{self.module}:{self.cls + '.' if self.cls else ''}{self.name}"

    @property
    def file(self):
        return str(SRC / (self.module.replace(".", "/") + ".py"))

    @property
    def span(self):
        return (self.node.lineno, self.node.end_lineno)

    def source(self):
        return ast.unparse(self.node)

    def source_hash(self):
        return hashlib.sha256(ast.dump(self.node).encode()).hexdigest()[:16]


class ClassInfo:
    def __init__(self, module, node):
        self.module, self.node, self.name = module, node, node.name
        self.base_names = [ast.unparse(b) for b in node.bases]
        self.methods: dict[str, FuncInfo] = {}
        self.setters: dict[str, FuncInfo] = {}
        self.properties: dict[str, FuncInfo] = {}
        self.class_attrs: dict[str, ast.expr] = {}
        self.is_dataclass = any("dataclass" in ast.unparse(d) for d in node.decorator_list)
        self.fields: list[tuple[str, ast.expr | None, bool]] = []  # (name, default expr, init?)
        for st in node.body:
            if isinstance(st, (ast.FunctionDef,)):
                decs = [ast.unparse(d) for d in st.decorator_list]
                if any(d.endswith(".setter") for d in decs):
                    self.setters[st.name] = FuncInfo(module, self.name, st, "setter", decs)
                elif "property" in decs:
                    self.properties[st.name] = FuncInfo(module, self.name, st, "property", decs)
                else:
                    kind = "classmethod" if "classmethod" in decs else "staticmethod" if "staticmethod" in decs else "method"
                    self.methods[st.name] = FuncInfo(module, self.name, st, kind, decs)
            elif isinstance(st, ast.AnnAssign) and isinstance(st.target, ast.Name):
                init = True
                default = st.value
                if isinstance(default, ast.Call) and ast.unparse(default.func) == "field":
                    kw = {k.arg: k.value for k in default.keywords}
                    if "init" in kw and isinstance(kw["init"], ast.Constant) and kw["init"].value is False:
                        init = False
                    if "default_factory" in kw:
                        default = ast.Call(func=kw["default_factory"], args=[], keywords=[])
                    elif "default" in kw:
                        default = kw["default"]
                    else:
                        default = None
                if self.is_dataclass:
                    self.fields.append((st.target.id, default, init))
                if st.value is not None:
                    self.class_attrs[st.target.id] = st.value
            elif isinstance(st, ast.Assign) and len(st.targets) == 1 and isinstance(st.targets[0], ast.Name):
                self.class_attrs[st.targets[0].id] = st.value


class Front:
    def __init__(self):
        self.modules: dict[str, ast.Module] = {}
        self.classes: dict[str, ClassInfo] = {}
        self.functions: dict[str, FuncInfo] = {}     # "module:func"
        self.imports: dict[str, dict[str, str]] = {}  # module -> local name -> dotted origin
        self.text: dict[str, str] = {}
        for path in sorted(SRC.rglob("*.py")):
            rel = path.relative_to(SRC).with_suffix("")
            mod = ".".join(rel.parts)
            if mod.endswith("__init__"):
                mod = mod[: -len(".__init__")] if "." in mod else "__init__"
            txt = path.read_text()
            self.text[mod] = txt
            tree = ast.parse(txt)
            self.modules[mod] = tree
            imp = {}
            for st in ast.walk(tree):
                if isinstance(st, ast.ImportFrom):
                    for a in st.names:
                        imp[a.asname or a.name] = ("." * st.level) + (st.module or "") + ":" + a.name
                elif isinstance(st, ast.Import):
                    for a in st.names:
                        imp[a.asname or a.name.split(".")[0]] = a.name if a.asname else a.name.split(".")[0]
            self.imports[mod] = imp
            for st in tree.body:
                if isinstance(st, ast.ClassDef):
                    self.classes[st.name] = ClassInfo(mod, st)
                elif isinstance(st, ast.FunctionDef):
                    decs = [ast.unparse(d) for d in st.decorator_list]
                    self.functions[f"{mod}:{st.name}"] = FuncInfo(mod, None, st, "function", decs)

    # ---- class table queries
    def mro(self, cname: str) -> list[str]:
        out, seen = [], set()

        def rec(c):
            if c in seen or c not in self.classes:
                return
            seen.add(c)
            out.append(c)
            for b in self.classes[c].base_names:
                rec(b.split(".")[-1])

        rec(cname)
        return out

    def is_subclass(self, c: str, base: str) -> bool:
        return base in self.mro(c)

    def find_method(self, cname: str, name: str, after: str | None = None) -> FuncInfo | None:
        """MRO lookup; `after` gives super() semantics (start after that class)."""
        mro = self.mro(cname)
        if after is not None and after in mro:
            mro = mro[mro.index(after) + 1:]
        for c in mro:
            ci = self.classes[c]
            if name in ci.methods:
                return ci.methods[name]
        return None

    def find_property(self, cname, name):
        for c in self.mro(cname):
            if name in self.classes[c].properties:
                return self.classes[c].properties[name]
        return None

    def find_setter(self, cname, name):
        for c in self.mro(cname):
            if name in self.classes[c].setters:
                return self.classes[c].setters[name]
        return None

    def instance_attr_values(self, cname, name):
        """value expressions assigned to `self.<name>` anywhere in the methods of the class and its bases -> [(owner, method, expr|None)]"""
        out = []
        for c in self.mro(cname):
            ci = self.classes.get(c)
            if ci is None:
                continue
            for grp in (ci.methods, ci.setters, ci.properties):
                for fi in grp.values():
                    args = fi.node.args.args
                    if not args:
                        continue
                    me = args[0].arg
                    for st in ast.walk(fi.node):
                        tgts, val = [], None
                        if isinstance(st, ast.Assign):
                            tgts, val = st.targets, st.value
                        elif isinstance(st, ast.AnnAssign):
                            tgts, val = [st.target], st.value
                        elif isinstance(st, ast.AugAssign):
                            tgts, val = [st.target], None
                        for t in tgts:
                            for tt in (t.elts if isinstance(t, (ast.Tuple, ast.List)) else [t]):
                                if isinstance(tt, ast.Attribute) and isinstance(tt.value, ast.Name) and tt.value.id == me and tt.attr == name:
                                    out.append((c, fi.node.name, val if not isinstance(t, (ast.Tuple, ast.List)) else None))
        return out

    def find_class_attr(self, cname, name):
        for c in self.mro(cname):
            if name in self.classes[c].class_attrs:
                return self.classes[c].class_attrs[name], c
        return None, None

    def dataclass_fields(self, cname):
        """(name, default, init, owner) in dataclass order (base fields first, overrides keep position)."""
        order, info = [], {}
        for c in reversed(self.mro(cname)):
            ci = self.classes[c]
            if not ci.is_dataclass:
                continue
            for n, d, i in ci.fields:
                if n not in info:
                    order.append(n)
                info[n] = (d, i, c)
        return [(n,) + info[n] for n in order]

    def get(self, qual: str) -> FuncInfo:
        """'module:Class.func' | 'module:func' | 'module:Class.prop.setter'"""
        mod, rest = qual.split(":")
        parts = rest.split(".")
        if len(parts) == 1:
            return self.functions[qual]
        ci = self.classes[parts[0]]
        assert ci.module == mod, (ci.module, mod)
        if len(parts) == 3 and parts[2] == "setter":
            return ci.setters[parts[1]]
        if parts[1] in ci.methods:
            return ci.methods[parts[1]]
        return ci.properties[parts[1]]

    def module_function(self, mod, name):
        return self.functions.get(f"{mod}:{name}")


def signature(fn: ast.FunctionDef):
    """-> (positional names, defaults dict name->ast, vararg, kwonly names, kwarg)"""
    a = fn.args
    pos = [x.arg for x in a.posonlyargs + a.args]
    defaults = {}
    for n, d in zip(pos[len(pos) - len(a.defaults):], a.defaults):
        defaults[n] = d
    for x, d in zip(a.kwonlyargs, a.kw_defaults):
        if d is not None:
            defaults[x.arg] = d
    return pos, defaults, (a.vararg.arg if a.vararg else None), [x.arg for x in a.kwonlyargs], (a.kwarg.arg if a.kwarg else None)
