"""ast -> Lean 4 definitions for the straight-line array-math functions of the real source.

Vectors are `Fin n → ℝ` (printed pointwise), element-wise transforms are translated in the
*scalar element view* (one coordinate; `.sum(-1)` over the parameter axis is dropped and recorded:
the log-Jacobian of an element-wise map is the sum of the per-coordinate terms - diagonal Jacobian).
Commutative operands are printed in a canonical order, so commuted-but-equal code yields the same
Lean text.  Anything outside the subset raises NotTranslatable (the check then reports the function
as undecided, never as proved).

Dropped by the extraction (recorded per function in `DROPPED` and in the evidence):
  * array-namespace dispatch (`xp = array_namespace(x)`), `asarray(e, xp)`, `to_numpy(e)`, dtype/device arguments
  * `.sum(-1)` / `.sum()` of an element-wise expression in element view (diagonal-Jacobian lemma)
  * `if eps: x = clip(x, eps, 1-eps)`  - side condition: eps <= x <= 1-eps (outside the clipping margin)
  * `if self._mean is None: return identity` - side condition: the transform has been fitted
  * `* xp.ones(n)` / `xp.zeros(n)` broadcasting of a per-batch constant log-Jacobian
"""
from __future__ import annotations

import ast
import itertools

from .front import Front


class NotTranslatable(Exception):
    pass


class T:
    __slots__ = ("op", "args", "shape", "name", "val")

    def __init__(self, op, args=(), shape="s", name=None, val=None):
        self.op, self.args, self.shape, self.name, self.val = op, tuple(args), shape, name, val


def lit(v):
    return T("lit", val=v)


def var(n, shape):
    return T("var", name=n, shape=shape)


COMM = {"add", "mul"}
_fresh = itertools.count()


def mk(op, *a):
    shape = "v" if any(x.shape == "v" for x in a) else "s"
    return T(op, a, shape)


PR_DIM = [False]      # print mode: True -> a sum over the coordinate axis prints as (d * term)  (uniform-coordinates view, see dim_theorems)


def pr(t, idx=None):
    """print the scalar view of t (at index idx when t is a vector)"""
    if t.op == "dsum":
        s0 = pr(t.args[0], idx)
        return f"(d * {s0})" if PR_DIM[0] else s0
    if t.op == "lit":
        v = t.val
        if isinstance(v, bool):
            raise NotTranslatable("bool literal")
        if isinstance(v, float) and v == int(v):
            v = int(v)
        if isinstance(v, float):
            from fractions import Fraction
            fr = Fraction(repr(v))
            return f"(({fr.numerator} : ℝ) / {fr.denominator})"
        return f"({v} : ℝ)"
    if t.op == "var":
        return f"({t.name} {idx})" if t.shape == "v" else t.name
    if t.op == "n":
        return "(n : ℝ)"
    if t.op in ("add", "sub", "mul", "div"):
        a, b = (pr(x, idx) for x in t.args)
        if t.op in COMM and a > b:
            a, b = b, a
        return f"({a} {dict(add='+', sub='-', mul='*', div='/')[t.op]} {b})"
    if t.op == "neg":
        return f"(-{pr(t.args[0], idx)})"
    if t.op == "pow":
        return f"({pr(t.args[0], idx)} ^ {t.val})"
    if t.op in ("exp", "log", "sqrt"):
        return f"(Real.{t.op} {pr(t.args[0], idx)})"
    if t.op == "log1p":
        return f"(Real.log (1 + {pr(t.args[0], idx)}))"
    if t.op == "abs":
        return f"|{pr(t.args[0], idx)}|"
    if t.op == "erf":
        return f"(Spec.erf {pr(t.args[0], idx)})"
    if t.op == "erfinv":
        return f"(Spec.erfinv {pr(t.args[0], idx)})"
    if t.op == "pi":
        return "Real.pi"
    if t.op == "sum":
        j = f"j{next(_fresh)}"
        return f"(∑ {j}, {pr(t.args[0], j)})"
    if t.op == "mean":
        j = f"j{next(_fresh)}"
        return f"((∑ {j}, {pr(t.args[0], j)}) / (n : ℝ))"
    if t.op == "var_":
        j, k = f"j{next(_fresh)}", f"j{next(_fresh)}"
        return f"((∑ {j}, ({pr(t.args[0], j)} - ((∑ {k}, {pr(t.args[0], k)}) / (n : ℝ))) ^ 2) / (n : ℝ))"
    if t.op == "max":
        j = f"j{next(_fresh)}"
        return f"(Spec.vmax (fun {j} => {pr(t.args[0], j)}))"
    if t.op == "mod":
        a, w = pr(t.args[0], idx), pr(t.args[1], idx)
        return f"({a} - {w} * (⌊{a} / {w}⌋ : ℝ))"
    if t.op in ("gt", "ge", "lt", "le"):
        return f"({pr(t.args[0], idx)} {dict(gt='>', ge='≥', lt='<', le='≤')[t.op]} {pr(t.args[1], idx)})"
    if t.op in ("and", "or"):
        return f"({pr(t.args[0], idx)} {'∧' if t.op == 'and' else '∨'} {pr(t.args[1], idx)})"
    if t.op == "not":
        return f"(¬ {pr(t.args[0], idx)})"
    if t.op == "ite":
        return f"(if {pr(t.args[0], idx)} then {pr(t.args[1], idx)} else {pr(t.args[2], idx)})"
    if t.op == "call":
        args = " ".join((f"(fun k => {pr(x, 'k')})" if x.shape == "v" else pr(x, idx)) for x in t.args)
        if t.shape == "v":
            return f"({t.name} {args} {idx})"
        return f"({t.name} {args})"
    raise NotTranslatable(t.op)


CMP_OPS = {ast.Gt: "gt", ast.GtE: "ge", ast.Lt: "lt", ast.LtE: "le"}
PROP_OPS = ("gt", "ge", "lt", "le", "and", "or", "not")
RECORDS = []
IMPL = ["self.log_likelihood", "self.log_prior", "self.log_q", "self.beta"]
KNOWN_CALLS = {
    "logsumexp": ("logsumexp", "s", []),
    "effective_sample_size": ("effective_sample_size", "s", []),
    "self.unnormalized_log_weights": ("unnormalized_log_weights", "v", IMPL),
    "self.log_weights": ("log_weights", "v", IMPL),
}


class Tr:
    def __init__(self, front: Front, module, cls, env, elementwise=False, dropped=None, depth=0):
        self.front, self.module, self.cls = front, module, cls
        self.env = dict(env)
        self.elementwise = elementwise
        self.out = {}
        self.ret = None
        self.dropped = dropped if dropped is not None else []
        self.depth = depth

    # ---- statements
    def run(self, fn, only=None):
        for st in fn.body:
            if self.ret is not None:
                break
            if isinstance(st, ast.Expr) and isinstance(st.value, ast.Constant):
                continue
            if isinstance(st, (ast.Import, ast.ImportFrom)):
                continue
            if isinstance(st, ast.Assign):
                tg = st.targets[0]
                if only is not None and not (isinstance(tg, ast.Name) and tg.id in only):
                    continue
                v = self.e(st.value)
                if v is None:
                    continue
                self.assign(tg, v)
            elif isinstance(st, ast.AugAssign) and isinstance(st.target, ast.Name):
                if only is not None and st.target.id not in only:
                    continue
                op = {ast.Add: "add", ast.Sub: "sub", ast.Mult: "mul", ast.Div: "div"}.get(type(st.op))
                if op is None:
                    raise NotTranslatable("augmented assignment operator")
                self.env[st.target.id] = mk(op, self.e(st.target), self.e(st.value))
            elif isinstance(st, ast.Return):
                if only is not None:
                    continue
                self.ret = self.e(st.value)
            elif isinstance(st, ast.If):
                if only is not None:
                    continue
                self.dropped.append("if " + ast.unparse(st.test) + ": ... (side condition recorded)")
            elif isinstance(st, ast.Expr) and isinstance(st.value, ast.Call) and ast.unparse(st.value.func).startswith("logger."):
                continue
            else:
                if only is not None:
                    continue
                raise NotTranslatable(f"statement {type(st).__name__} at line {st.lineno}")
        return self

    def assign(self, tg, v):
        if isinstance(tg, ast.Name):
            self.env[tg.id] = v
        elif isinstance(tg, ast.Attribute) and isinstance(tg.value, ast.Name) and tg.value.id == "self":
            self.env["self." + tg.attr] = v
            self.out[tg.attr] = v
        elif isinstance(tg, ast.Tuple):
            if not isinstance(v, list) or len(v) != len(tg.elts):
                raise NotTranslatable("tuple unpack")
            for t, x in zip(tg.elts, v):
                self.assign(t, x)
        else:
            raise NotTranslatable("assignment target")

    # ---- expressions
    def e(self, n):
        if isinstance(n, ast.Constant):
            if n.value is None:
                return None
            return lit(n.value)
        if isinstance(n, ast.Name):
            if n.id in self.env:
                return self.env[n.id]
            raise NotTranslatable("name " + n.id)
        if isinstance(n, ast.Attribute):
            k = ast.unparse(n)
            if k in self.env:
                return self.env[k]
            if k in ("math.pi", "np.pi"):
                return T("pi")
            raise NotTranslatable("attribute " + k)
        if isinstance(n, ast.Tuple):
            return [self.e(x) for x in n.elts]
        if isinstance(n, ast.UnaryOp) and isinstance(n.op, ast.USub):
            return mk("neg", self.e(n.operand))
        if isinstance(n, ast.BinOp) and not isinstance(n.op, (ast.BitAnd, ast.BitOr)):
            a, b = self.e(n.left), self.e(n.right)
            op = {ast.Add: "add", ast.Sub: "sub", ast.Mult: "mul", ast.Div: "div", ast.Mod: "mod"}.get(type(n.op))
            if a is None or b is None:
                raise NotTranslatable("arithmetic on None")
            # broadcasting a per-batch constant over ones/zeros
            if op == "mul" and (a.op == "ones" or b.op == "ones"):
                return b if a.op == "ones" else a
            if op:
                return mk(op, a, b)
            if isinstance(n.op, ast.Pow):
                if b.op != "lit" or not isinstance(b.val, int):
                    raise NotTranslatable("non-literal power")
                t = mk("pow", a)
                t.val = b.val
                return t
            raise NotTranslatable("binop " + type(n.op).__name__)
        if isinstance(n, ast.Compare) and len(n.ops) == 1 and type(n.ops[0]) in CMP_OPS:
            return mk(CMP_OPS[type(n.ops[0])], self.e(n.left), self.e(n.comparators[0]))
        if isinstance(n, ast.BinOp) and isinstance(n.op, (ast.BitAnd, ast.BitOr)):
            a, b = self.e(n.left), self.e(n.right)
            if a.op in PROP_OPS and b.op in PROP_OPS:
                return mk("and" if isinstance(n.op, ast.BitAnd) else "or", a, b)
            raise NotTranslatable("bitwise operator on non-boolean terms")
        if isinstance(n, ast.UnaryOp) and isinstance(n.op, ast.Invert):
            a = self.e(n.operand)
            if a.op in PROP_OPS:
                return mk("not", a)
            raise NotTranslatable("~ on a non-boolean term")
        if isinstance(n, ast.IfExp):
            # `x if cond else nan` guards (mean_w != 0): keep the main branch, record the side condition
            self.dropped.append("conditional expression: kept `" + ast.unparse(n.body)[:40] + "` under side condition " + ast.unparse(n.test))
            return self.e(n.body)
        if isinstance(n, ast.Call):
            return self.call(n)
        raise NotTranslatable(ast.dump(n)[:80])

    def call(self, n):
        f = ast.unparse(n.func)
        base = f.split(".")[-1]
        if f in ("asarray", "xp.asarray", "self.xp.asarray", "to_numpy", "samples.array_to_namespace", "self.array_to_namespace", "copy_array"):
            return self.e(n.args[0])
        if f == "array_namespace":
            return None
        is_ns0 = isinstance(n.func, ast.Attribute) and ast.unparse(n.func.value) in ("xp", "np", "self.xp", "math", "sliced.xp")
        if is_ns0 and base == "ones":
            return T("ones")
        if is_ns0 and base == "zeros":
            return lit(0)
        if f == "len":
            return T("n")
        kc = KNOWN_CALLS.get(f)
        if kc is not None and not self.elementwise and all(k in self.env for k in kc[2]):
            lname, shape, implicit = kc
            a = [self.env[k] for k in implicit] + [self.e(x) for x in n.args]
            return T("call", a, shape, name=lname)
        args = [self.e(a) for a in n.args]
        kws = {k.arg: self.e(k.value) for k in n.keywords if k.arg not in ("device", "dtype", "axis")}
        root = f.split(".")[0]
        is_ns = isinstance(n.func, ast.Attribute) and ast.unparse(n.func.value) in ("xp", "np", "self.xp", "math", "sliced.xp")
        if f == "math.log" or (is_ns and base in ("exp", "log", "log1p", "sqrt", "abs")):
            return mk(base if base != "log" or f != "math.log" else "log", args[0])
        if is_ns and base == "divide":
            return mk("div", *args)
        if is_ns and base == "where" and len(args) == 3 and args[0].op in PROP_OPS:
            return mk("ite", *args)
        if is_ns and base == "ones":
            return T("ones")
        if is_ns and base == "zeros":
            return lit(0)
        if f == "len":
            return T("n")
        if f in ("erf", "erfinv"):
            return mk(f, args[0])
        if f == "math.sqrt":
            return mk("sqrt", args[0])
        if base in ("sum", "mean", "var", "max"):
            x = args[0] if is_ns else self.e(n.func.value)
            if base == "sum":
                if self.elementwise:
                    # .sum(-1) / .sum() over the coordinate axis in the element view: prints as the per-coordinate term (diagonal-Jacobian
                    # lemma) and, in the `_dim` twin of a log-Jacobian definition, as d * term (d coordinates with the same value)
                    return T("dsum", (x,), "s")
                if x.shape == "s":
                    return x
                return T("sum", (x,), "s")
            if base == "mean":
                return T("mean", (x,), "s")
            if base == "var":
                return T("var_", (x,), "s")
            return T("max", (x,), "s")
        if base == "flatten" and not is_ns:
            return self.e(n.func.value)
        if is_ns and base == "clip":
            srcs = [ast.unparse(a) for a in n.args] + [f"{k.arg}={ast.unparse(k.value)}" for k in n.keywords]
            self.dropped.append("clip(" + ", ".join(srcs) + ") taken as the identity under the side condition that its argument lies between the two bounds")
            return args[0]
        # calls to other repo functions: inlined by translating the callee
        callee = None
        if isinstance(n.func, ast.Name):
            callee = self.front.module_function(self.module, n.func.id)
            if callee is None:
                imp = self.front.imports.get(self.module, {}).get(n.func.id, "")
                if imp.startswith("."):
                    callee = self.front.module_function(imp.split(":")[0].lstrip("."), n.func.id)
            bound_self = None
        elif isinstance(n.func, ast.Attribute) and isinstance(n.func.value, ast.Name) and n.func.value.id == "self" and self.cls:
            callee = self.front.find_method(self.cls, n.func.attr) or self.front.find_property(self.cls, n.func.attr)
            bound_self = True
        if callee is not None:
            if self.depth > 4:
                raise NotTranslatable("call depth")
            from .front import signature
            pos, defaults, _, _, _ = signature(callee.node)
            env = {k: v for k, v in self.env.items() if k.startswith("self.")} if bound_self else {}
            if bound_self:
                pos = pos[1:]
            for p, a in zip(pos, args):
                env[p] = a
            for k, v in kws.items():
                env[k] = v
            for p in pos:
                if p not in env:
                    d = defaults.get(p)
                    env[p] = lit(d.value) if isinstance(d, ast.Constant) and d.value is not None else None
            sub = Tr(self.front, callee.module, callee.cls, {k: v for k, v in env.items() if v is not None}, self.elementwise, self.dropped, self.depth + 1)
            sub.run(callee.node)
            return sub.ret
        raise NotTranslatable("call " + f)


def exp_args(t, idx="i", out=None):
    """every exp(e) in the term with the index variable its argument depends on"""
    out = out if out is not None else []
    if isinstance(t, list):
        for x in t:
            exp_args(x, idx, out)
        return out
    if t.op == "exp":
        out.append((t.args[0], idx))
    if t.op in ("sum", "mean", "var_", "max"):
        for a in t.args:
            exp_args(a, "j", out)
        return out
    if t.op == "call":
        for a in t.args:
            exp_args(a, "k" if a.shape == "v" else idx, out)
        return out
    for a in t.args:
        exp_args(a, idx, out)
    return out


STABLE = {"logsumexp", "effective_sample_size", "cw_log_evidence", "cw_log_evidence_error", "cw_effective_sample_size", "scaled_weights",
          "log_evidence_ratio", "log_evidence_ratio_variance", "log_weights", "resample_p"}
RANGE_TACTIC = """  first
  | exact sub_nonpos.mpr (Spec.vmax_ge _ _)
  | exact range_sub_vmax _ _ _ rfl
  | exact range_sub_logsumexp _ _
  | exact range_ess_arg _
  | exact range_ess_arg' _
  | (have := Spec.vmax_ge _ _; simp only [] at this; linarith)
"""


def range_theorems(records):
    """records: (def name, params, T) -> Lean text: one generated statement per exp() argument of a stable output"""
    out = []
    for name, params, t in records:
        if name not in STABLE:
            continue
        seen = set()
        for k, (arg, idx) in enumerate(exp_args(t)):
            txt = pr(arg, idx)
            import re as _re
            norm = _re.sub(r"j\d+", "j", txt)
            if norm in seen:
                continue
            seen.add(norm)
            ps = " ".join(f"({p} : {'Fin n → ℝ' if sh == 'v' else 'ℝ'})" for p, sh in params)
            bound = "Real.log (n : ℝ)" if name in ("effective_sample_size", "cw_effective_sample_size") else "0"
            out.append(f"-- C02 stability: argument #{k} of exp() in `{name}` cannot overflow\n"
                       f"theorem range_{name}_{k} {ps} ({idx} : Fin n) : {txt} ≤ {bound} := by\n{RANGE_TACTIC}")
    return "\n".join(out)


DIM_RECORDS = []


def dim_theorems(records):
    """For every element-wise log-Jacobian definition `f_lj` a twin `f_lj_dim d ...` is generated in which each sum over the coordinate axis
    prints as d * term (all d coordinates at the same value).  The generated statement `f_lj_dim d ... = d * f_lj ...` says that every
    additive part of the log-Jacobian is summed over the coordinates: a constant counted once per row instead of once per coordinate, which
    the scalar element view cannot see, breaks it."""
    out = []
    for name, params in records:
        ps = " ".join(f"({p} : {'Fin n → ℝ' if sh == 'v' else 'ℝ'})" for p, sh in params)
        args = " ".join(p for p, _ in params)
        out.append(f"-- C04 C03 every term of the log-Jacobian `{name}` is accumulated over the coordinate axis (d coordinates contribute d times the per-coordinate term)\n"
                   f"theorem hom_{name} (d : ℝ) {ps} : {name}_dim d {args} = d * {name} {args} := by\n  simp only [{name}_dim, {name}]\n  try ring")
    return "\n".join(out)


def emit(name, params, t, shape_out):
    ps = " ".join(f"({p} : {'Fin n → ℝ' if sh == 'v' else 'ℝ'})" for p, sh in params)
    if shape_out == "v":
        return f"noncomputable def {name} {ps} : Fin n → ℝ := fun i => {pr(t, 'i')}"
    if shape_out == "p":
        return f"def {name} {ps} (i : Fin n) : Prop := {pr(t, 'i')}"
    return f"noncomputable def {name} {ps} : ℝ := {pr(t)}"


def generate(front: Front):
    """-> (lean text of namespace Gen, list of (def name, source function, hash), dropped notes, errors)"""
    out, index, errors = [], [], []
    dropped_all = {}
    RECORDS.clear()
    DIM_RECORDS.clear()

    def fn(qual):
        return front.get(qual)

    def do(label, qual, env, outputs, elementwise=False, only=None, cls=None):
        """outputs: list of (lean name, params, selector(tr) -> T, shape)"""
        global _fresh
        try:
            info = fn(qual)
            dropped = []
            tr = Tr(front, info.module, info.cls, env, elementwise, dropped)
            tr.run(info.node, only=only)
            for name, params, sel, shape in outputs:
                t = sel(tr)
                if t is None:
                    raise NotTranslatable(f"{name}: no value")
                out.append(emit(name, params, t, shape if shape else t.shape))
                if elementwise and name.endswith("_lj"):
                    PR_DIM[0] = True
                    try:
                        out.append(emit(name + "_dim", [("d", "s")] + list(params), t, shape if shape else t.shape))
                    finally:
                        PR_DIM[0] = False
                    DIM_RECORDS.append((name, params))
                RECORDS.append((name, params, t))
                index.append({"def": name, "function": qual, "source_hash": info.source_hash(), "lines": list(info.span)})
            dropped_all[qual] = dropped
        except (NotTranslatable, KeyError, IndexError, AttributeError, TypeError) as e:
            errors.append({"function": qual, "label": label, "error": f"{type(e).__name__}: {e}", "defs": [o[0] for o in outputs]})

    V = lambda n: var(n, "v")   # noqa: E731
    S = lambda n: var(n, "s")   # noqa: E731
    # ---- utils
    do("logsumexp", "utils:logsumexp", {"x": V("x"), "axis": lit(0)}, [("logsumexp", [("x", "v")], lambda tr: tr.ret, "s")])
    do("ess", "utils:effective_sample_size", {"log_w": V("log_w")}, [("effective_sample_size", [("log_w", "v")], lambda tr: tr.ret, "s")])
    P3 = [("ll", "v"), ("lp", "v"), ("lq", "v")]
    envS = {"self.log_likelihood": V("ll"), "self.log_prior": V("lp"), "self.log_q": V("lq"), "self.x": V("X")}
    do("compute_weights", "samples:Samples.compute_weights", envS,
       [("cw_" + k, P3, (lambda tr, _k=k: tr.out[_k]), None) for k in
        ("log_w", "log_evidence", "weights", "evidence", "evidence_error", "log_evidence_error", "effective_sample_size")])
    envW = {"self.log_w": V("log_w"), "self.x": V("X"), "self.effective_sample_size": S("ess")}
    do("scaled_weights", "samples:Samples.scaled_weights", envW, [("scaled_weights", [("log_w", "v")], lambda tr: tr.ret, "v")])
    do("efficiency", "samples:Samples.efficiency", envW, [("efficiency", [("ess", "s")], lambda tr: tr.ret, "s")])
    envR = dict(envW)
    envR["log_u"] = V("log_u")
    do("rejection_sample", "samples:Samples.rejection_sample", envR, [("rs_accept", [("log_w", "v"), ("log_u", "v")], lambda tr: tr.env["accept"], "p")],
       only=("log_w", "accept"))
    envB = dict(envS)
    envB["self.beta"] = S("beta0")
    envB["beta"] = S("beta")
    PB = P3 + [("beta0", "s"), ("beta", "s")]
    do("log_p_t", "samples:SMCSamples.log_p_t", envB, [("log_p_t", P3 + [("beta", "s")], lambda tr: tr.ret, "v")])
    do("unnormalized_log_weights", "samples:SMCSamples.unnormalized_log_weights", envB, [("unnormalized_log_weights", PB, lambda tr: tr.ret, "v")])
    do("log_evidence_ratio", "samples:SMCSamples.log_evidence_ratio", envB, [("log_evidence_ratio", PB, lambda tr: tr.ret, "s")])
    do("log_evidence_ratio_variance", "samples:SMCSamples.log_evidence_ratio_variance", envB, [("log_evidence_ratio_variance", PB, lambda tr: tr.ret, "s")])
    do("log_weights", "samples:SMCSamples.log_weights", envB, [("log_weights", PB, lambda tr: tr.ret, "v")])
    do("resample.p", "samples:SMCSamples.resample", envB, [("resample_p", PB, lambda tr: tr.env["w"], "v")], only=("log_w", "w"))
    # ---- element-wise transforms (scalar element view)
    do("logit", "utils:logit", {"x": S("x"), "eps": lit(0)}, [("logit_y", [("x", "s")], lambda tr: tr.ret[0], "s"), ("logit_lj", [("x", "s")], lambda tr: tr.ret[1], "s")], elementwise=True)
    do("sigmoid", "utils:sigmoid", {"x": S("y")}, [("sigmoid_x", [("y", "s")], lambda tr: tr.ret[0], "s"), ("sigmoid_lj", [("y", "s")], lambda tr: tr.ret[1], "s")], elementwise=True)
    # periodic: attributes from __init__
    LU = [("lower", "s"), ("upper", "s")]

    def init_attrs(qual, env0, names):
        """defining expressions of the derived attributes __init__ computes from the given ones (`names` must translate; any *other*
        attribute assignment is taken along when it translates, so that a cached value introduced later is available to the methods)"""
        info = fn(qual)
        tr = Tr(front, info.module, info.cls, dict(env0), True, [])
        for st in info.node.body:
            if isinstance(st, ast.Assign) and len(st.targets) == 1 and isinstance(st.targets[0], ast.Attribute) \
                    and isinstance(st.targets[0].value, ast.Name) and st.targets[0].value.id == "self":
                attr = st.targets[0].attr
                if ("self." + attr) in env0:
                    continue                      # given (lower, upper, ...): the symbolic parameter stands for the stored value
                try:
                    v = tr.e(st.value)
                    tr.assign(st.targets[0], v)
                    tr.env["self." + attr] = v
                except (NotTranslatable, KeyError, IndexError, AttributeError, TypeError):
                    if attr in names:
                        raise
        return {("self." + k): v for k, v in tr.out.items()}

    try:
        envP = {"self.lower": S("lower"), "self.upper": S("upper"), "lower": S("lower"), "upper": S("upper")}
        envP.update(init_attrs("transforms:PeriodicTransform.__init__", envP, ("_width",)))
        envP["x"] = S("x")
        envP["y"] = S("y")
        do("periodic.forward", "transforms:PeriodicTransform.forward", envP, [("periodic_fwd", LU + [("x", "s")], lambda tr: tr.ret[0], "s"),
                                                                               ("periodic_fwd_lj", LU + [("x", "s")], lambda tr: tr.ret[1], "s")], elementwise=True)
        do("periodic.inverse", "transforms:PeriodicTransform.inverse", envP, [("periodic_inv", LU + [("y", "s")], lambda tr: tr.ret[0], "s"),
                                                                               ("periodic_inv_lj", LU + [("y", "s")], lambda tr: tr.ret[1], "s")], elementwise=True)
        envBd = {"self.lower": S("lower"), "self.upper": S("upper"), "lower": S("lower"), "upper": S("upper"), "xp": None}
        envBd = {k: v for k, v in envBd.items() if v is not None}
        envBd.update(init_attrs("transforms:BoundedTransform.__init__", envBd, ("_denom", "_scale_log_abs_det_jacobian")))
        envBd["self.eps"] = lit(0)
        envBd["x"] = S("x")
        envBd["y"] = S("y")
        do("to_unit_interval", "transforms:BoundedTransform.to_unit_interval", envBd, [("to_unit_y", LU + [("x", "s")], lambda tr: tr.ret[0], "s"),
                                                                                        ("to_unit_lj", LU + [("x", "s")], lambda tr: tr.ret[1], "s")], elementwise=True)
        do("from_unit_interval", "transforms:BoundedTransform.from_unit_interval", envBd, [("from_unit_x", LU + [("y", "s")], lambda tr: tr.ret[0], "s"),
                                                                                            ("from_unit_lj", LU + [("y", "s")], lambda tr: tr.ret[1], "s")], elementwise=True)
        do("LogitTransform.forward", "transforms:LogitTransform.forward", envBd, [("logitT_fwd", LU + [("x", "s")], lambda tr: tr.ret[0], "s"),
                                                                                   ("logitT_fwd_lj", LU + [("x", "s")], lambda tr: tr.ret[1], "s")], elementwise=True)
        do("LogitTransform.inverse", "transforms:LogitTransform.inverse", envBd, [("logitT_inv", LU + [("y", "s")], lambda tr: tr.ret[0], "s"),
                                                                                   ("logitT_inv_lj", LU + [("y", "s")], lambda tr: tr.ret[1], "s")], elementwise=True)
        do("ProbitTransform.forward", "transforms:ProbitTransform.forward", envBd, [("probitT_fwd", LU + [("x", "s")], lambda tr: tr.ret[0], "s"),
                                                                                     ("probitT_fwd_lj", LU + [("x", "s")], lambda tr: tr.ret[1], "s")], elementwise=True)
        do("ProbitTransform.inverse", "transforms:ProbitTransform.inverse", envBd, [("probitT_inv", LU + [("y", "s")], lambda tr: tr.ret[0], "s"),
                                                                                     ("probitT_inv_lj", LU + [("y", "s")], lambda tr: tr.ret[1], "s")], elementwise=True)
        MS = [("mean", "s"), ("std", "s")]
        envA = {"self._mean": S("mean"), "self._std": S("std"), "x": S("x"), "y": S("y")}
        # log_abs_det_jacobian is set by fit(): take its defining expression from there
        fit = fn("transforms:AffineTransform.fit")
        trf = Tr(front, fit.module, fit.cls, envA, True, [])
        for st in fit.node.body:
            if isinstance(st, ast.Assign) and isinstance(st.targets[0], ast.Attribute) and st.targets[0].attr == "log_abs_det_jacobian":
                trf.assign(st.targets[0], trf.e(st.value))
        envA["self.log_abs_det_jacobian"] = trf.out["log_abs_det_jacobian"]
        do("AffineTransform.forward", "transforms:AffineTransform.forward", envA, [("affine_fwd", MS + [("x", "s")], lambda tr: tr.ret[0], "s"),
                                                                                    ("affine_fwd_lj", MS + [("x", "s")], lambda tr: tr.ret[1], "s")], elementwise=True)
        do("AffineTransform.inverse", "transforms:AffineTransform.inverse", envA, [("affine_inv", MS + [("y", "s")], lambda tr: tr.ret[0], "s"),
                                                                                    ("affine_inv_lj", MS + [("y", "s")], lambda tr: tr.ret[1], "s")], elementwise=True)
    except (NotTranslatable, KeyError) as e:
        errors.append({"function": "transforms (attribute definitions)", "label": "init", "error": f"{type(e).__name__}: {e}"})
    text = "namespace Gen\nopen Spec\nvariable {n : ℕ} [NeZero n]\n\n" + "\n".join(out) + "\nend Gen\n"
    return text, index, dropped_all, errors
