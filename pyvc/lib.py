"""Registry of exact built-in models and *assumed* contracts of external functions.

Every handler that stands for an external library function records its name in
`explorer.assumed` when it is used, so the evidence lists exactly the assumed contracts a
proof relied on.  Handlers: h(interp, args, kwargs, node) -> value.
"""
from __future__ import annotations

import ast

import z3

from .engine import PathEnd, RaiseSig, Unsupported, Interp
from .values import (NONE, Arr, B, ClassRef, Closure, Fn, FuncRef, I, Mod, NoneV, Obj, Partial, PyDict, PyList, R, Row,
                     Str, Sym, SymList, Tup, Z, base_arr, const_arr, fresh, skey, to_int, to_real, uf, ELEM_SORT)

RS, IS, BS = z3.RealSort(), z3.IntSort(), z3.BoolSort()
Misc = z3.DeclareSort("Misc")

EXP = uf("exp", RS, RS)
LOG = uf("log", RS, RS)
SQRT = uf("sqrt", RS, RS)
POW = uf("pow", RS, RS, RS)
FMOD = uf("fmod", RS, RS, RS)
ABS = lambda x: z3.If(x >= 0, x, -x)  # noqa: E731
ERF = uf("erf", RS, RS)
ERFINV = uf("erfinv", RS, RS)
ISNAN = uf("isnan", RS, BS)          # over A-REAL no real is NaN; kept uninterpreted so that NaN guards are not vacuous
ISFINITE = uf("isfinite", RS, BS)


def assumed(i: Interp, name):
    i.path.ex.assumed.add(name)


def red(kind, a: Arr, sort=RS):
    """reduction as a constant keyed by the canonical key of the array"""
    return z3.Const(f"{kind}<{a.key}>", sort)


def ew(name, f, a: Arr, elem="real"):
    meta = dict(a.meta)
    if "lit" in meta:
        meta["lit"] = [f(t) for t in meta["lit"]]
    return Arr(a.n, elem, lambda i, _at=a.at, _f=f: _f(_at(i)), f"{name}({a.key})", meta, a.facts)


def as_arr_or_scalar(v):
    return v


class Registry:
    def __init__(self):
        self.handlers = {}
        self.consts = {}
        self.module_alias = {"array_api_compat.numpy": "xp.numpy", "numpy": "xp.numpy", "array_api_compat.torch": "xp.torch", "jax.numpy": "xp.jax", "torch": "xp.torch"}
        self.builtin_types = {"float", "int", "str", "dict", "list", "tuple", "bytes", "bool", "set", "Exception", "object"}
        self.import_ok = set()
        self.setattr_hooks = {}
        self.obj_props = {}
        self.context_handlers = {}
        install_builtins(self)
        install_arrays(self)
        install_random(self)

    def register(self, name, fn=None, **flags):
        def deco(f):
            for k, v in flags.items():
                setattr(f, k, v)
            self.handlers[name] = f
            return f
        return deco(fn) if fn is not None else deco

    # ----- hooks used by the interpreter
    def module_attr(self, i, mod: Mod, attr):
        if mod.name == "xp" or mod.name.startswith("xp."):
            generic = mod.name
            for spec in ("xp.numpy", "xp.torch", "xp.jax"):
                if generic == spec or generic.startswith(spec + "."):
                    generic = "xp" + generic[len(spec):]
            for key in (f"{mod.name}.{attr}", f"{generic}.{attr}", f"xp.{attr}"):
                if key in self.handlers:
                    h = self.handlers[key]
                    return Fn(h, key, bound=mod if getattr(h, "_wants_mod", False) else None)
            for key in (f"{mod.name}.{attr}", f"{generic}.{attr}", f"xp.{attr}"):
                if key in self.consts:
                    return self.consts[key]
            if attr == "__name__":
                return Str({"xp.numpy": "array_api_compat.numpy", "xp.torch": "array_api_compat.torch", "xp.jax": "jax.numpy"}.get(mod.name, mod.name))
        if mod.name == "logger" or mod.name.endswith("logging") or mod.name == "logging":
            return None
        return None

    def fmod(self, a, b):
        return FMOD(a, b)

    def pow(self, i, a, b):
        t = POW(a, b)
        # lemma instance (lean/Spec.lean: rpow_unit): 0 <= a <= 1 and b > 0  =>  0 <= a^b <= 1
        i.path.assume(z3.Implies(z3.And(a >= 0, a <= 1, b > 0), z3.And(t >= 0, t <= 1)), check=False)
        i.path.ex.assumed.add("lemma[rpow_unit: 0<=a<=1, r>0 => 0<=a^r<=1] (proved in lean/Spec.lean)")
        return t

    def fresh_elem(self, i, l: SymList):
        if l.elem == "real":
            return R(z3.Real(fresh(f"elem_{l.name}")))
        return Sym(z3.Const(fresh(f"elem_{l.name}"), Misc), "elem")

    def opaque_call(self, i, fv, args, kwargs, n):
        raise Unsupported(f"call of unknown external {fv.name} at line {getattr(n, 'lineno', '?')}")

    def value_call(self, i, fv, args, kwargs, n):
        return NotImplemented

    def value_attr(self, i, o, attr, n):
        if isinstance(o, Arr):
            key = f"arr.{attr}"
            if key in self.handlers:
                return Fn(self.handlers[key], key, bound=o)
            if attr == "at":
                return Obj("jax_at", {"arr": o})
            if attr == "T":
                return Arr(o.n, o.elem, o.at, f"T({o.key})", dict(o.meta, transposed=not o.meta.get("transposed", False)))
            if attr == "shape":
                if o.meta.get("zero_d"):
                    return Tup([])
                return Tup([I(o.n)] + ([Z(z3.Int(f"dims<{o.key}>"), "int")] if o.elem == "row" else []))
            if attr == "ndim":
                return I(2 if o.elem == "row" else 1)
            if attr == "size":
                return I(o.n)
            if attr == "dtype":
                return o.meta.get("dtype", Sym(z3.Const(f"dtype<{o.key}>", Misc), "dtype"))
        if isinstance(o, (PyList, SymList)):
            key = f"list.{attr}"
            if key in self.handlers:
                return Fn(self.handlers[key], key, bound=o)
        if isinstance(o, PyDict):
            key = f"dict.{attr}"
            if key in self.handlers:
                return Fn(self.handlers[key], key, bound=o)
        if isinstance(o, Str):
            key = f"str.{attr}"
            if key in self.handlers:
                return Fn(self.handlers[key], key, bound=o)
            if hasattr(str, attr) and not attr.startswith("__") and not o.v.startswith("<"):
                def generic(i2, a, k, n2, _attr=attr):
                    def conc(v):
                        if isinstance(v, Str):
                            return v.v
                        if isinstance(v, Z) and z3.is_int_value(z3.simplify(v.e)):
                            return z3.simplify(v.e).as_long()
                        if isinstance(v, Tup):
                            return tuple(conc(x) for x in v.items)
                        raise Unsupported(f"str.{_attr} with a symbolic argument")
                    r = getattr(a[0].v, _attr)(*[conc(x) for x in a[1:]], **{kk: conc(vv) for kk, vv in k.items()})

                    def wrap(r):
                        if isinstance(r, bool):
                            return B(r)
                        if isinstance(r, int):
                            return I(r)
                        if isinstance(r, str):
                            return Str(r)
                        if isinstance(r, (list, tuple)):
                            return PyList([wrap(x) for x in r]) if isinstance(r, list) else Tup([wrap(x) for x in r])
                        raise Unsupported(f"str.{_attr} result")
                    return wrap(r)
                return Fn(generic, key, bound=o)
        if isinstance(o, Sym):
            key = f"{o.tag}.{attr}"
            if key in self.handlers:
                return Fn(self.handlers[key], key, bound=o)
            if o.tag == "ns":
                if f"xp.{attr}" in self.handlers:
                    h = self.handlers[f"xp.{attr}"]
                    return Fn(h, f"xp.{attr}", bound=o if getattr(h, "_wants_mod", False) else None)
                if f"xp.{attr}" in self.consts:
                    return self.consts[f"xp.{attr}"]
                if attr == "__name__":
                    return Sym(z3.Const(f"name<{o.e.sexpr()}>", Misc), "str")
                if attr in ("int8", "int16", "int32", "int64", "uint8", "bool", "bool_"):
                    # a non-floating dtype object of an opaque namespace (only ever handed on as a `dtype=` argument)
                    return Sym(z3.Const(f"{attr}<{o.e.sexpr()}>", Misc), "dtype")
            if attr in o.info.get("attrs", {}):
                return o.info["attrs"][attr]
        if isinstance(o, Fn) and f"{o.name}.{attr}" in self.handlers and o.bound is None:
            return Fn(self.handlers[f"{o.name}.{attr}"], f"{o.name}.{attr}")
        if isinstance(o, (FuncRef, Closure, Fn)) and attr == "__name__":
            return Str(getattr(o, "name", "fn"))
        if isinstance(o, FuncRef) and attr == "calls":
            return Obj("CallHistory", {"args": PyList([]), "kwargs": PyList([])})
        if isinstance(o, Partial) and attr == "func":
            return o.fn
        return None

    def value_binop(self, i, op, a, b, n):
        return None

    def value_equal(self, i, a, b, n):
        return None

    def value_contains(self, i, container, item, n):
        if isinstance(container, Sym) and "contains" in container.info:
            return container.info["contains"](i, item, n)
        if isinstance(container, Obj) and f"{container.cls}.__contains__" in self.handlers:
            r = self.handlers[f"{container.cls}.__contains__"](i, [container, item], {}, n)
            return i.truth(r, n)
        return None

    def value_subscript(self, i, o, idx, n):
        if isinstance(o, Arr):
            return arr_getitem(i, o, idx, n)
        if isinstance(o, Obj):
            if o.cls in i.front.classes and i.front.find_method(o.cls, "__getitem__"):
                iv = idx
                if isinstance(idx, tuple) and idx[0] == "slice":
                    iv = Obj("slice", {"start": idx[1], "stop": idx[2], "step": idx[3]})
                return i.call_method(o, "__getitem__", [iv], {}, n)
            key = f"{o.cls}.__getitem__"
            if key in self.handlers:
                return self.handlers[key](i, [o, idx], {}, n)
        if isinstance(o, Str) and isinstance(idx, tuple):
            lo = i.concrete_int(idx[1], n)
            hi = i.concrete_int(idx[2], n)
            return Str(o.v[slice(lo, hi)])
        return None

    def value_setitem(self, i, o, idx, v, n):
        if isinstance(o, Obj):
            key = f"{o.cls}.__setitem__"
            if key in self.handlers:
                self.handlers[key](i, [o, idx, v], {}, n)
                return True
        if isinstance(o, Arr):
            h = self.handlers.get("arr.__setitem__")
            if h is not None:
                h(i, [o, idx, v], {}, n)
                return True
        if isinstance(o, PyList):
            k = i.concrete_int(idx, n)
            o.items[k] = v
            return True
        return False

    def value_delitem(self, i, o, idx, n):
        if isinstance(o, Obj):
            key = f"{o.cls}.__delitem__"
            if key in self.handlers:
                self.handlers[key](i, [o, idx], {}, n)
                return True
        return False

    def value_setattr(self, i, o, attr, v, n):
        if isinstance(o, Sym) and "setattr" in o.info:
            o.info["setattr"](i, o, attr, v, n)
            return True
        if isinstance(o, FuncRef):
            return True
        return False

    def value_iterate(self, i, it, n):
        if isinstance(it, Obj) and it.cls == "range":
            lo, hi = i.concrete_int(it.f["lo"], n), i.concrete_int(it.f["hi"], n)
            return [I(k) for k in range(lo, hi)]
        if isinstance(it, Str):
            return [Str(c) for c in it.v]
        if isinstance(it, Obj) and it.cls in ("H5Group", "H5File"):
            # h5py iterates a group's member names in alphabetical order ('10' sorts before '2')
            g = it.f["root"] if it.cls == "H5File" else it
            return [Str(nm) for nm in sorted(g.f["members"].d)]
        if isinstance(it, Arr) and "lit" in it.meta:
            return [Z(t, "bool" if it.elem == "bool" else "real") for t in it.meta["lit"]]
        return None

    def enter_context(self, i, cm, item):
        if isinstance(cm, Obj):
            if f"{cm.cls}.__enter__" in self.handlers:
                return self.handlers[f"{cm.cls}.__enter__"](i, [cm], {}, item)
            if cm.cls in i.front.classes and i.front.find_method(cm.cls, "__enter__"):
                return i.call_method(cm, "__enter__", [], {}, item)
        if isinstance(cm, (Sym, NoneV)) or (isinstance(cm, Obj) and cm.cls in ("nullctx",)):
            return cm
        raise Unsupported(f"with {cm!r}")

    def exit_context(self, i, cm, n, exc=None):
        if isinstance(cm, Obj):
            if f"{cm.cls}.__exit__" in self.handlers:
                self.handlers[f"{cm.cls}.__exit__"](i, [cm, NONE if exc is None else Str(exc.exc)], {}, n)
                return
            if cm.cls in i.front.classes and i.front.find_method(cm.cls, "__exit__"):
                e = NONE if exc is None else Str(exc.exc)
                i.call_method(cm, "__exit__", [e, e, e], {}, n)
                return

    # arrays
    def arr_binop(self, i, op, a, b, n):
        return arr_binop(i, op, a, b, n)

    def arr_unop(self, i, op, a, n):
        if op == "neg":
            return Arr(a.n, a.elem, lambda k, _at=a.at: -_at(k), f"neg({a.key})", a.meta)
        if op == "not":
            return Arr(a.n, "bool", lambda k, _at=a.at: z3.Not(_at(k)), f"not({a.key})", a.meta)
        raise Unsupported(op)

    def arr_compare(self, i, op, a, b, n):
        return arr_compare(i, op, a, b, n)

    def cut_for(self, i, n, it, spec):
        raise Unsupported("for-loop with invariant")


# ------------------------------------------------------------------------------ arrays
def scalar_term(v):
    if isinstance(v, Z):
        return to_real(v)
    raise Unsupported(f"array arithmetic with {v!r}")


OPSYM = {ast.Add: "+", ast.Sub: "-", ast.Mult: "*", ast.Div: "/", ast.Pow: "**", ast.Mod: "%"}


def arr_binop(i, op, a, b, n):
    if isinstance(op, (ast.BitOr, ast.BitAnd)) and isinstance(a, Arr) and isinstance(b, Arr) and a.elem == b.elem == "bool":
        f = z3.Or if isinstance(op, ast.BitOr) else z3.And
        return Arr(a.n, "bool", lambda k, _x=a.at, _y=b.at: f(_x(k), _y(k)), f"({a.key}{'|' if isinstance(op, ast.BitOr) else '&'}{b.key})", a.meta)
    sym = OPSYM.get(type(op))
    if sym is None:
        raise Unsupported(f"array op {type(op).__name__}")
    if (isinstance(a, Arr) and a.elem == "xreal") or (isinstance(b, Arr) and b.elem == "xreal") or (isinstance(a, Sym) and a.tag == "xreal") or (isinstance(b, Sym) and b.tag == "xreal"):
        return xreal_binop(i, sym, a, b, n)
    if isinstance(a, Arr) and a.elem not in ("real", "int") or isinstance(b, Arr) and b.elem not in ("real", "int"):
        if isinstance(a, Arr) and a.elem == "row" or isinstance(b, Arr) and b.elem == "row":
            return row_binop(i, sym, a, b, n)
        raise Unsupported(f"arithmetic on {a!r} {b!r}")

    def elem(v):
        if isinstance(v, Arr):
            return (lambda k, _at=v.at: z3.ToReal(_at(k))) if v.elem == "int" else v.at
        t = scalar_term(v)
        return lambda k: t

    ea, eb = elem(a), elem(b)
    if isinstance(a, Arr) and isinstance(b, Arr):
        # broadcasting a length-1 / 0-d array is not modelled: lengths must agree (side condition)
        i.path.prove(a.n == b.n, i.oname("array-shapes-agree", n), kind="shape")
    nn = a.n if isinstance(a, Arr) else b.n
    ka = a.key if isinstance(a, Arr) else skey(a)
    kb = b.key if isinstance(b, Arr) else skey(b)
    if sym in "+*" and ka > kb:
        kkey = f"({kb}{sym}{ka})"
    else:
        kkey = f"({ka}{sym}{kb})"
    meta = (a.meta if isinstance(a, Arr) else b.meta)
    if sym == "+":
        f = lambda k: ea(k) + eb(k)  # noqa: E731
    elif sym == "-":
        f = lambda k: ea(k) - eb(k)  # noqa: E731
    elif sym == "*":
        f = lambda k: ea(k) * eb(k)  # noqa: E731
    elif sym == "/":
        f = lambda k: ea(k) / eb(k)  # noqa: E731
    elif sym == "**":
        bb = z3.simplify(eb(z3.IntVal(0))) if not isinstance(b, Arr) else None
        if bb is not None and z3.is_rational_value(bb) and bb.denominator_as_long() == 1 and 0 <= bb.numerator_as_long() <= 4:
            kk = bb.numerator_as_long()

            def f(k, _kk=kk):
                r = z3.RealVal(1)
                for _ in range(_kk):
                    r = r * ea(k)
                return r
        else:
            f = lambda k: POW(ea(k), eb(k))  # noqa: E731
    elif sym == "%":
        f = lambda k: FMOD(ea(k), eb(k))  # noqa: E731
    out = Arr(nn, "real", f, kkey, meta)
    la = a.meta.get("lit") if isinstance(a, Arr) else None
    lb = b.meta.get("lit") if isinstance(b, Arr) else None
    if (la is not None or not isinstance(a, Arr)) and (lb is not None or not isinstance(b, Arr)) and (la is not None or lb is not None):
        m = len(la if la is not None else lb)
        if (la is None or len(la) == m) and (lb is None or len(lb) == m):
            out.meta = dict(out.meta, lit=[z3.simplify(f(z3.IntVal(j))) for j in range(m)])
    else:
        out.meta = {k: v for k, v in out.meta.items() if k != "lit"}
    return out


ROWOP = {}


def row_binop(i, sym, a, b, n):
    """arithmetic on 2-D arrays is kept abstract: a row-wise uninterpreted function"""
    ka = a.key if isinstance(a, Arr) else skey(a)
    kb = b.key if isinstance(b, Arr) else skey(b)
    name = f"row{sym}"
    nn = a.n if isinstance(a, Arr) and a.elem == "row" else b.n

    def side(v):
        if isinstance(v, Arr) and v.elem == "row":
            return v.at, Row
        if isinstance(v, Arr):
            # a vector over the parameter axis (e.g. lower bounds): a single abstract value
            c = z3.Const(f"vec<{v.key}>", Misc)
            return (lambda k: c), Misc
        t = scalar_term(v)
        return (lambda k: t), RS

    fa, sa = side(a)
    fb, sb = side(b)
    f = uf(f"{name}_{sa}_{sb}", sa, sb, Row)
    # the result is a two-dimensional array like the row operand (its namespace / dtype tokens), not like a broadcast vector or scalar
    meta = a.meta if (isinstance(a, Arr) and a.elem == "row") else (b.meta if isinstance(b, Arr) and b.elem == "row" else (a.meta if isinstance(a, Arr) else b.meta))
    return Arr(nn, "row", lambda k: f(fa(k), fb(k)), f"({ka}{sym}{kb})", meta)


def arr_compare(i, op, a, b, n):
    def elem(v):
        if isinstance(v, Arr):
            return v.at
        t = scalar_term(v)
        return lambda k: t
    ea, eb = elem(a), elem(b)
    nn = a.n if isinstance(a, Arr) else b.n
    sym = {ast.Lt: "<", ast.LtE: "<=", ast.Gt: ">", ast.GtE: ">=", ast.Eq: "==", ast.NotEq: "!="}[type(op)]
    f = {"<": lambda k: ea(k) < eb(k), "<=": lambda k: ea(k) <= eb(k), ">": lambda k: ea(k) > eb(k),
         ">=": lambda k: ea(k) >= eb(k), "==": lambda k: ea(k) == eb(k), "!=": lambda k: ea(k) != eb(k)}[sym]
    ka = a.key if isinstance(a, Arr) else skey(a)
    kb = b.key if isinstance(b, Arr) else skey(b)
    meta = dict(a.meta if isinstance(a, Arr) else b.meta)
    la = a.meta.get("lit") if isinstance(a, Arr) else None
    lb = b.meta.get("lit") if isinstance(b, Arr) else None
    if (la is not None or not isinstance(a, Arr)) and (lb is not None or not isinstance(b, Arr)) and (la is not None or lb is not None):
        m = len(la if la is not None else lb)
        meta["lit"] = [z3.simplify(f(z3.IntVal(j))) for j in range(m)]
    else:
        meta.pop("lit", None)
    meta.pop("rowcmp", None)
    if (isinstance(a, Arr) and a.elem == "row") or (isinstance(b, Arr) and b.elem == "row"):
        if sym not in ("==", "!="):
            raise Unsupported(f"ordering comparison of two-dimensional arrays ({sym})")
        # rows are compared as wholes: `==` is "equal in every column", `!=` is "different in some column" - i.e. the element-wise result already
        # reduced over the last axis by all() / any() respectively; any other use of the (really two-dimensional) result is outside the model
        meta["rowcmp"] = sym
    return Arr(nn, "bool", f, f"({ka}{sym}{kb})", meta)


SELN = uf("sel_len", Misc, IS, IS)           # length of a generic selection idx applied to an axis of length n
SELMAP = uf("sel_map", Misc, IS, IS)         # source row of result row i under selection idx
MASKSEL = {}


def take(a: Arr, nn, idxmap, key, facts=None):
    inherited = [(lambda k, _f=f: _f(idxmap(k))) for f in a.facts]
    return Arr(nn, a.elem, lambda k, _at=a.at: _at(idxmap(k)), key, a.meta, inherited + list(facts or []))


def arr_getitem(i, a: Arr, idx, n):
    """selection along the leading axis: every kind of index is `take` with an index map"""
    if isinstance(idx, Arr) and idx.elem == "int":
        return take(a, idx.n, idx.at, f"take({a.key},{idx.key})")
    if isinstance(idx, Arr) and idx.elem == "bool" and "lit" in idx.meta and "lit" in a.meta and len(idx.meta["lit"]) == len(a.meta["lit"]) \
            and all(z3.is_true(z3.simplify(m)) or z3.is_false(z3.simplify(m)) for m in idx.meta["lit"]):
        # literal array selected by a literal mask: computed exactly
        sel_terms = [t for t, m in zip(a.meta["lit"], idx.meta["lit"]) if z3.is_true(z3.simplify(m))]

        def at_sel(kk, _it=sel_terms, _b=(a.elem == "bool")):
            e = _it[-1] if _it else (z3.BoolVal(False) if _b else z3.RealVal(0))
            for j in range(len(_it) - 2, -1, -1):
                e = z3.If(kk == j, _it[j], e)
            return e
        return Arr(z3.IntVal(len(sel_terms)), a.elem, at_sel, f"litsel({a.key},{idx.key})", dict(a.meta, lit=sel_terms))
    if isinstance(idx, Arr) and idx.elem == "bool":
        i.path.ghost["last_mask"] = idx
        cnt = red("count", idx, IS)
        sel = uf(f"masksel<{idx.key}>", IS, IS)
        # assumed contract of boolean-mask selection: row k of the result is source row sel(k), a row where the mask is True
        fact = lambda k, _m=idx.at, _n=a.n: z3.And(_m(sel(k)), sel(k) >= 0, sel(k) < _n)  # noqa: E731
        i.path.assume(z3.And(cnt >= 0, cnt <= a.n), check=False)
        return take(a, cnt, lambda k: sel(k), f"take({a.key},mask:{idx.key})", [fact])
    if isinstance(idx, Obj) and idx.cls == "slice":
        idx = ("slice", idx.f["start"], idx.f["stop"], idx.f["step"])
    if isinstance(idx, tuple) and idx[0] == "slice":
        lo, hi, st = idx[1], idx[2], idx[3]
        if not isinstance(st, NoneV):
            raise Unsupported("strided slice of array")
        if isinstance(lo, NoneV) and isinstance(hi, NoneV):
            return Arr(a.n, a.elem, a.at, a.key, a.meta, a.facts)
        if isinstance(lo, NoneV):
            h = to_int(hi)
            # a[:h] for 0 <= h: length min(h, n)
            i.path.prove(h >= 0, i.oname("slice-stop-nonnegative(encoding)", n), kind="encoding-side-condition")
            nn = z3.If(h <= a.n, h, a.n)
            return Arr(nn, a.elem, a.at, f"{a.key}[:{z3.simplify(h).sexpr()}]", a.meta, a.facts)
        raise Unsupported("slice with lower bound on array")
    if isinstance(idx, Sym) and idx.tag == "index":
        return take(a, SELN(idx.e, a.n), lambda k: SELMAP(idx.e, k), f"take({a.key},{idx.e.sexpr()})")
    if isinstance(idx, Z):
        k = to_int(idx)
        if a.elem == "row":
            raise Unsupported("integer index into 2-D array")
        kk = z3.simplify(k)
        if z3.is_int_value(kk) and kk.as_long() < 0:
            k = a.n + k
        i.implicit_exception(z3.And(k >= 0, k < a.n), "IndexError", n)
        kk2 = z3.simplify(k)
        e = a.meta["lit"][kk2.as_long()] if ("lit" in a.meta and z3.is_int_value(kk2) and 0 <= kk2.as_long() < len(a.meta["lit"])) else a.at(k)
        return Z(e, {"real": "real", "bool": "bool", "int": "int"}[a.elem])
    if isinstance(idx, Tup) and "rows" in a.meta and len(idx.items) == 2 and isinstance(idx.items[0], Tup) \
            and idx.items[0].items and isinstance(idx.items[0].items[0], Str) and idx.items[0].items[0].v == "<slice>" \
            and all(isinstance(t, NoneV) for t in idx.items[0].items[1:]) and isinstance(idx.items[1], Z):
        # stack([...literal rows...])[:, j]: computed exactly
        j = z3.simplify(to_int(idx.items[1]))
        rows = a.meta["rows"]
        if z3.is_int_value(j) and all(0 <= j.as_long() < len(r.meta["lit"]) for r in rows):
            terms = [r.meta["lit"][j.as_long()] for r in rows]

            def at_col(kk, _it=terms):
                e = _it[-1] if _it else z3.RealVal(0)
                for jj in range(len(_it) - 2, -1, -1):
                    e = z3.If(kk == jj, _it[jj], e)
                return e
            return Arr(z3.IntVal(len(terms)), "real", at_col, f"col({a.key},{j})", {kk: v for kk, v in a.meta.items() if kk != "rows"} | {"lit": terms})
    if isinstance(idx, Tup):
        # x[..., mask] / x[:, mask]: column selection - abstract
        key = f"cols({a.key},{skey(idx.items[-1])})"
        f = uf("colsel", Row, Misc, Row)
        c = z3.Const(f"mask<{skey(idx.items[-1])}>", Misc)
        return Arr(a.n, "row", lambda k, _at=a.at: f(_at(k), c), key, a.meta)
    raise Unsupported(f"array index {idx!r}")


def install_arrays(reg: Registry):
    H = reg.register

    def unary(name, fn, elem="real"):
        @H(f"xp.{name}")
        def h(i, a, k, n, _fn=fn, _name=name, _elem=elem):
            assumed(i, f"xp.{_name}: element-wise over R")
            x = a[0]
            if isinstance(x, Arr):
                if x.elem == "row":
                    f = uf(f"row_{_name}", Row, Row if _elem == "real" else BS)
                    return Arr(x.n, "row" if _elem == "real" else "bool", lambda kk, _at=x.at: f(_at(kk)), f"{_name}({x.key})", x.meta)
                return ew(_name, _fn, x, _elem)
            if isinstance(x, Z):
                r = _fn(to_real(x))
                return Z(r, "real" if _elem == "real" else "bool")
            raise Unsupported(f"xp.{_name} of {x!r}")
        return h

    unary("exp", EXP)
    unary("log", LOG)
    unary("log1p", lambda x: LOG(1 + x))
    unary("sqrt", SQRT)
    unary("abs", ABS)
    unary("isnan", ISNAN, "bool")
    unary("isfinite", ISFINITE, "bool")
    _isnan_real = reg.handlers["xp.isnan"]

    @H("xp.isnan")
    def xp_isnan(i, a, k, n):
        x = a[0]
        if isinstance(x, Arr) and x.elem == "xreal":
            return Arr(x.n, "bool", lambda kk, _at=x.at: X.is_nan(_at(kk)), f"isnan({x.key})", x.meta)
        if isinstance(x, Sym) and x.tag == "xreal":
            return B(X.is_nan(x.e))           # a scalar of the extended reals (np.nan, +-inf)
        if isinstance(x, Z) and x.kind in ("real", "int"):
            return B(False)                   # a real number is not NaN (A-REAL)
        return _isnan_real(i, a, k, n)

    def _xinf_test(which):
        def h(i, a, k, n):
            x = a[0]
            if isinstance(x, Arr) and x.elem == "xreal":
                f = X.is_ninf if which == "neg" else X.is_pinf
                return Arr(x.n, "bool", lambda kk, _at=x.at: f(_at(kk)), f"is{which}inf({x.key})", x.meta)
            if isinstance(x, Arr):
                return Arr(x.n, "bool", lambda kk: z3.BoolVal(False), f"is{which}inf({x.key})", x.meta)        # reals are finite (A-REAL)
            raise Unsupported(f"xp.is{which}inf of {x!r}")
        return h
    reg.handlers["xp.isneginf"] = _xinf_test("neg")
    reg.handlers["xp.isposinf"] = _xinf_test("pos")

    unary("isinf", uf("isinf", RS, BS), "bool")
    _isinf_real = reg.handlers["xp.isinf"]

    @H("xp.isinf")
    def xp_isinf(i, a, k, n):
        x = a[0]
        if isinstance(x, Arr) and x.elem == "xreal":
            return Arr(x.n, "bool", lambda kk, _at=x.at: z3.Or(X.is_pinf(_at(kk)), X.is_ninf(_at(kk))), f"isinf({x.key})", x.meta)
        return _isinf_real(i, a, k, n)

    _isfinite_real = reg.handlers["xp.isfinite"]

    @H("xp.isfinite")
    def xp_isfinite(i, a, k, n):
        x = a[0]
        if isinstance(x, Arr) and x.elem == "xreal":
            return Arr(x.n, "bool", lambda kk, _at=x.at: X.is_fin(_at(kk)), f"isfinite({x.key})", x.meta)
        return _isfinite_real(i, a, k, n)
    reg.handlers["math.log"] = reg.handlers["xp.log"]
    reg.handlers["math.sqrt"] = reg.handlers["xp.sqrt"]
    reg.handlers["math.exp"] = reg.handlers["xp.exp"]
    reg.consts["math.pi"] = R(z3.Real("pi"))

    def reduction(name):
        @H(f"xp.{name}")
        def h(i, a, k, n, _name=name):
            x = a[0]
            if isinstance(x, Arr):
                assumed(i, f"xp.{_name}: a function of the array's values")
                if _name == "sum" and "symlist" in x.meta:
                    return R(x.meta["symlist"].sum)
                if x.elem == "bool" and _name == "sum":
                    c = red("count", x, IS)
                    i.path.assume(z3.And(c >= 0, c <= x.n))
                    return Z(c, "int")
                if x.elem == "row":
                    # reduction over a 2-D array: axis handling not modelled -> abstract
                    return Sym(z3.Const(f"{_name}<{x.key},{skey(k.get('axis', a[1] if len(a) > 1 else NONE))}>", Misc), "arrstat")
                t = red(_name, x)
                if _name in ("sum", "mean") and x.key.startswith("exp("):
                    # lemma instance (lean/Spec.lean: sum_exp_pos): a sum of exponentials over a non-empty index set is positive
                    i.path.assume(z3.Implies(x.n >= 1, t > 0), check=False)
                    i.path.ex.assumed.add("lemma[sum_exp_pos: 0 < sum_i exp(a_i) for n >= 1] (proved in lean/Spec.lean)")
                return R(t)
            if isinstance(x, Z):
                return x
            if isinstance(x, Sym):
                return R(z3.Real(f"{_name}<{x.e.sexpr()}>"))
            raise Unsupported(f"xp.{_name} of {x!r}")
        reg.handlers[f"arr.{name}"] = h
        return h

    for nm in ("sum", "mean", "var", "max", "min", "std"):
        reduction(nm)

    @H("arr.any")
    def arr_any(i, a, k, n):
        x = a[0]
        if "lit" in x.meta and x.elem == "bool":
            return B(z3.Or(list(x.meta["lit"]) + [z3.BoolVal(False)]))
        v = z3.Const(f"any<{x.key}>", BS)
        return B(v)

    @H("arr.all")
    def arr_all(i, a, k, n):
        x = a[0]
        if "lit" in x.meta and x.elem == "bool":
            return B(z3.And(list(x.meta["lit"]) + [z3.BoolVal(True)]))
        v = z3.Const(f"all<{x.key}>", BS)
        return B(v)

    @H("arr.flatten")
    def arr_flatten(i, a, k, n):
        x = a[0]
        if x.elem == "row":
            raise Unsupported("flatten of 2-D array")
        return x

    @H("arr.tolist")
    def arr_tolist(i, a, k, n):
        return Sym(z3.Const(f"tolist<{a[0].key}>", Misc), "pylist")

    @H("arr.item")
    def arr_item(i, a, k, n):
        x = a[0]
        return Z(x.at(z3.IntVal(0)), "real" if x.elem == "real" else x.elem)

    @H("arr.reshape")
    def arr_reshape(i, a, k, n):
        return a[0]

    @H("arr.copy")
    def arr_copy(i, a, k, n):
        return a[0]

    @H("xp.zeros")
    def zeros(i, a, k, n):
        assumed(i, "xp.zeros/ones: constant arrays")
        i.path.event("alloc", "zeros", k.get("dtype", NONE))
        return const_arr(z3.RealVal(0), to_int(a[0]))

    @H("xp.ones")
    def ones(i, a, k, n):
        assumed(i, "xp.zeros/ones: constant arrays")
        i.path.event("alloc", "ones", k.get("dtype", NONE))
        return const_arr(z3.RealVal(1), to_int(a[0]))

    def ambient_random(i, a, k, n):
        # xp.rand / xp.randn / torch.rand...: draws from the library's process-global generator, not from a generator object the caller supplied
        assumed(i, "xp.rand / xp.randn: draw from the library's process-global random generator")
        i.path.event("ambient.random", n)
        m = to_int(a[0]) if a and isinstance(a[0], Z) else z3.Int(fresh("n_rand"))
        return base_arr(fresh("global_random_draws"), "real", m)
    for _nm in ("rand", "randn", "rand_like", "randn_like", "randperm"):
        reg.handlers[f"xp.{_nm}"] = ambient_random

    @H("xp.get_default_dtype")
    def get_default_dtype(i, a, k, n):
        return Sym(z3.Const("namespace_default_dtype", Misc), "dtype")

    @H("xp.full")
    def full(i, a, k, n):
        return const_arr(to_real(a[1]), to_int(a[0]))

    @H("xp.full_like")
    def full_like(i, a, k, n):
        x, v = a[0], a[1]
        if isinstance(v, Sym) and v.tag == "xreal":
            return Arr(x.n, "xreal", lambda kk, _v=v.e: _v, f"full_like({x.key},{skey(v)})", x.meta)
        if x.elem == "xreal":
            t = X.fin(to_real(v))
            return Arr(x.n, "xreal", lambda kk: t, f"full_like({x.key},{skey(v)})", x.meta)
        return const_arr(to_real(v), x.n)

    @H("xp.zeros_like")
    def zeros_like(i, a, k, n):
        return full_like(i, [a[0], R(0.0)], k, n)

    def _reduce_bool(i, a, k, n, name):
        x = a[0]
        if not isinstance(x, Arr):
            raise Unsupported(f"xp.{name} of {x!r}")
        ax = k.get("axis", a[1] if len(a) > 1 else NONE)
        rc = x.meta.get("rowcmp")
        if not isinstance(ax, NoneV):
            # reduction over the last axis of a row-wise comparison: any(x != y, axis=-1) is "the rows differ", all(x == y, axis=-1) "the rows are equal"
            if rc == {"any": "!=", "all": "=="}[name] and isinstance(ax, Z) and z3.is_int_value(z3.simplify(ax.e)) and z3.simplify(ax.e).as_long() in (-1, 1):
                return Arr(x.n, "bool", x.at, f"{name}_last_axis({x.key})", {kk: v for kk, v in x.meta.items() if kk != "rowcmp"})
            raise Unsupported(f"xp.{name} with axis on {x!r}")
        if rc is not None and rc != {"any": "!=", "all": "=="}[name]:
            raise Unsupported(f"xp.{name} of an element-wise {rc} of two-dimensional arrays")
        return B(z3.Const(f"{name}<{x.key}>", BS))

    @H("xp.all")
    def xp_all(i, a, k, n):
        return _reduce_bool(i, a, k, n, "all")

    @H("xp.any")
    def xp_any(i, a, k, n):
        return _reduce_bool(i, a, k, n, "any")

    @H("xp.stack")
    def xp_stack(i, a, k, n):
        parts = a[0].items if isinstance(a[0], (PyList, Tup)) else None
        if parts is not None and parts and all(isinstance(t, Arr) and "lit" in t.meta and t.elem == "real" for t in parts):
            rows = [z3.Const(fresh("stack_row"), Row) for _ in parts]

            def at(kk, _r=rows):
                e = _r[-1]
                for j in range(len(_r) - 2, -1, -1):
                    e = z3.If(kk == j, _r[j], e)
                return e
            return Arr(z3.IntVal(len(parts)), "row", at, "stack(" + ",".join(t.key for t in parts) + ")", {"rows": list(parts)})
        raise Unsupported("xp.stack of non-literal arrays")

    @H("xp.concatenate")
    def concatenate(i, a, k, n):
        assumed(i, "xp.concatenate(axis=0): rows of the parts in order")
        parts = i.iterate(a[0], n)
        out = parts[0]
        for p in parts[1:]:
            if isinstance(out, NoneV) or isinstance(p, NoneV):
                i.implicit_exception(False, "TypeError", n)
                raise PathEnd()
            o, q = out, p
            if o.elem != q.elem:
                raise Unsupported("concatenate of different element kinds")
            fo, fq, on = list(o.facts), list(q.facts), o.n
            facts = [lambda kk, _fo=fo, _fq=fq, _on=on: z3.If(kk < _on, z3.And([f(kk) for f in _fo] + [z3.BoolVal(True)]),
                                                                z3.And([f(kk - _on) for f in _fq] + [z3.BoolVal(True)]))]
            out = Arr(o.n + q.n, o.elem, lambda kk, _on=o.n, _oa=o.at, _qa=q.at: z3.If(kk < _on, _oa(kk), _qa(kk - _on)),
                      f"concat({o.key},{q.key})", o.meta, facts)
        return out

    @H("xp.where")
    def where(i, a, k, n):
        c, x, y = a
        if any((isinstance(v, Arr) and v.elem == "xreal") or (isinstance(v, Sym) and v.tag == "xreal") for v in (x, y)):
            ex, _ = xelem(x)
            ey, _ = xelem(y)
            return Arr(c.n, "xreal", lambda kk, _ca=c.at: z3.If(_ca(kk), ex(kk), ey(kk)), f"where({c.key},{skey(x)},{skey(y)})", c.meta)

        def el(v):
            if isinstance(v, Arr):
                return v.at
            t = to_real(v)
            return lambda kk: t
        ex, ey = el(x), el(y)
        return Arr(c.n, "real", lambda kk, _ca=c.at: z3.If(_ca(kk), ex(kk), ey(kk)), f"where({c.key},{skey(x)},{skey(y)})", c.meta)

    @H("xp.clip")
    def clip(i, a, k, n):
        x, lo, hi = a
        lo_t, hi_t = to_real(lo), to_real(hi)
        f = lambda v: z3.If(v < lo_t, lo_t, z3.If(v > hi_t, hi_t, v))  # noqa: E731
        if isinstance(x, Arr):
            if x.elem == "row":
                g = uf("row_clip", Row, RS, RS, Row)
                return Arr(x.n, "row", lambda kk, _at=x.at: g(_at(kk), lo_t, hi_t), f"clip({x.key},{skey(lo)},{skey(hi)})", x.meta)
            return ew(f"clip[{skey(lo)},{skey(hi)}]", f, x)
        return R(f(to_real(x)))

    @H("xp.divide")
    def divide(i, a, k, n):
        return i.binop(ast.Div(), a[0], a[1], n)

    def xp_copy(i, a, k, n):
        assumed(i, "xp.copy / xp.clone: a new array object with the same elements (later in-place updates of the copy do not reach the original)")
        x = a[0]
        if isinstance(x, Arr):
            return Arr(x.n, x.elem, x.at, x.key, dict(x.meta), list(x.facts))
        return x
    reg.handlers["xp.copy"] = xp_copy
    reg.handlers["xp.clone"] = xp_copy

    @H("xp.squeeze")
    def xp_squeeze(i, a, k, n):
        # removes axes of length one: a one-dimensional array with exactly one element becomes a 0-d array (a scalar in all but name)
        x = a[0]
        if isinstance(x, Arr) and x.elem != "row" and not k and len(a) == 1:
            if i.path.branch(x.n == 1):
                return Arr(z3.IntVal(1), x.elem, x.at, f"squeeze0d({x.key})", dict(x.meta, zero_d=True))
            return x
        raise Unsupported(f"xp.squeeze of {type(x).__name__} at line {getattr(n, 'lineno', '?')}")

    @H("arr.item")
    def arr_item(i, a, k, n):
        x = a[0]
        if isinstance(x, Arr) and x.elem in ("real", "int") and (x.meta.get("zero_d") or z3.is_true(z3.simplify(x.n == 1))):
            e = x.at(z3.IntVal(0))
            return R(e) if x.elem == "real" else I(e)
        raise Unsupported(f".item() of {type(x).__name__} at line {getattr(n, 'lineno', '?')}")

    @H("xp.to_device")
    def xp_to_device(i, a, k, n):
        assumed(i, "xp.to_device: moves an array to a device; the elements are unchanged")
        return a[0]

    @H("xp.atleast_2d")
    def atleast_2d(i, a, k, n):
        x = a[0]
        if isinstance(x, Arr) and x.meta.get("single_point"):
            # a single un-batched point (shape (D,)): becomes a batch of one row; its length as a 1-d array was D, as a batch it is 1
            row = z3.Const(f"row_of<{x.key}>", Row)
            meta = {kk: v for kk, v in x.meta.items() if kk != "single_point"}
            return Arr(z3.IntVal(1), "row", lambda kk, _r=row: _r, f"atleast_2d({x.key})", meta)
        return x

    @H("xp.atleast_1d")
    def atleast_1d(i, a, k, n):
        return a[0]

    @H("xp.asarray")
    def xp_asarray(i, a, k, n):
        assumed(i, "xp.asarray: value-preserving conversion")
        x = a[0]
        if isinstance(x, SymList):
            return Arr(x.len, "real", uf(f"at_list_{x.name}", IS, RS), f"aslist({x.name}#{id(x)})", {"symlist": x})
        if isinstance(x, (Arr, Z)):
            return x
        if isinstance(x, (PyList, Tup)):
            items = x.items
            if all(isinstance(t, Z) for t in items):
                boolean = bool(items) and all(t.kind == "bool" for t in items)
                terms = [t.e if boolean else to_real(t) for t in items]

                def at(kk, _it=terms, _b=boolean):
                    e = _it[-1] if _it else (z3.BoolVal(False) if _b else z3.RealVal(0))
                    for j in range(len(_it) - 2, -1, -1):
                        e = z3.If(kk == j, _it[j], e)
                    return e
                return Arr(z3.IntVal(len(items)), "bool" if boolean else "real", at, "lit(" + ",".join(skey(t) for t in items) + ")", {"lit": terms})
            return Sym(z3.Const(fresh("arr_of_list"), Misc), "arr_opaque")
        if isinstance(x, Sym) and x.tag == "index" and not isinstance(k.get("dtype", NONE), NoneV):
            # converting an opaque index to a *fixed* dtype is not value-preserving for every kind of index (a list of booleans turned into
            # integers selects positions 0 / 1 instead of the masked rows): the result is a different selection unless proved otherwise
            return Sym(z3.Const(fresh("index_cast_to_fixed_dtype"), Misc), "index")
        if isinstance(x, Sym):
            return x
        raise Unsupported(f"xp.asarray of {x!r}")

    reg.handlers["xp.array"] = xp_asarray
    reg.consts["xp.nan"] = Sym(X.NAN, "xreal")
    reg.consts["xp.inf"] = Sym(X.PINF, "xreal")

    @H("arr.__setitem__")
    def arr_setitem(i, a, k, n):
        """x[mask] = y : in place on NumPy/Torch; raises TypeError on (immutable) JAX arrays - assumed contract, both outcomes explored"""
        x, idx, y = a
        assumed(i, "x[mask] = y assigns the masked elements in place (NumPy, Torch) or raises TypeError (JAX arrays are immutable)")
        if i.path.choose(2, "setitem-immutable") == 1:
            from .engine import RaiseSig
            raise RaiseSig("TypeError", n)
        masked_assign(x, idx, y, inplace=True)
        return NONE

    def masked_assign(x, idx, y, inplace):
        if isinstance(idx, Tup):
            # x[:, mask] = y : column assignment on a 2-D array - abstract row-wise function
            f = uf("setcols", Row, Misc, Row, Row) if isinstance(y, Arr) and y.elem == "row" else uf("setcols_v", Row, Misc, Misc, Row)
            c = z3.Const(f"mask<{skey(idx.items[-1])}>", Misc)
            old_at = x.at
            if isinstance(y, Arr) and y.elem == "row":
                new_at = lambda kk: f(old_at(kk), c, y.at(kk))  # noqa: E731
            else:
                yc = z3.Const(f"val<{skey(y)}>", Misc)
                new_at = lambda kk: f(old_at(kk), c, yc)  # noqa: E731
            key = f"setcols({x.key},{skey(idx.items[-1])},{skey(y)})"
        else:
            if not (isinstance(idx, Arr) and idx.elem == "bool"):
                raise Unsupported("masked assignment with a non-boolean index")
            old_at = x.at
            facts = list(x.facts)
            if isinstance(y, Arr):
                # scatter: the k-th True position receives y[k]; rank/sel are mutually inverse on the True positions
                sel = uf(f"masksel<{idx.key}>", IS, IS)
                rank = uf(f"maskrank<{idx.key}>", IS, IS)
                ya = y.at if x.elem != "xreal" else xelem(y)[0]
                ey = lambda kk, _ya=ya: _ya(rank(kk))  # noqa: E731
                facts.append(lambda kk, _ia=idx.at: z3.Implies(_ia(kk), sel(rank(kk)) == kk))
                facts += [(lambda kk, _f=f, _ia=idx.at: z3.Implies(_ia(kk), _f(rank(kk)))) for f in y.facts]
            elif x.elem == "xreal":
                ey, _ = xelem(y)
            else:
                ty = to_real(y) if isinstance(y, Z) else None
                ey = (lambda kk: ty)
            new_at = lambda kk, _ia=idx.at: z3.If(_ia(kk), ey(kk), old_at(kk))  # noqa: E731
            key = f"where({idx.key},{skey(y)},{x.key})"
            if inplace:
                x.at, x.key, x.facts = new_at, key, facts
                return x
            return Arr(x.n, x.elem, new_at, key, x.meta, facts)
        if inplace:
            x.at, x.key = new_at, key
            return x
        return Arr(x.n, x.elem, new_at, key, x.meta)

    reg.masked_assign = masked_assign

    @H("jax_at.__getitem__")
    def jax_at_getitem(i, a, k, n):
        return Obj("jax_at_idx", {"arr": a[0].f["arr"], "idx": a[1]})

    @H("jax_at_idx.set")
    def jax_at_set(i, a, k, n):
        o = a[0]
        return masked_assign(o.f["arr"], o.f["idx"], a[1], inplace=False)
    reg.consts["xp.pi"] = R(z3.Real("pi"))

    @H("xp.sqrt_scalar")
    def _unused(i, a, k, n):
        return NONE


def install_builtins(reg: Registry):
    H = reg.register

    @H("len")
    def h_len(i, a, k, n):
        x = a[0]
        if isinstance(x, Arr):
            return I(x.n)
        if isinstance(x, (PyList, Tup)):
            return I(len(x.items))
        if isinstance(x, PyDict):
            return I(len(x.d))
        if isinstance(x, SymList):
            return I(x.len)
        if isinstance(x, Str):
            return I(len(x.v))
        if isinstance(x, Obj):
            if x.cls in i.front.classes and i.front.find_method(x.cls, "__len__"):
                return i.call_method(x, "__len__", [], {}, n)
            if f"{x.cls}.__len__" in reg.handlers:
                return reg.handlers[f"{x.cls}.__len__"](i, [x], {}, n)
        if isinstance(x, Sym) and "len" in x.info:
            return I(x.info["len"])
        if isinstance(x, NoneV):
            i.implicit_exception(False, "TypeError", n)
            raise PathEnd()
        raise Unsupported(f"len of {x!r}")

    @H("isinstance")
    def h_isinstance(i, a, k, n):
        v, t = a
        types = t.items if isinstance(t, Tup) else [t]
        names = []
        for x in types:
            if isinstance(x, ClassRef):
                names.append(x.name)
            elif isinstance(x, Mod):
                names.append(x.name.split(".")[-1])
            elif isinstance(x, Fn):
                names.append(x.name)
            else:
                raise Unsupported(f"isinstance type {x!r}")
        return B(any(type_is(i, v, nm) for nm in names))

    def type_is(i, v, nm):
        if nm == "float":
            return isinstance(v, Z) and v.kind == "real"
        if nm == "int":
            return isinstance(v, Z) and v.kind in ("int", "bool")
        if nm == "bool":
            return isinstance(v, Z) and v.kind == "bool"
        if nm == "str":
            return isinstance(v, Str) and not getattr(v, "is_bytes", False)
        if nm == "bytes":
            return (isinstance(v, Str) and getattr(v, "is_bytes", False)) or (isinstance(v, Sym) and v.tag == "bytes") or \
                (isinstance(v, Arr) and ("bytes_of" in v.meta or v.meta.get("is_bytes")))
        if nm == "dict":
            return isinstance(v, PyDict)
        if nm in ("list", "tuple") and isinstance(v, Sym) and v.tag == "index":
            # an opaque selection index may be a Python list or tuple (of positions or of booleans): decided once per path and index
            kinds = i.path.ghost.setdefault("index_kind", {})
            key = v.e.sexpr()
            if key not in kinds:
                kinds[key] = ("array-or-slice-or-int", "list", "tuple")[i.path.choose(3, "kind-of-the-opaque-index")]
            return kinds[key] == nm
        if nm == "list":
            return isinstance(v, (PyList, SymList))
        if nm == "tuple":
            return isinstance(v, Tup)
        if nm == "set":
            return False
        if nm in ("ndarray",):
            return isinstance(v, Arr) or (isinstance(v, Obj) and v.cls == "StrArray")
        if isinstance(v, Obj):
            if v.cls in i.front.classes:
                return i.front.is_subclass(v.cls, nm)
            return v.cls == nm
        if isinstance(v, Sym):
            return v.tag == nm or nm in v.info.get("isa", ())
        if isinstance(v, Partial) and nm == "partial":
            return True
        return False

    reg.type_is = type_is

    @H("float")
    def h_float(i, a, k, n):
        x = a[0]
        if isinstance(x, Z):
            return R(to_real(x))
        if isinstance(x, Sym) and x.tag in ("nan", "inf"):
            return x
        if isinstance(x, Str):
            if x.v in ("inf", "-inf", "nan"):
                return Sym(z3.Const(x.v, Misc), "inf" if "inf" in x.v else "nan")
            return R(float(x.v))
        raise Unsupported(f"float({x!r})")

    @H("int")
    def h_int(i, a, k, n):
        x = a[0]
        if isinstance(x, Z) and x.kind in ("int", "bool"):
            return I(to_int(x))
        if isinstance(x, Z):
            return I(z3.ToInt(x.e))       # exact for x >= 0 (truncation == floor); side condition
        raise Unsupported(f"int({x!r})")

    @H("bool")
    def h_bool(i, a, k, n):
        return B(i.truth(a[0], n))

    @H("str")
    def h_str(i, a, k, n):
        x = a[0]
        if isinstance(x, Str):
            return x
        return Str(f"<str:{skey(x)}>")

    @H("max")
    def h_max(i, a, k, n):
        x, y = a
        if x.kind in ("int", "bool") and y.kind in ("int", "bool"):
            return I(z3.If(to_int(x) >= to_int(y), to_int(x), to_int(y)))
        return R(z3.If(to_real(x) >= to_real(y), to_real(x), to_real(y)))

    @H("min")
    def h_min(i, a, k, n):
        x, y = a
        if x.kind in ("int", "bool") and y.kind in ("int", "bool"):
            return I(z3.If(to_int(x) <= to_int(y), to_int(x), to_int(y)))
        return R(z3.If(to_real(x) <= to_real(y), to_real(x), to_real(y)))

    @H("abs")
    def h_abs(i, a, k, n):
        return R(ABS(to_real(a[0])))

    @H("all")
    def h_all(i, a, k, n):
        if a and isinstance(a[0], Arr) and a[0].elem == "bool" and "lit" not in a[0].meta:
            return B(z3.Const(f"all<{a[0].key}>", BS))           # builtin all() over a Boolean array of symbolic length: same abstraction as xp.all
        return B(z3.And([i.truth(x, n) for x in i.iterate(a[0], n)] + [z3.BoolVal(True)]))

    @H("any")
    def h_any(i, a, k, n):
        if a and isinstance(a[0], Arr) and a[0].elem == "bool" and "lit" not in a[0].meta:
            return B(z3.Const(f"any<{a[0].key}>", BS))
        return B(z3.Or([i.truth(x, n) for x in i.iterate(a[0], n)] + [z3.BoolVal(False)]))

    @H("tuple")
    def h_tuple(i, a, k, n):
        return Tup(i.iterate(a[0], n)) if a else Tup([])

    @H("list")
    def h_list(i, a, k, n):
        if a and isinstance(a[0], SymList):
            return a[0]
        if a and isinstance(a[0], Sym) and a[0].tag == "params":
            return a[0]                     # an opaque list of parameter names: list() of it is an equal list
        return PyList(i.iterate(a[0], n)) if a else PyList([])

    @H("dict")
    def h_dict(i, a, k, n):
        d = {}
        if a:
            if isinstance(a[0], PyDict):
                d.update(a[0].d)
            elif isinstance(a[0], (PyList, Tup)):
                for it in a[0].items:
                    kk, vv = it.items
                    d[i.dict_key(kk, n)] = vv
            else:
                raise Unsupported(f"dict({a[0]!r})")
        d.update(k)
        return PyDict(d)

    @H("set")
    def h_set(i, a, k, n):
        return PyList(i.iterate(a[0], n)) if a else PyList([])

    @H("sorted")
    def h_sorted(i, a, k, n):
        items = i.iterate(a[0], n)
        if all(isinstance(x, Str) for x in items):
            return PyList(sorted(items, key=lambda s: s.v))
        raise Unsupported("sorted of non-strings")

    @H("zip")
    def h_zip(i, a, k, n):
        its = [i.iterate(x, n) if not (isinstance(x, Arr)) else None for x in a]
        if any(x is None for x in its):
            # zip(parameters, x.T): abstract pairing
            return Sym(z3.Const(fresh("zip"), Misc), "zip", {"parts": a})
        m = min(len(x) for x in its)
        if k.get("strict") is not None and len({len(x) for x in its}) > 1:
            i.implicit_exception(False, "ValueError", n)
            raise PathEnd()
        return PyList([Tup([x[j] for x in its]) for j in range(m)])

    @H("enumerate")
    def h_enumerate(i, a, k, n):
        return PyList([Tup([I(j), x]) for j, x in enumerate(i.iterate(a[0], n))])

    @H("range")
    def h_range(i, a, k, n):
        if len(a) == 1:
            return Obj("range", {"lo": I(0), "hi": a[0]})
        return Obj("range", {"lo": a[0], "hi": a[1]})

    @H("map")
    def h_map(i, a, k, n):
        f, it = a
        return PyList([i.call(f, [x], {}, n) for x in i.iterate(it, n)])

    @H("hasattr")
    def h_hasattr(i, a, k, n):
        o, name = a
        return B(has_attr(i, o, name.v))

    def has_attr(i, o, name):
        if isinstance(o, Obj):
            if name in o.absent:
                return False
            if name in o.f:
                return True
            if o.cls in i.front.classes:
                if i.front.find_method(o.cls, name) or i.front.find_property(o.cls, name):
                    return True
                ca, _ = i.front.find_class_attr(o.cls, name)
                if ca is not None:
                    return True
                if i.front.instance_attr_values(o.cls, name):
                    # an instance attribute the class assigns somewhere but the contract's state does not list: the object may come from an
                    # earlier call (present, any value the class gives it) or be fresh (absent)
                    if i.path.choose(2, f"present:{o.cls}.{name}") == 1:
                        if i.havoc_unmodelled_attr(o, name, None) is not None:
                            return True
                    o.absent.add(name)
                return False
            if f"{o.cls}.{name}" in reg.obj_props:
                return reg.obj_props[f"{o.cls}.{name}"](i, o, None) is not None
            return f"{o.cls}.{name}" in reg.handlers
        if isinstance(o, Sym):
            if "hasattr" in o.info:
                return o.info["hasattr"](name)
            return f"{o.tag}.{name}" in reg.handlers or name in o.info.get("attrs", {})
        if isinstance(o, Mod):
            return True
        if isinstance(o, FuncRef):
            return name in ("__name__", "__func__", "calls") and name != "calls"
        if isinstance(o, NoneV):
            return False
        if isinstance(o, Arr):
            return name in ("shape", "dtype", "__array__", "T")
        if isinstance(o, (Closure, Fn, Partial)):
            return name in ("__name__", "__call__") and not isinstance(o, Partial)
        if isinstance(o, Str):
            return f"str.{name}" in reg.handlers
        if isinstance(o, (PyDict, PyList, Tup, Z)):
            return False
        raise Unsupported(f"hasattr on {o!r}")

    reg.has_attr = has_attr

    @H("getattr")
    def h_getattr(i, a, k, n):
        o, name = a[0], a[1]
        if len(a) > 2:
            if not has_attr(i, o, name.v):
                return a[2]
            return i.getattr(o, name.v, n)
        return i.getattr(o, name.v, n)

    @H("setattr")
    def h_setattr(i, a, k, n):
        i.setattr(a[0], a[1].v, a[2], n)
        return NONE

    @H("delattr")
    def h_delattr(i, a, k, n):
        o, name = a
        if name.v not in o.f:
            i.implicit_exception(False, "AttributeError", n)
            raise PathEnd()
        del o.f[name.v]
        o.absent.add(name.v)
        return NONE

    @H("type")
    def h_type(i, a, k, n):
        o = a[0]
        if isinstance(o, Obj):
            return ClassRef(o.cls)
        raise Unsupported(f"type({o!r})")

    @H("fields")
    def h_fields(i, a, k, n):
        o = a[0]
        cname = o.cls if isinstance(o, Obj) else o.name
        return PyList([Obj("Field", {"name": Str(nm), "init": B(bool(init))}) for nm, d, init, owner in i.front.dataclass_fields(cname)])

    reg.handlers["dataclasses.fields"] = h_fields
    reg.import_ok.add("dataclasses.fields")

    @H("print")
    def h_print(i, a, k, n):
        return NONE

    @H("math.isclose")
    def h_isclose(i, a, k, n):
        x, y = to_real(a[0]), to_real(a[1])
        rt = to_real(k["rel_tol"]) if isinstance(k.get("rel_tol"), Z) else z3.RealVal("1e-9")
        at = to_real(k["abs_tol"]) if isinstance(k.get("abs_tol"), Z) else z3.RealVal(0)
        ab = lambda v: z3.If(v >= 0, v, -v)  # noqa: E731
        mx = z3.If(ab(x) >= ab(y), ab(x), ab(y))
        lim = z3.If(rt * mx >= at, rt * mx, at)
        return Z(ab(x - y) <= lim, "bool")

    @H("round")
    def h_round(i, a, k, n):
        # round(x[, ndigits]): some number close to x, not x itself (uninterpreted: only |round(x, d) - x| <= 1/2 is recorded for d >= 0)
        x = a[0]
        if not isinstance(x, Z):
            raise Unsupported("round of a non-number")
        nd = a[1] if len(a) > 1 else k.get("ndigits", NONE)
        f = uf("py_round", RS, IS, RS)
        r = f(to_real(x), to_int(nd) if isinstance(nd, Z) else z3.IntVal(0))
        i.path.assume(z3.And(r - to_real(x) <= z3.RealVal("1/2"), to_real(x) - r <= z3.RealVal("1/2")), check=False)
        return Z(r, "real") if isinstance(nd, Z) else Z(z3.ToInt(r), "int")

    @H("slice")
    def h_slice(i, a, k, n):
        # slice(None) / slice(a, b[, c]) as an index component: same value as the literal `:` / `a:b:c` inside a tuple index
        parts = list(a) + [NONE] * (3 - len(a))
        if len(a) == 1:
            parts = [NONE, a[0], NONE]
        return Tup([Str("<slice>")] + parts)

    @H("id")
    def h_id(i, a, k, n):
        return I(id(a[0]))

    # ---- list / dict / str methods
    @H("list.append")
    def list_append(i, a, k, n):
        l, v = a
        if isinstance(l, SymList):
            l.len = l.len + 1
            l.last = v
            if l.sum is not None and isinstance(v, Z):
                l.sum = l.sum + to_real(v)
            elif l.sum is not None:
                l.sum = None
            i.path.event("append", l.name, v)
        else:
            l.items.append(v)
        return NONE

    @H("list.copy")
    def list_copy(i, a, k, n):
        l = a[0]
        if isinstance(l, PyList):
            return PyList(l.items)
        nl = SymList(l.len, l.last, l.sum, l.name, l.elem)
        return nl

    @H("list.index")
    def list_index(i, a, k, n):
        l, v = a
        for j, x in enumerate(l.items):
            if z3.is_true(z3.simplify(i.equal(x, v, n))):
                return I(j)
        raise Unsupported("list.index symbolic")

    @H("dict.get")
    def dict_get(i, a, k, n):
        d, key = a[0], a[1]
        kk = i.dict_key(key, n)
        if kk in d.d:
            return d.d[kk]
        return a[2] if len(a) > 2 else k.get("default", NONE)

    @H("dict.pop")
    def dict_pop(i, a, k, n):
        d, key = a[0], a[1]
        kk = i.dict_key(key, n)
        if kk in d.d:
            return d.d.pop(kk)
        if len(a) > 2:
            return a[2]
        i.implicit_exception(False, "KeyError", n)
        raise PathEnd()

    @H("dict.setdefault")
    def dict_setdefault(i, a, k, n):
        d, key = a[0], a[1]
        kk = i.dict_key(key, n)
        if kk not in d.d:
            d.d[kk] = a[2] if len(a) > 2 else NONE
        return d.d[kk]

    @H("dict.update")
    def dict_update(i, a, k, n):
        d = a[0]
        if len(a) > 1:
            if isinstance(a[1], NoneV):
                i.implicit_exception(False, "TypeError", n)
                raise PathEnd()
            d.d.update(a[1].d)
        d.d.update(k)
        owner = getattr(d, "dict_of", None)
        if owner is not None:
            # `obj.__dict__.update(...)`: the instance attributes are replaced through the live view
            for kk, v in d.d.items():
                owner.f[kk] = v
                owner.absent.discard(kk)
        return NONE

    @H("dict.copy")
    def dict_copy(i, a, k, n):
        return PyDict(a[0].d)

    @H("dict.items")
    def dict_items(i, a, k, n):
        return PyList([Tup([Str(kk) if isinstance(kk, str) else I(kk), v]) for kk, v in a[0].d.items()])

    @H("dict.keys")
    def dict_keys(i, a, k, n):
        return PyList([Str(kk) if isinstance(kk, str) else I(kk) for kk in a[0].d])

    @H("dict.values")
    def dict_values(i, a, k, n):
        return PyList(list(a[0].d.values()))

    @H("dict.fromkeys")
    def dict_fromkeys(i, a, k, n):
        return PyDict({i.dict_key(x, n): NONE for x in i.iterate(a[-1], n)})

    for m in ("lower", "upper", "strip", "capitalize"):
        def mk(m):
            def h(i, a, k, n):
                s = a[0]
                return Str(getattr(s.v, m)(*[x.v for x in a[1:]]))
            return h
        reg.handlers[f"str.{m}"] = mk(m)

    @H("str.startswith")
    def str_startswith(i, a, k, n):
        p = a[1]
        if isinstance(p, Tup):
            return B(a[0].v.startswith(tuple(x.v for x in p.items)))
        return B(a[0].v.startswith(p.v))

    @H("str.endswith")
    def str_endswith(i, a, k, n):
        p = a[1]
        if isinstance(p, Tup):
            return B(a[0].v.endswith(tuple(x.v for x in p.items)))
        return B(a[0].v.endswith(p.v))

    @H("str.split")
    def str_split(i, a, k, n):
        return PyList([Str(x) for x in a[0].v.split(*[x.v for x in a[1:]])])

    @H("str.removeprefix")
    def str_removeprefix(i, a, k, n):
        return Str(a[0].v.removeprefix(a[1].v))

    @H("str.format")
    def str_format(i, a, k, n):
        return Str("<fmt>")

    # ---- logging (A-LOG): no effect, does not raise
    for lv in ("debug", "info", "warning", "error", "critical", "exception"):
        reg.handlers[f"logger.{lv}"] = lambda i, a, k, n: NONE
    reg.handlers["logging.getLogger"] = lambda i, a, k, n: Mod("logger")
    reg.handlers["warnings.warn"] = lambda i, a, k, n: NONE

    @H("functools.partial")
    def h_partial(i, a, k, n):
        return Partial(a[0], a[1:], k)

    reg.handlers["partial"] = h_partial
    reg.import_ok.add("functools.partial")

    @H("copy.deepcopy")
    def h_deepcopy(i, a, k, n):
        assumed(i, "copy.deepcopy: structurally equal copy")
        return deep_copy(i, a[0], {})

    @H("copy.copy")
    def h_copy(i, a, k, n):
        assumed(i, "copy.copy: shallow copy (fields / items are shared with the original)")
        v = a[0]
        if isinstance(v, Obj):
            o = Obj(v.cls, dict(v.f), tag=v.tag)
            o.absent = set(v.absent)
            o.shallow_copy_of = v
            return o
        if isinstance(v, PyList):
            return PyList(v.items)
        if isinstance(v, PyDict):
            return PyDict(v.d)
        return v

    @H("dataclasses.replace")
    def h_dc_replace(i, a, k, n):
        assumed(i, "dataclasses.replace: a new instance whose fields are the original's (shared, not copied) except the given ones")
        v = a[0]
        if not isinstance(v, Obj):
            raise Unsupported("dataclasses.replace of a non-object")
        o = Obj(v.cls, dict(v.f), tag=v.tag)
        o.absent = set(v.absent)
        o.f.update(k)
        o.shallow_copy_of = v
        return o

    reg.handlers["replace"] = h_dc_replace
    reg.import_ok.add("dataclasses.replace")
    reg.handlers["deepcopy"] = h_deepcopy
    reg.import_ok.add("copy.deepcopy")

    def deep_copy(i, v, memo):
        if isinstance(v, Obj):
            if v.id in memo:
                return memo[v.id]
            o = Obj(v.cls, tag=v.tag)
            memo[v.id] = o
            o.f = {kk: deep_copy(i, x, memo) for kk, x in v.f.items()}
            o.absent = set(v.absent)
            o.copy_of = v
            return o
        if isinstance(v, PyList):
            return PyList([deep_copy(i, x, memo) for x in v.items])
        if isinstance(v, Tup):
            return Tup([deep_copy(i, x, memo) for x in v.items])
        if isinstance(v, PyDict):
            return PyDict({kk: deep_copy(i, x, memo) for kk, x in v.d.items()})
        if isinstance(v, SymList):
            nl = SymList(v.len, deep_copy(i, v.last, memo) if v.last is not None else None, v.sum, v.name, v.elem)
            nl.copy_of = v
            return nl
        if isinstance(v, Sym) and v.tag == "rng":
            # a random generator is a mutable object: its deep copy is another generator (same state at the time of the copy, separate stream afterwards)
            c = Sym(z3.Const(fresh("generator_copy"), Misc), "rng", dict(getattr(v, "info", None) or {}, copy_of=v))
            return c
        return v

    reg.deep_copy = deep_copy


# ------------------------------------------------------------------------------ random sources (assumed contracts)
def install_random(reg: Registry):
    H = reg.register

    @H("rng.choice")
    def rng_choice(i, a, k, n):
        assumed(i, "Generator.choice(a, size, replace, p): returns `size` indices in [0, a), drawn with probabilities p")
        gen = a[0]
        aa = a[1]
        size, replace, p = k.get("size", NONE), k.get("replace", B(True)), k.get("p", NONE)
        f = uf(fresh("IDX"), IS, IS)
        nn = to_int(size)
        idx = Arr(nn, "int", lambda kk: f(kk), fresh("idx"))
        i.path.event("rng.choice", gen, aa, size, replace, p, idx)
        return idx

    @H("rng.spawn")
    def rng_spawn(i, a, k, n):
        assumed(i, "Generator.spawn(n): n new child generators; which children depends on a spawn counter that is not part of bit_generator.state")
        gen = a[0]
        m = i.concrete_int(a[1], n) if len(a) > 1 else 1
        kids = [Sym(z3.Const(fresh("spawned_child_rng"), Misc), "rng", {"child_of": gen}) for _ in range(m)]
        i.path.event("rng.spawn", gen, kids)
        return PyList(kids)

    @H("rng.uniform")
    def rng_uniform(i, a, k, n):
        assumed(i, "Generator.uniform(size): `size` draws in [0, 1)")
        gen = a[0]
        size = k.get("size", a[1] if len(a) > 1 else NONE)
        u = base_arr(fresh("U"), "real", to_int(size))
        i.path.event("rng.uniform", gen, size, u)
        return u

    @H("rng.normal")
    def rng_normal(i, a, k, n):
        gen = a[0]
        size = k.get("size", NONE)
        i.path.event("rng.normal", gen, size)
        return Sym(z3.Const(fresh("normal"), Misc), "arr_opaque")

    @H("xp.random.default_rng")
    def default_rng(i, a, k, n):
        seeded = bool(a) or "seed" in k
        g = Sym(z3.Const(fresh("ambient_rng"), Misc), "rng", {"ambient": not seeded})
        i.path.event("entropy" if not seeded else "seeded-rng", "np.random.default_rng", g)
        return g

    reg.handlers["np.random.default_rng"] = default_rng


# ------------------------------------------------------------------------------ extended-real element mode (C05)
from . import xreal as X  # noqa: E402


def xelem(v):
    """-> (at: k -> ER term, is_scalar_real: bool, real term or None)"""
    if isinstance(v, Arr):
        if v.elem == "xreal":
            return v.at, None
        if v.elem in ("real", "int"):
            return (lambda k, _at=v.at, _r=(v.elem == "real"): X.fin(_at(k) if _r else z3.ToReal(_at(k)))), None
        raise Unsupported(f"extended-real arithmetic on {v!r}")
    if isinstance(v, Sym) and v.tag == "xreal":
        return (lambda k: v.e), None
    if isinstance(v, Z):
        t = to_real(v)
        return (lambda k: X.fin(t)), t
    raise Unsupported(f"extended-real arithmetic on {v!r}")


def xreal_binop(i, sym, a, b, n):
    ea, ra = xelem(a)
    eb, rb = xelem(b)
    arrs = [v for v in (a, b) if isinstance(v, Arr)]
    if len(arrs) == 2:
        i.path.prove(arrs[0].n == arrs[1].n, i.oname("array-shapes-agree", n), kind="shape")
    ka = a.key if isinstance(a, Arr) else skey(a)
    kb = b.key if isinstance(b, Arr) else skey(b)
    if sym == "+":
        f = lambda k: X.xadd(ea(k), eb(k))  # noqa: E731
    elif sym == "-":
        f = lambda k: X.xadd(ea(k), X.xneg(eb(k)))  # noqa: E731
    elif sym == "*":
        if ra is not None:
            f = lambda k: X.xscale(ra, eb(k))  # noqa: E731
        elif rb is not None:
            f = lambda k: X.xscale(rb, ea(k))  # noqa: E731
        else:
            f = lambda k: X.xmul(ea(k), eb(k))  # noqa: E731
    else:
        raise Unsupported(f"extended-real operator {sym}")
    if not arrs:
        return Sym(f(z3.IntVal(0)), "xreal")
    return Arr(arrs[0].n, "xreal", f, f"({ka}{sym}{kb})", arrs[0].meta)
