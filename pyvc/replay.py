"""./check <Cxx> --replay <file>: re-establish one recorded violation on the *current* tree.

A replay file names a failed obligation (with the solver's counter-model / the verifier's output) and, where one exists, the concrete
failing input (a native case of the bounded stand-in or the counter-model replayed on the real code).  Replaying re-generates the
verification conditions of the property from the current source, re-runs the stand-in, and reports whether the same obligation / the
same native case fails again.  Exit 1 + VIOLATION line if it does, exit 0 (NOT-REPRODUCED) if it does not, 2/3 as for a normal run.
"""
from __future__ import annotations

import json
import os
import pathlib
import re
import subprocess
import sys

ROOT = pathlib.Path(__file__).resolve().parent.parent


def _ident(d):
    ni = d.get("native_input") or {}
    return {"obligation": d.get("obligation"), "native_id": ni.get("id") if ni.get("id") != "counter-model" else None}


def run_replay_file(path):
    p = pathlib.Path(path)
    if not p.exists():
        print(f"replay file {path} not found")
        return 3
    want = json.loads(p.read_text())
    pid = want.get("property")
    wid = _ident(want)
    env = dict(os.environ, ASPIRE_VERIF_EVIDENCE_DIR=str(ROOT / "replays" / "_replay_evidence"))
    out = subprocess.run([str(ROOT / "check"), pid, "--tier", "quick"], env=env, capture_output=True, text=True, cwd=str(ROOT))
    hits = []
    for line in out.stdout.splitlines():
        m = re.match(r"VIOLATION property=(\S+) replay=(\S+)", line)
        if not m:
            continue
        try:
            got = json.loads(pathlib.Path(m.group(2)).read_text())
        except Exception:
            continue
        gid = _ident(got)
        if (wid["native_id"] and gid["native_id"] == wid["native_id"]) or (not wid["native_id"] and gid["obligation"] == wid["obligation"]):
            hits.append((line, got))
    if hits:
        line, got = hits[0]
        print(f"REPRODUCED on the current tree: {wid['obligation']}")
        ni = got.get("native_input")
        if ni:
            print("failing input:", json.dumps(ni, default=str)[:1500])
        elif got.get("solver_model"):
            print("counter-model:", json.dumps(got["solver_model"], default=str)[:1500])
        print(line)
        return 1
    if out.returncode in (2, 3):
        sys.stdout.write(out.stdout[-2000:])
        return out.returncode
    print(f"NOT-REPRODUCED on the current tree: {wid['obligation']} (check exit {out.returncode})")
    return 0
