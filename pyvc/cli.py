"""./check <Cxx> [--tier quick|thorough] [--replay file]

Exit codes: 0 held / 1 violation (VIOLATION line printed) / 2 undecided / 3 checker defect.
"""
from __future__ import annotations

import argparse
import hashlib
import importlib
import json
import os
import pathlib
import sys
import time
import traceback

ROOT = pathlib.Path(__file__).resolve().parent.parent
sys.path.insert(0, str(ROOT))

ASSUMPTIONS_COMMON = [
    "A-REAL: Python/NumPy floats are treated as mathematical reals in the deductive part (rounding, overflow, NaN are only seen by the bounded native stand-ins)",
    "A-INT: Python ints are mathematical integers (exact)",
    "A-LOG: logging calls and f-string formatting have no effect on program state and do not raise",
    "A-TRACK: the @track_calls decorator (wrapt) is transparent",
    "A-ALIAS: mutable objects passed in as distinct parameters are distinct",
    "static resolution: classes, MRO, properties, dataclass fields and defaults are taken from the ast of /repo/src/aspire; no monkey-patching",
]


def load_known_findings():
    p = ROOT / "known_findings.json"
    if not p.exists():
        return {"open": [], "fixed": []}
    return json.loads(p.read_text())


def aggregate(statuses):
    by_name = {}
    n_obl = n_ok = 0
    for st in statuses:
        for o in st["obligations"]:
            n_obl += 1
            d = by_name.setdefault(o["name"], {"proved": 0, "failed": 0, "unknown": 0, "kind": o["kind"], "function": st["function"], "ms": 0.0, "backend": o["backend"]})
            d[o["verdict"]] = d.get(o["verdict"], 0) + 1
            d["ms"] += o["ms"]
            if o["verdict"] == "proved":
                n_ok += 1
    return by_name, n_obl, n_ok


def main(argv=None):
    ap = argparse.ArgumentParser()
    ap.add_argument("prop")
    ap.add_argument("--tier", default=os.environ.get("VERIF_TIER", "quick"))
    ap.add_argument("--replay", default=None)
    ap.add_argument("--selftest", action="store_true")
    args = ap.parse_args(argv)
    pid = args.prop
    seed = int(os.environ.get("VERIF_SEED", "0") or 0)
    tier = "thorough" if args.tier == "thorough" else "quick"
    t0 = time.time()
    try:
        from checks import REGISTRY
        spec = REGISTRY[pid]
    except KeyError:
        print(f"unknown property {pid}")
        return 3
    if args.replay:
        from pyvc import replay
        return replay.run_replay_file(args.replay)
    try:
        from pyvc.runner import run_property
        return run_property(pid, spec, tier, seed, t0)
    except Exception:
        traceback.print_exc()
        print(f"CHECKER-DEFECT property={pid}")
        return 3


if __name__ == "__main__":
    sys.exit(main())
