"""Sidecar contract objects and the per-function verification driver.

A contract is a Python class in /verif/contracts/*.py (nothing in /repo is annotated):

  qual        'module:Class.func' of the real function
  shapes()    enumeration of the *shapes* of the inputs (which optional arguments are None,
              key sets of **kwargs, flags that change the type of a value).  Exhaustive over
              shapes; all values inside a shape are symbolic.
  setup(I, shape) -> Pre        symbolic pre-state: self object, arguments, assumed requires
  requires / ensures            clauses as (name, text, builder) triples; `text` is what a
                                reader sees in the evidence, `builder` produces the z3 term
  post(I, pre, outcome)         emits the postcondition obligations on every path end
  raises                        exceptions the function may raise explicitly, with the condition
  loops(I, pre)                 {loop ordinal: LoopSpec}
  model(I, info, bound, args, kwargs, node)   how a *caller* sees the function: asserts the
                                requires, returns a symbolic result constrained by the ensures
  canaries(I, pre, outcome)     goals that are false of the real code and must come back `sat`
"""
from __future__ import annotations

import time
import traceback

import z3

from .engine import (ContractOutOfDate, Explorer, Interp, LoopSpec, Obligation, Path, PathEnd, RaiseSig, Unsupported)
from .front import Front
from .values import NONE, Obj, Z


class Pre:
    def __init__(self, self_obj=None, args=(), kwargs=None, ghost=None):
        self.self_obj, self.args, self.kwargs = self_obj, list(args), dict(kwargs or {})
        self.ghost = ghost or {}


class Contract:
    qual: str = ""
    properties: tuple = ()
    doc: str = ""
    raises: dict = {}          # exception name -> human readable condition (explicit raises allowed)
    inline_depth = 6
    timeout_ms = 20000
    force_inline = ()

    def shapes(self):
        return [{}]

    def setup(self, I: Interp, shape) -> Pre:
        raise NotImplementedError

    def loops(self, I: Interp, pre: Pre):
        return {}

    def hooks(self, I: Interp, pre: Pre):
        return {}

    def post(self, I: Interp, pre: Pre, result):
        pass

    def post_raise(self, I: Interp, pre: Pre, sig: RaiseSig):
        """default: an explicit raise is fine iff declared in `raises`; implicit ones were already obligations"""
        ok = sig.exc in self.raises
        I.path.prove(z3.BoolVal(ok), f"{self.qual}:no-undeclared-exception[{sig.exc}: {I.snippet(sig.node, 50) if sig.node is not None else ''}]",
                     kind="exception", assume_after=False)

    def canaries(self, I: Interp, pre: Pre, result):
        return []

    def must_return(self, shape) -> bool:
        """True for input shapes for which the function is known to return normally on some path (reachability cover)"""
        return False

    # ---- caller's view
    def usable_at_call(self, I: Interp, q) -> bool:
        return hasattr(self, "model")

    def apply(self, I: Interp, info, bound, args, kwargs, node):
        return self.model(I, info, bound, args, kwargs, node)


class ContractSet(dict):
    def add(self, c: Contract):
        old = self.get(c.qual)
        if old is not None and hasattr(old, "model") and not hasattr(c, "model"):
            raise RuntimeError(f"contract {type(c).__name__} for {c.qual} would hide the caller-side model of {type(old).__name__}: subclass it")
        if old is not None and type(old).setup is not Contract.setup and type(c).setup is Contract.setup and isinstance(old, type(c)):
            return old          # a verification contract that refines this caller-side model is already registered: keep the refinement
        self[c.qual] = c
        return c


def verify_function(front: Front, reg, contracts: ContractSet, c: Contract, shape, budget_s=600):
    """explore every path of the real function under the contract for one input shape"""
    info = front.get(c.qual)
    label = c.qual + (("[" + ",".join(f"{k}={v}" for k, v in shape.items()) + "]") if shape else "")
    ex = Explorer(label, timeout_ms=c.timeout_ms)
    ex.returned = 0
    ex.raised = {}
    ex.canaries = []
    status = {"function": c.qual, "shape": shape, "label": label, "file": info.file, "span": list(info.span),
              "source_hash": info.source_hash()}
    t0 = time.time()

    def path_fn(p: Path):
        I = Interp(front, p, reg, contracts, target=c.qual, inline_depth=c.inline_depth)
        I.contract = c
        I.force_inline_quals = set(getattr(c, "force_inline", ()))
        from .engine import Frame
        I.frames.append(Frame(info.module, info.cls, info))      # scratch frame for setup-time evaluation
        pre = c.setup(I, shape)
        I.frames.pop()
        for k, spec in c.loops(I, pre).items():
            I.loop_specs[(c.qual, k)] = spec
        I.call_hooks.update(c.hooks(I, pre))
        p.pre = pre
        try:
            res = I.call_repo(info, pre.self_obj, pre.args, pre.kwargs, None, force_inline=True)
        except RaiseSig as sig:
            if not p.replaying:
                ex.raised[sig.exc] = ex.raised.get(sig.exc, 0) + 1
            I.frames.append(Frame(info.module, info.cls, info))
            c.post_raise(I, pre, sig)
            return
        if not p.replaying:
            ex.returned += 1
        I.frames.append(Frame(info.module, info.cls, info))
        c.post(I, pre, res)
        for nm, g in c.canaries(I, pre, res):
            # must be refutable: sat expected
            if not p.replaying:
                r = p._check(z3.Not(g))
                ex.canaries.append((nm, "refuted" if r == z3.sat else ("vacuous" if r == z3.unsat else "unknown")))

    try:
        ex.run(path_fn)
        status["status"] = "ok"
    except Unsupported as u:
        status["status"] = "unsupported"
        status["reason"] = str(u)
    except ContractOutOfDate as u:
        status["status"] = "contract-out-of-date"
        status["reason"] = str(u)
    except Exception as e:  # engine defect - unless an opaque value of an attribute outside the contract's state model was used (contract out of date)
        if "unmodelled" in str(e):
            status["status"] = "contract-out-of-date"
            status["reason"] = f"an attribute outside the contract's state model is used in a way its havoc'd value does not support ({type(e).__name__}: {str(e)[:200]})"
            obls = [o.as_dict() for o in ex.obligations]
        else:
            status["status"] = "crash"
            status["reason"] = f"{type(e).__name__}: {e}\n{traceback.format_exc()[-1500:]}"
    obls = [o.as_dict() for o in ex.obligations]
    if status.get("status") == "ok" and c.must_return(shape):
        # reachability cover: with no normally returning path every postcondition would hold vacuously (e.g. a loop that can no longer be left)
        obls.append({"name": f"{c.qual}:cover:a normal return is reachable for this input shape (postconditions are not vacuous)", "kind": "cover", "backend": "z3",
                     "verdict": "proved" if ex.returned > 0 else "failed", "ms": 0.0, "model": None, "function": label})
    status.update({
        "paths": ex.n_paths, "returned_paths": ex.returned, "raised_paths": ex.raised, "queries": ex.queries,
        "solver_s": round(ex.solver_s, 3), "wall_s": round(time.time() - t0, 3),
        "obligations": obls,
        "unknown_smt2": [o.smt2 for o in ex.obligations if o.verdict == "unknown" and o.smt2][:5],
        "assumed": sorted(ex.assumed), "inlined": sorted(ex.inlined), "contracts_used": sorted(ex.contracts_used),
        "covers": sorted(set(ex.covers)), "canaries": ex.canaries,
    })
    return status
