"""Loads the registry + sidecar contracts and runs function verifications (optionally in parallel)."""
from __future__ import annotations
import importlib, json, sys, time, os
from concurrent.futures import ProcessPoolExecutor
from .front import Front
from .lib import Registry
from .contracts import ContractSet, verify_function

CONTRACT_MODULES = ["contracts.samples_models", "contracts.smc_base", "contracts.samples", "contracts.samplers", "contracts.io", "contracts.checkpoint", "contracts.context", "contracts.aspire_api", "contracts.dtypes", "contracts.serialization", "contracts.flows", "contracts.transforms"]
_state = {}

def load():
    if "front" in _state:
        return _state["front"], _state["reg"], _state["cs"]
    front = Front()
    reg = Registry()
    cs = ContractSet()
    for m in CONTRACT_MODULES:
        mod = importlib.import_module(m)
        if hasattr(mod, "install"):
            mod.install(reg)
        for nm in dir(mod):
            c = getattr(mod, nm)
            if isinstance(c, type) and getattr(c, "qual", "") and c.__module__ == mod.__name__:
                cs.add(c())
    _state.update(front=front, reg=reg, cs=cs)
    return front, reg, cs

def _task(arg):
    qual, shape = arg
    front, reg, cs = load()
    return verify_function(front, reg, cs, cs[qual], shape)

def verify_many(quals, workers=None):
    front, reg, cs = load()
    tasks = [(q, sh) for q in quals for sh in cs[q].shapes()]
    if os.environ.get('PYVC_FIRST'): tasks = tasks[:int(os.environ['PYVC_FIRST'])]
    if os.environ.get('PYVC_ONLY'): tasks = [tasks[int(k)] for k in os.environ['PYVC_ONLY'].split(',')]
    workers = workers or min(16, max(1, len(tasks)))
    if workers == 1 or len(tasks) == 1:
        return [_task(t) for t in tasks]
    with ProcessPoolExecutor(max_workers=workers) as ex:
        return list(ex.map(_task, tasks, chunksize=1))

if __name__ == "__main__":
    sys.path.insert(0, os.path.dirname(os.path.dirname(os.path.abspath(__file__))))
    quals = sys.argv[1:]
    t0 = time.time()
    res = verify_many(quals, workers=int(os.environ.get("PYVC_WORKERS", "16")))
    for r in res:
        obl = r["obligations"]
        bad = [o for o in obl if o["verdict"] != "proved"]
        print(f"{r['label']}: {r['status']} paths={r['paths']} ret={r['returned_paths']} raised={r['raised_paths']} obl={len(obl)} bad={len(bad)} solver={r['solver_s']}s wall={r['wall_s']}s canaries={r['canaries'][:3]}")
        if r["status"] != "ok": print("   ", r.get("reason"))
        if os.environ.get("PYVC_SLOW"):
            for o in sorted(obl, key=lambda o: -o["ms"])[:6]: print("      slow %.0fms %s %s" % (o["ms"], o["verdict"], o["name"][:150]))
        seen = set()
        for o in bad:
            if o["name"] in seen: continue
            seen.add(o["name"])
            print("    ", o["verdict"].upper(), o["name"], json.dumps({k: v for k, v in (o.get("model") or {}).items() if not k.startswith(("at_", "k!", "ESS", "LER", "exp", "log"))})[:300])
    print("total wall %.1fs" % (time.time() - t0))
