"""Lean back end: definitions generated from the real source (py2lean) + sidecar proof scripts."""
from __future__ import annotations

import os
import pathlib
import re
import subprocess
import time

ROOT = pathlib.Path(__file__).resolve().parent.parent
LEAN_DIR = ROOT / "lean"
SHARED = LEAN_DIR / "build"                                   # Spec.olean only (depends on lean/Spec.lean, not on /repo)
# everything generated from /repo lives in a per-process directory, so that checks running side by side never read each other's files
BUILD = SHARED / f"run_{os.getpid()}"


THM = re.compile(r"^(theorem|lemma)\s+([A-Za-z0-9_'.]+)")
ERR = re.compile(r"^(.*?):(\d+):(\d+): (error|warning)(?:\([^)]*\))?: (.*)$")


def _cleanup():
    import shutil
    shutil.rmtree(BUILD, ignore_errors=True)


import atexit  # noqa: E402
atexit.register(_cleanup)


def _lean(args, timeout=1500):
    env = dict(os.environ, LEAN_PATH=f"{BUILD}:{SHARED}")
    t = time.time()
    p = subprocess.run(["lean"] + args, capture_output=True, text=True, cwd=str(LEAN_DIR), env=env, timeout=timeout)
    return p.returncode, p.stdout + p.stderr, time.time() - t


def ensure_spec():
    import fcntl
    import hashlib
    SHARED.mkdir(exist_ok=True)
    BUILD.mkdir(exist_ok=True, parents=True)
    src = LEAN_DIR / "Spec.lean"
    ol = SHARED / "Spec.olean"
    stamp = SHARED / "Spec.sha"
    h = hashlib.sha1(src.read_bytes()).hexdigest()
    with open(SHARED / ".lock", "w") as lk:
        fcntl.flock(lk, fcntl.LOCK_EX)           # one builder at a time; the others wait and then find it built
        if not ol.exists() or not stamp.exists() or stamp.read_text() != h:
            tmp = SHARED / f"Spec.{os.getpid()}.olean"
            rc, out, _ = _lean(["-o", str(tmp), str(src)])
            if rc != 0 or "error" in out:
                tmp.unlink(missing_ok=True)
                raise RuntimeError("Spec.lean does not check:\n" + out[:2000])
            os.replace(tmp, ol)
            stamp.write_text(h)


def generate_gen():
    from .front import Front
    from .py2lean import generate
    text, index, dropped, errors = generate(Front())
    BUILD.mkdir(exist_ok=True, parents=True)
    header = "import Spec\nopen Finset Real\nset_option linter.unusedVariables false\n"
    rc, out, secs = 1, "", 0.0
    # a definition that does not elaborate (a function outside the translatable subset that slipped through) is removed and reported as missing,
    # so that it only takes the theorems about it with it, not every theorem of every property
    for _round in range(4):
        (BUILD / "Gen.lean").write_text(header + text)
        rc, out, s1 = _lean(["-o", str(BUILD / "Gen.olean"), str(BUILD / "Gen.lean")])
        secs += s1
        if rc == 0 and "error" not in out:
            break
        lines = (header + text).split("\n")
        bad_lines = sorted({int(m.group(2)) for m in (ERR.match(l) for l in out.split("\n")) if m and m.group(4) == "error"})
        bad_defs = set()
        for L in bad_lines:
            k = L - 1
            while k >= 0 and not re.match(r"(noncomputable )?def (\S+)", lines[k]):
                k -= 1
            if k >= 0:
                bad_defs.add(re.match(r"(noncomputable )?def (\S+)", lines[k]).group(2))
        if not bad_defs:
            break
        kept = []
        for ln in text.split("\n"):
            m = re.match(r"(noncomputable )?def (\S+)", ln)
            if m and m.group(2) in bad_defs:
                continue
            kept.append(ln)
        text = "\n".join(kept)
        for d in sorted(bad_defs):
            fnq = next((e["function"] for e in index if e["def"] == d), d)
            errors.append({"function": fnq, "label": d, "error": "generated definition does not elaborate in Lean (function outside the translatable subset)", "defs": [d]})
        index = [e for e in index if e["def"] not in bad_defs]
    res = {"rc": rc, "out": out, "index": index, "dropped": dropped, "errors": errors, "secs": secs, "text": text}
    if rc == 0:
        (BUILD / "Common.lean").write_text("import Spec\nimport Gen\n" + (LEAN_DIR / "Common.lean").read_text())
        rc2, out2, secs2 = _lean(["-o", str(BUILD / "Common.olean"), str(BUILD / "Common.lean")])
        res["common_rc"], res["common_out"] = rc2, out2
        from .py2lean import range_theorems, dim_theorems, RECORDS, DIM_RECORDS
        gone = {d for e in errors for d in e.get("defs", [])}
        res["range_text"] = range_theorems([r for r in RECORDS if r[0] not in gone])
        res["dim_text"] = dim_theorems([r for r in DIM_RECORDS if r[0] not in gone])
    return res


LAST_GEN = {}


def run(files, pid):
    """-> list of obligation dicts (one per theorem)"""
    global LAST_GEN
    ensure_spec()
    gen = generate_gen()
    LAST_GEN = gen
    obls = []
    missing = {e["function"]: e["error"] for e in gen["errors"]}
    missing_defs = {d: e for e in gen["errors"] for d in e.get("defs", [])}
    if gen["rc"] != 0:
        # generated definitions do not even elaborate: every theorem is undecided
        obls.append({"name": "lean:Gen.lean elaborates", "function": "py2lean", "verdict": "unknown", "backend": "lean", "kind": "generation",
                     "ms": gen["secs"] * 1000, "output": gen["out"][:1500]})
        return obls
    if gen.get("common_rc", 0) != 0 or "error" in gen.get("common_out", ""):
        # with definitions missing from the generation, a failure of the shared lemmas decides nothing
        obls.append({"name": "lean:Common.lean (shared lemmas about generated definitions) checks", "function": "Common.lean", "verdict": "unknown" if missing_defs else "failed", "backend": "lean",
                     "kind": "lean-theorem", "ms": 0.0, "output": gen.get("common_out", "")[:1500]})
        return obls
    if "C04.lean" in files or "@invmaps" in files:
        # the inverse maps (latent space -> parameter space) are claimed bijective on ALL of R: nothing may be dropped from them that clamps
        # their argument or result or depends on the clipping margin (the forward maps clamp inside the margin, which the theorems state)
        INV = ("utils:sigmoid", "transforms:BoundedTransform.from_unit_interval", "transforms:LogitTransform.inverse", "transforms:ProbitTransform.inverse",
               "transforms:PeriodicTransform.inverse", "transforms:AffineTransform.inverse")
        for q in INV:
            drops = [d for d in gen.get("dropped", {}).get(q, []) if "clip" in d or "eps" in d]
            obls.append({"name": f"lean:extraction:C04:C03:C05:{q.split(':')[1]} is translated without dropping a clamp or a margin-dependent branch "
                                 f"(the inverse map is a bijection of all of R onto the open interval)", "function": q,
                         "verdict": "failed" if drops else "proved", "backend": "lean", "kind": "extraction", "ms": 0.0, "output": "; ".join(drops) or None})
    if "C04.lean" in files:
        # the forward maps may clamp, but only by the documented relative margin: clip(u, eps, 1 - eps) applied to the unit-interval value;
        # any other clamp is a different side condition than the one the theorems are stated under
        FWD = ("utils:logit", "transforms:BoundedTransform.to_unit_interval", "transforms:LogitTransform.forward", "transforms:ProbitTransform.forward",
               "transforms:PeriodicTransform.forward", "transforms:AffineTransform.forward")
        rx = re.compile(r"^clip\(\s*\w+\s*,\s*(?:self\.)?eps\s*,\s*1(?:\.0)?\s*-\s*(?:self\.)?eps\s*\) taken")
        for q in FWD:
            clips = [d for d in gen.get("dropped", {}).get(q, []) if d.startswith("clip(")]
            odd = [d for d in clips if not rx.match(d)]
            obls.append({"name": f"lean:extraction:C04:C03:{q.split(':')[1]}: the only clamp dropped from the forward map is the documented margin clip(u, eps, 1 - eps) on the unit-interval value",
                         "function": q, "verdict": "failed" if odd else "proved", "backend": "lean", "kind": "extraction", "ms": 0.0, "output": "; ".join(odd) or None})
    for f in files:
        if f == "@invmaps":
            continue
        if f == "@range":
            src = "open Finset Real Spec Gen\nset_option linter.unusedVariables false\nvariable {n : ℕ} [NeZero n]\n\n" + gen.get("range_text", "")
            f = "Range.lean"
        elif f == "@dim":
            src = "open Finset Real Spec Gen\nset_option linter.unusedVariables false\nvariable {n : ℕ} [NeZero n]\n\n" + gen.get("dim_text", "")
            f = "Dim.lean"
        else:
            src = (LEAN_DIR / f).read_text()
        for bad in ("sorry", "admit", "native_decide"):
            if re.search(rf"\b{bad}\b", re.sub(r"--.*", "", src)):
                obls.append({"name": f"lean:{f}: no `{bad}` in proof scripts", "function": f, "verdict": "failed", "backend": "lean", "kind": "assumption-scan", "ms": 0.0})
        if re.search(r"^\s*axiom\b", src, re.M):
            obls.append({"name": f"lean:{f}: no axiom in proof scripts", "function": f, "verdict": "failed", "backend": "lean", "kind": "assumption-scan", "ms": 0.0})
        path = BUILD / f
        header = "import Spec\nimport Gen\nimport Common\n"
        path.write_text(header + src)
        lines = (header + src).split("\n")
        thms = []
        for i, ln in enumerate(lines, 1):
            m = THM.match(ln)
            if m:
                desc = ""
                j = i - 2
                while j >= 0 and lines[j].startswith("--"):
                    desc = lines[j][2:].strip() + " " + desc
                    j -= 1
                thms.append([m.group(2), i, None, desc.strip()])
        for k in range(len(thms)):
            thms[k][2] = thms[k + 1][1] - 1 if k + 1 < len(thms) else len(lines)
        rc, out, secs = _lean([str(path)])
        errs = {}
        for ln in out.split("\n"):
            m = ERR.match(ln)
            if m and (m.group(4) == "error" or "sorry" in m.group(5)):
                L = int(m.group(2))
                for nm, a, b, _ in thms:
                    if a <= L <= b:
                        errs.setdefault(nm, []).append(ln[:300])
                        break
                else:
                    errs.setdefault("<file>", []).append(ln[:300])
        for nm, a, b, desc in thms:
            bad = nm in errs or "<file>" in errs
            text = "\n".join(lines[a - 1:b])
            undecided = bad and any(("unknown identifier" in e or "unknown constant" in e or "Unknown identifier" in e or "Unknown constant" in e) for e in errs.get(nm, []) + errs.get("<file>", [])) and missing
            # a theorem that mentions a definition the generator could not produce from the current source is undecided, whatever Lean says about it
            gone = [d for d in missing_defs if re.search(rf"(?<![A-Za-z0-9_'.]){re.escape(d)}(?![A-Za-z0-9_'])", text)]
            if bad and gone:
                undecided = True
            obls.append({"name": f"lean:{f}:{nm}" + (f" — {desc}" if desc else ""), "function": f, "verdict": "unknown" if undecided else ("failed" if bad else "proved"),
                         "backend": "lean", "kind": "lean-theorem", "ms": secs * 1000 / max(1, len(thms)),
                         "output": "\n".join(errs.get(nm, []) + errs.get("<file>", []))[:1500] if bad else None,
                         "statement": text[:400]})
    _equivalence_fallback(gen, obls, files)
    return obls


def _defs_of(text):
    out = {}
    for ln in text.split("\n"):
        m = re.match(r"(?:noncomputable )?def (\S+) (.*?) : (Fin n → ℝ|ℝ|Prop) := (.*)$", ln)
        if m:
            out[m.group(1)] = (m.group(2), m.group(3), ln)
    return out


def _equivalence_fallback(gen, obls, files):
    """A proof script is written against the definitions generated from the tree it was developed on (lean/GenRef.lean, regenerated with
    tools/gen_ref.py and identical to Gen.lean on the unchanged tree).  When a theorem stops checking after a source change, the changed
    definitions are first compared with their reference: if Lean proves `Gen.f = Ref.f` for every definition whose text changed (ring
    normalisation under the binders), the code still computes the same real function, the theorems proved for the reference transfer, and
    the failure was the proof script's, not the code's.  Otherwise the failures stand."""
    failed = [o for o in obls if o["verdict"] == "failed" and o.get("kind") == "lean-theorem"]
    ref_path = LEAN_DIR / "GenRef.lean"
    if not failed or not ref_path.exists():
        return
    ref_text = ref_path.read_text()
    cur, ref = _defs_of(gen["text"]), _defs_of(ref_text)
    if not set(ref) <= set(cur) | {d for e in gen["errors"] for d in e.get("defs", [])} or any(d not in cur for d in ref):
        return                      # a definition is missing: nothing transfers
    changed = [d for d in ref if cur[d][2] != ref[d][2]]
    if not changed or any(cur[d][0] != ref[d][0] or cur[d][1] != ref[d][1] for d in changed):
        return                      # same text (the failure is not about a rewritten formula) or a changed signature
    (BUILD / "GenRef.lean").write_text("import Spec\nopen Finset Real\nset_option linter.unusedVariables false\n" + ref_text.replace("namespace Gen", "namespace Ref").replace("end Gen", "end Ref"))
    rc, out, _ = _lean(["-o", str(BUILD / "GenRef.olean"), str(BUILD / "GenRef.lean")])
    if rc != 0 or "error" in out:
        return
    body = ["import Spec", "import Gen", "import GenRef", "open Finset Real Spec", "set_option linter.unusedVariables false", "set_option linter.unusedSimpArgs false",
            "set_option linter.unusedSectionVars false", "set_option linter.unreachableTactic false", "set_option linter.unusedTactic false", "variable {n : ℕ} [NeZero n]", ""]
    unfold = ", ".join([f"Gen.{d}" for d in cur] + [f"Ref.{d}" for d in ref])
    ac = "sub_eq_add_neg, neg_add, neg_neg, neg_mul, mul_neg, add_comm, add_left_comm, add_assoc, mul_comm, mul_left_comm, mul_assoc"
    tac = f"  simp only [{unfold}]\n  first | rfl | ring | (simp only [{ac}])"
    for d in changed:
        params, typ, _ = cur[d]
        names = " ".join(re.findall(r"\((\w+) :", params))
        if typ == "Fin n → ℝ":
            body.append(f"theorem eq_{d} {params} (i : Fin n) : Gen.{d} {names} i = Ref.{d} {names} i := by\n{tac}")
        elif typ == "Prop":
            body.append(f"theorem eq_{d} {params} (i : Fin n) : Gen.{d} {names} i ↔ Ref.{d} {names} i := by\n{tac}")
        else:
            body.append(f"theorem eq_{d} {params} : Gen.{d} {names} = Ref.{d} {names} := by\n{tac}")
    (BUILD / "Equiv.lean").write_text("\n".join(body) + "\n")
    try:
        rc, out, secs = _lean([str(BUILD / "Equiv.lean")], timeout=240)
    except subprocess.TimeoutExpired:
        rc, out = 1, "timeout"
    if rc != 0 or re.search(r": error", out) or "sorry" in out:
        for o in failed:
            o["output"] = ((o.get("output") or "") + f"\n[reference comparison: the changed definition(s) {changed} could not be proved equal to their reference]")[:1500]
        return
    # the proof scripts must check against the reference definitions themselves (guards against a stale lean/GenRef.lean)
    rb = BUILD / "refcheck"
    rb.mkdir(exist_ok=True)
    (rb / "Gen.lean").write_text("import Spec\nopen Finset Real\nset_option linter.unusedVariables false\n" + ref_text)
    env = dict(os.environ, LEAN_PATH=f"{rb}:{SHARED}")

    def lean_rb(args):
        pr_ = subprocess.run(["lean"] + args, capture_output=True, text=True, cwd=str(LEAN_DIR), env=env, timeout=1500)
        return pr_.returncode, pr_.stdout + pr_.stderr
    ok = lean_rb(["-o", str(rb / "Gen.olean"), str(rb / "Gen.lean")])[0] == 0
    if ok:
        (rb / "Common.lean").write_text("import Spec\nimport Gen\n" + (LEAN_DIR / "Common.lean").read_text())
        ok = lean_rb(["-o", str(rb / "Common.olean"), str(rb / "Common.lean")])[0] == 0
    for f in sorted({o["function"] for o in failed}):
        if not ok:
            break
        src_f = BUILD / f
        if not src_f.exists():
            ok = False
            break
        (rb / f).write_text(src_f.read_text())
        rc2, out2 = lean_rb([str(rb / f)])
        if rc2 != 0 or re.search(r": error", out2):
            ok = False
    if not ok:
        return
    for o in failed:
        o["verdict"] = "proved"
        o["backend"] = "lean (the rewritten definition(s) " + ", ".join(changed) + " proved equal to the reference definitions the proof script was written for)"
        o["output"] = None
