"""Symbolic values of the pyvc executor."""
from __future__ import annotations

import itertools

import z3

_ctr = itertools.count()


def fresh(prefix="v"):
    return f"{prefix}!{next(_ctr)}"


class V:
    pass


class NoneV(V):
    def __repr__(self):
        return "None"


NONE = NoneV()


class Z(V):
    """z3-backed scalar: kind in int/real/bool"""

    __slots__ = ("e", "kind")

    def __init__(self, e, kind):
        self.e, self.kind = e, kind

    def __repr__(self):
        return f"Z({self.e}:{self.kind})"


def R(x):
    if isinstance(x, float):
        x = repr(x)
        if "e" in x or "E" in x or "inf" in x or "nan" in x:
            x = format(float(x), ".40f") if "inf" not in x and "nan" not in x else x
    return Z(z3.RealVal(x) if not z3.is_expr(x) else x, "real")


def I(x):
    return Z(z3.IntVal(x) if not z3.is_expr(x) else x, "int")


def B(x):
    return Z(z3.BoolVal(x) if not z3.is_expr(x) else x, "bool")


def to_real(v):
    if isinstance(v, Z):
        if v.kind == "int":
            return z3.ToReal(v.e)
        if v.kind == "bool":
            return z3.If(v.e, z3.RealVal(1), z3.RealVal(0))
        return v.e
    raise TypeError(f"not numeric: {v!r}")


def to_int(v):
    if isinstance(v, Z):
        if v.kind == "int":
            return v.e
        if v.kind == "bool":
            return z3.If(v.e, z3.IntVal(1), z3.IntVal(0))
    raise TypeError(f"not int: {v!r}")


class Str(V):
    def __init__(self, v):
        self.v = v

    def __repr__(self):
        return f"Str({self.v!r})"


class Sym(V):
    """value of an uninterpreted / enumerated z3 sort (namespace, dtype, generator, opaque object ...)"""

    def __init__(self, e, tag="opaque", info=None):
        self.e, self.tag, self.info = e, tag, info or {}

    def __repr__(self):
        return f"Sym({self.tag}:{self.e})"


class Tup(V):
    def __init__(self, items):
        self.items = list(items)

    def __repr__(self):
        return f"Tup{tuple(self.items)!r}"


class PyList(V):
    """list with a concrete number of (symbolic) items; mutable"""

    def __init__(self, items=()):
        self.items = list(items)

    def __repr__(self):
        return f"PyList{self.items!r}"


class SymList(V):
    """list of symbolic length: ghost view (len, last element, sum of elements, element predicate)"""

    def __init__(self, ln, last=None, sm=None, name="l", elem="real"):
        self.len, self.last, self.sum, self.name, self.elem = ln, last, sm, name, elem
        self.first = None

    def __repr__(self):
        return f"SymList({self.name}, len={self.len})"


class PyDict(V):
    """dict with a concrete key set (python str / int keys) and symbolic values; mutable"""

    def __init__(self, d=None):
        self.d = dict(d or {})

    def __repr__(self):
        return f"PyDict{self.d!r}"


class Obj(V):
    _n = itertools.count()

    def __init__(self, cls, fields=None, tag=None):
        self.id = next(Obj._n)
        self.cls = cls
        self.f = dict(fields or {})
        self.tag = tag
        self.absent = set()      # attributes known to be absent (for hasattr/delattr)

    def __repr__(self):
        return f"<{self.cls}#{self.id}>"


class Fn(V):
    """native handler: h(engine, args, kwargs, node) -> value"""

    def __init__(self, h, name="fn", bound=None):
        self.h, self.name, self.bound = h, name, bound

    def __repr__(self):
        return f"Fn({self.name})"


class Closure(V):
    def __init__(self, node, frame, module, cls=None, name=None):
        self.node, self.frame, self.module, self.cls = node, frame, module, cls
        self.name = name or node.name


class FuncRef(V):
    """a repo function / method (unbound or bound)"""

    def __init__(self, info, bound=None, via_super=False):
        self.info, self.bound, self.via_super = info, bound, via_super

    def __repr__(self):
        return f"FuncRef({self.info.qualname}, bound={self.bound!r})"


class ClassRef(V):
    def __init__(self, name):
        self.name = name

    def __repr__(self):
        return f"ClassRef({self.name})"


class Mod(V):
    """module-like namespace value (np, math, logger, xp ...)"""

    def __init__(self, name, info=None):
        self.name, self.info = name, info or {}

    def __repr__(self):
        return f"Mod({self.name})"


class Partial(V):
    def __init__(self, fn, args, kwargs):
        self.fn, self.args, self.kwargs = fn, list(args), dict(kwargs)


# --------------------------------------------------------------------------- arrays
Row = z3.DeclareSort("Row")          # one particle's coordinates
from .xreal import ER  # noqa: E402
ELEM_SORT = {"real": z3.RealSort(), "bool": z3.BoolSort(), "int": z3.IntSort(), "row": Row, "xreal": ER}


class Arr(V):
    """Array with pointwise semantics.
    n     : z3 Int, length of the leading axis
    elem  : 'real' | 'bool' | 'int' | 'row'   (row = abstract particle of a 2-D array)
    at    : python callable  i (z3 Int) -> z3 term of the element sort
    key   : canonical structural key (string); equal keys => equal arrays (never the converse)
    meta  : namespace / dtype tokens etc. (engine-level, optional)
    """

    def __init__(self, n, elem, at, key, meta=None, facts=None):
        self.n, self.elem, self.at, self.key = n, elem, at, key
        self.meta = dict(meta or {})
        # facts: callables k -> z3 Bool that hold for every valid index k (pointwise schemas instantiated by the engine
        # at the indices a goal mentions; no quantifier reaches the solver)
        self.facts = list(facts or [])

    def hyp(self, k):
        import z3 as _z3
        return _z3.And([f(k) for f in self.facts] + [_z3.BoolVal(True)])

    def __repr__(self):
        return f"Arr<{self.elem}>[{self.key[:60]}]"


_UF = {}


def uf(name, *sorts):
    k = (name,) + tuple(str(s) for s in sorts)
    if k not in _UF:
        _UF[k] = z3.Function(name, *sorts)
    return _UF[k]


def base_arr(name, elem="real", n=None, meta=None):
    """opaque array: at(i) = name(i)"""
    f = uf(f"at_{name}", z3.IntSort(), ELEM_SORT[elem])
    n = n if n is not None else z3.Int(f"len_{name}")
    return Arr(n, elem, lambda i, _f=f: _f(i), name, meta)


def const_arr(val_z3, n, elem="real"):
    return Arr(n, elem, lambda i: val_z3, f"const({val_z3.sexpr()},{n.sexpr()})")


def skey(v):
    """structural key of a value (for reductions / population identity)"""
    if isinstance(v, Arr):
        return v.key
    if isinstance(v, Z):
        return z3.simplify(v.e).sexpr()
    if isinstance(v, NoneV):
        return "None"
    if isinstance(v, Str):
        return repr(v.v)
    if isinstance(v, Sym):
        return v.e.sexpr()
    if isinstance(v, Tup):
        return "(" + ",".join(skey(x) for x in v.items) + ")"
    if isinstance(v, Obj):
        return f"obj#{v.id}"
    return f"<{type(v).__name__}:{id(v)}>"
