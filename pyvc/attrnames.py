"""private attribute names occurring in a source tree, and the stale-name guard built on them"""
from __future__ import annotations

import ast
import json
import pathlib
import re


def private_names(src_dir) -> set:
    out = set()
    for f in pathlib.Path(src_dir).rglob("*.py"):
        try:
            tree = ast.parse(f.read_text())
        except SyntaxError:
            continue
        for x in ast.walk(tree):
            if isinstance(x, ast.Attribute) and x.attr.startswith("_") and not x.attr.startswith("__"):
                out.add(x.attr)
            if isinstance(x, ast.Call) and isinstance(x.func, ast.Name) and x.func.id in ("getattr", "hasattr", "setattr", "delattr") and len(x.args) >= 2 \
                    and isinstance(x.args[1], ast.Constant) and isinstance(x.args[1].value, str) and x.args[1].value.startswith("_"):
                out.add(x.args[1].value)
            if isinstance(x, (ast.AnnAssign,)) and isinstance(x.target, ast.Name) and x.target.id.startswith("_"):
                out.add(x.target.id)          # dataclass fields
    return out


_NAME = re.compile(r"""["'](_[A-Za-z][A-Za-z0-9_]*)["']""")


def stale_names(contracts_dir, src_dir) -> dict:
    """contract module name -> private attribute names it mentions that existed in the reference tree and are gone from the current source"""
    cdir = pathlib.Path(contracts_dir)
    ref_file = cdir / "attr_names.json"
    if not ref_file.exists():
        return {}
    ref = set(json.loads(ref_file.read_text()))
    cur = private_names(src_dir)
    out = {}
    for f in cdir.glob("*.py"):
        used = set(_NAME.findall(f.read_text())) & ref
        gone = sorted(used - cur)
        if gone:
            out[f"contracts.{f.stem}"] = gone
    return out
