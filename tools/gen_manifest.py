"""regenerates MANIFEST.json from checks.REGISTRY (the registry is the single source of truth)"""
import json, sys, pathlib, subprocess
ROOT = pathlib.Path(__file__).resolve().parent.parent
sys.path.insert(0, str(ROOT))
from checks import REGISTRY  # noqa: E402
props = [json.loads(l) for l in open(ROOT / "properties.jsonl")]
hooks_commits = []
checks = []
for p in props:
    pid = p["id"]
    if pid not in REGISTRY:
        continue
    s = REGISTRY[pid]
    fuc = ", ".join(q.split(":")[1] for q in s.functions[:12]) + (" ..." if len(s.functions) > 12 else "")
    text = (s.technique[0].upper() + s.technique[1:]) if s.technique else ""
    text += f" Functions under contract: {fuc or 'see Lean definitions generated from the source'}." + (f" Lean files: {', '.join(s.lean)}." if s.lean else "")
    text += " Obligations are discharged for all values of the symbolic inputs (no sampling, no bound) under the listed assumptions; the bounded native stand-in is reported separately and never counted as discharged."
    note = "Trusted: z3 5.1, Lean 4.33 + Mathlib, the pyvc encoding of Python semantics (floats as reals, ints exact, static class table), the assumed contracts of external libraries listed in the evidence. " + " ".join(s.assumptions[:4])
    if s.miss:
        note += " Not seen: " + "; ".join(s.miss) + "."
    checks.append({
        "property_id": pid, "quick_cmd": f"./check {pid} --tier quick", "thorough_cmd": f"./check {pid} --tier thorough",
        "evidence_file": f"evidence/{pid}.json", "replay_cmd_template": f"./check {pid} --replay {{path}}", "engine": "pyvc",
        "level_claimed": {"category": "proof", "text": text, "design_ref": f"DESIGN.md section 7 {pid}"},
        "level_note": note, "technique": "contract-based deductive verification of the real code (sidecar contracts; VCs from the Python ast discharged by z3; analytic lemmas in Lean 4 over definitions generated from the source) + bounded native stand-in",
    })
na = [{"property_id": "C01", "reason": "statistical calibration of estimators over random streams of third-party kernels and a trained flow: not expressible as a pre/postcondition of any function within reach of a deductive verifier; its algebraic premises are claimed separately (C02, C04, C05, C08, C09, C10)"}]
for p in props:
    if p["id"] not in REGISTRY and p["id"] != "C01":
        na.append({"property_id": p["id"], "reason": "contracts for this property are not built yet (work in progress); no claim is made"})
m = {
    "version": 1, "setup_cmd": "./setup.sh",
    "hooks": {"guard": "ASPIRE_VERIF", "enable": "no source hook is needed: verification conditions are generated from the source text of /repo/src/aspire and replays drive the real classes from outside (stub kernel packages on sys.path); ./check exports ASPIRE_VERIF=1 for symmetry",
              "baseline_off_cmd": "cd /repo && /venv/bin/python -m pytest -ra -q -p no:cacheprovider --timeout=900 --continue-on-collection-errors", "source_commits": [], "add_only": True},
    "engines": [{"name": "pyvc", "path": "pyvc/", "serves_properties": sorted(REGISTRY), "kind_free_text": "sidecar-contract verification-condition generator: symbolic executor over the Python ast of the real functions (path replay, loop invariants, modular callee contracts, heap identities, extended reals, HDF5 model), obligations discharged by z3; Lean 4 + Mathlib for analytic lemmas over definitions generated from the source by py2lean; bounded native stand-ins"}],
    "checks": checks, "not_applicable": na,
    "notes": "Genuine defects of the pinned tree were repaired in /repo as separate 'fix:' commits (listed in known_findings.json under fixed); remaining ones are open known findings (known_findings.json)."
}
(ROOT / "MANIFEST.json").write_text(json.dumps(m, indent=1))
print(len(checks), "checks;", [x["property_id"] for x in na])
