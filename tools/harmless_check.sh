#!/bin/bash
# usage: harmless_check.sh <patch.diff> <tag> <Cxx> [<Cxx> ...] : applies a behaviour-preserving change to /repo, runs the listed checks
# (quick tier, 4 at a time, evidence redirected), restores /repo.  Every check is expected to exit 0.
P=$1; TAG=$2; shift 2
mkdir -p /tmp/harmless_eval
cd /repo && git apply $P || { echo "$TAG PATCH DOES NOT APPLY"; exit 9; }
cd /verif
printf "%s\n" "$@" | xargs -P 4 -I{} bash -c "ASPIRE_VERIF_EVIDENCE_DIR=/tmp/harmless_eval/evidence timeout 1800 ./check {} --tier quick > /tmp/harmless_eval/${TAG}_{}.log 2>&1; echo \"$TAG {} exit=\$?\""
git -C /repo checkout -- .
