"""z3 part of *all* verification contracts in one pass (no property filter): used for false-alarm regressions on behaviour-preserving patches.
usage: ASPIRE_REPO=<tree> tools/union_z3.py   -> prints every obligation that is not proved and does not match an open known finding; exit 0 iff none"""
import json, os, re, sys
sys.path.insert(0, os.path.dirname(os.path.dirname(os.path.abspath(__file__))))
from pyvc.run import load, verify_many
from pyvc.contracts import Contract
front, reg, cs = load()
quals = sorted(q for q, c in cs.items() if type(c).setup is not Contract.setup)
res = verify_many(quals, workers=int(os.environ.get("PYVC_WORKERS", "16")))
known = [re.compile(e["match"]) for e in json.load(open(os.path.join(os.path.dirname(os.path.abspath(__file__)), "..", "known_findings.json")))["open"]]
bad, und = set(), set()
for r in res:
    if r["status"] != "ok":
        und.add(f"{r['label']}: {r['status']} {str(r.get('reason'))[:160]}")
    for o in r["obligations"]:
        if o["verdict"] != "proved" and not any(k.search(o["name"]) for k in known):
            bad.add(f"{o['verdict'].upper()} {o['name'][:220]}")
for b in sorted(bad):
    print(b)
for u in sorted(und):
    print("UNDECIDED", u)
print(f"union: {len(quals)} contracts, {sum(len(r['obligations']) for r in res)} obligations, {len(bad)} not proved, {len(und)} undecided")
sys.exit(1 if bad else (2 if und else 0))
