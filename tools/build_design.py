"""assembles DESIGN.md from design_main.md (the design written before the code, with the @@PART1@@ marker) and design_part1.md (as built),
and fills the table of seeded changes (@@SEEDED_TABLE@@) from seeded/*/meta.json"""
import pathlib, subprocess, sys
ROOT = pathlib.Path(__file__).resolve().parent.parent
main = (ROOT / "design_main.md").read_text()
part1 = (ROOT / "design_part1.md").read_text()
table = subprocess.run([sys.executable, str(ROOT / "tools" / "seeded_table.py")], capture_output=True, text=True).stdout
part1 = part1.replace("@@SEEDED_TABLE@@", table.strip())
assert "@@PART1@@" in main
(ROOT / "DESIGN.md").write_text(main.replace("@@PART1@@", part1.strip() + "\n\n---------------------------------------------------------------------------------------\n"))
print("DESIGN.md written:", len((ROOT / "DESIGN.md").read_text().splitlines()), "lines")
