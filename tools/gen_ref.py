"""writes lean/GenRef.lean: the definitions py2lean generates from the *current* tree, kept as the reference the proof scripts were written for
(used only by the equivalence fallback of pyvc/lean.py when a theorem stops checking after a source change).  Run on the unchanged tree."""
import sys
sys.path.insert(0, "/verif")
from pyvc.front import Front
from pyvc.py2lean import generate
text, index, dropped, errors = generate(Front())
assert not errors, errors
open("/verif/lean/GenRef.lean", "w").write(text)
print(len(index), "definitions written to lean/GenRef.lean")
