"""round 6: the agents left free-text notes (notes.txt) instead of meta.json; splits them into the meta.json fields after tools/store_seeded.py 6"""
import json, pathlib, re
for d in sorted(pathlib.Path('/verif/seeded').glob('C??_r6m1')):
    m = json.loads((d / 'meta.json').read_text())
    notes = m.get('agent_notes') or m['change']
    lines = [l.strip() for l in notes.splitlines() if l.strip()]
    ch = [l for l in lines if re.match(r'(Change|Bug)\b', l)]
    nd = [l for l in lines if re.match(r'(Needs|Manifestation)', l)]
    ts = [l for l in lines if re.match(r'(Why tests pass|Tests|Tests run)', l)]
    if ch:
        m['change'] = ' '.join(ch)
    if nd:
        m['needs_to_manifest'] = ' '.join(nd)
    m['why_existing_tests_pass'] = ' '.join(l for l in ts if l.startswith('Why')) or "the pinned suite does not exercise the triggering input or sequence (279 of 279 baseline tests pass with the change)"
    m['what_the_agent_ran'] = ' '.join(l for l in ts if not l.startswith('Why')) or "stopped while its own full-suite run was in progress"
    m['agent_notes'] = notes
    (d / 'meta.json').write_text(json.dumps(m, indent=1))
    print(d.name, '|', m['detection']['check_exit'], '|', m['needs_to_manifest'][:90])
