#!/bin/bash
# usage: eval_patch.sh <patch.diff> <tag> <Cxx> [...]  : evaluates a change on a scratch copy of /repo HEAD (never touches /repo):
# exports HEAD to /tmp/evalcopies/<tag>, applies the patch there, runs the listed checks with ASPIRE_REPO=<copy>, removes the copy.
P=$1; TAG=$2; shift 2
D=/tmp/evalcopies/$TAG
rm -rf $D; mkdir -p $D /tmp/evalcopies/logs
git -C /repo archive HEAD src | tar -x -C $D
[ -s $P ] && { ( cd $D && patch -s -p1 < $P ) || { echo "$TAG PATCH DOES NOT APPLY"; rm -rf $D; exit 9; }; }
cd /verif
for c in "$@"; do
  ASPIRE_REPO=$D ASPIRE_VERIF_EVIDENCE_DIR=/tmp/evalcopies/evidence_$TAG timeout 1800 ./check $c --tier quick > /tmp/evalcopies/logs/${TAG}_$c.log 2>&1
  echo "$TAG $c exit=$?"
done
rm -rf $D /tmp/evalcopies/evidence_$TAG
