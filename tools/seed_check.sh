#!/bin/bash
# usage: seed_check.sh <Cxx> <mK> [property]  : applies a candidate change to /repo, runs ./check <property> --tier quick, restores /repo
ID=$1; M=$2; P=${3:-$ID}
SRC=${SEEDDIR:-/tmp/mut}/$ID/$M
cd /repo && git apply $SRC/patch.diff || { echo "PATCH DOES NOT APPLY"; exit 9; }
cd /verif && ASPIRE_VERIF_EVIDENCE_DIR=/tmp/seedeval/evidence timeout 1500 ./check $P --tier quick > /tmp/seedeval/${ID}_${M}_check_$P.log 2>&1; rc=$?
git -C /repo checkout -- .
echo "$ID $M -> check $P exit=$rc"; grep -E "^(VIOLATION|UNDECIDED|CHECKER-DEFECT)" /tmp/seedeval/${ID}_${M}_check_$P.log | cut -c1-260 | head -4
