#!/bin/bash
# runs every registered check (quick tier) and prints one line per property
cd /verif
for p in $(python3 -c "import json; print(' '.join(c['property_id'] for c in json.load(open('MANIFEST.json'))['checks']))"); do
  s=$(date +%s); ./check $p --tier ${1:-quick} > /tmp/runall_$p.log 2>&1; rc=$?; e=$(date +%s)
  echo "$p exit=$rc $((e-s))s $(grep -c '^KNOWN-FINDING' /tmp/runall_$p.log) known  $(grep -E '^\[' /tmp/runall_$p.log | tail -1 | cut -c1-60)"
done
