"""Mutation self-test of the contracts (development tool, also usable as `tools/mutate.py <qual> ...`).

For each function under contract given on the command line (qualified name as used by the contracts, e.g.
`samplers.smc.base:SMCSampler.determine_beta`), systematic small semantic edits of the function body are generated from its ast,
each edit is written into a *scratch copy* of the package source (never into /repo), and the verification conditions of that function
are regenerated from the scratch copy (ASPIRE_REPO=<scratch>).  A mutant is *killed* when a named obligation fails, *undecided* when
the engine stops (unsupported construct / unknown), and a *survivor* when every obligation still discharges: a survivor is either an
equivalent mutant or a weakness of the contract, and is listed for inspection.

usage: tools/mutate.py [--max N] [--workers W] [--shapes K] [--extra qual,qual] <qual> [<qual> ...]
       --extra: further functions whose obligations are re-run for every mutant (callers that inline the mutated function)
"""
from __future__ import annotations

import argparse
import ast
import copy
import json
import os
import pathlib
import shutil
import subprocess
import sys
from concurrent.futures import ThreadPoolExecutor

ROOT = pathlib.Path(__file__).resolve().parent.parent
REPO = pathlib.Path(os.environ.get("ASPIRE_REPO", "/repo"))
SCRATCH = pathlib.Path(os.environ.get("MUTATE_SCRATCH", "/tmp/pyvc_mutants"))

CMP = {ast.Lt: ast.LtE, ast.LtE: ast.Lt, ast.Gt: ast.GtE, ast.GtE: ast.Gt, ast.Eq: ast.NotEq, ast.NotEq: ast.Eq, ast.Is: ast.IsNot, ast.IsNot: ast.Is}
BIN = {ast.Add: ast.Sub, ast.Sub: ast.Add, ast.Mult: ast.Div, ast.Div: ast.Mult}


def locate(qual):
    mod, fn = qual.split(":")
    path = REPO / "src" / "aspire" / (mod.replace(".", "/") + ".py")
    tree = ast.parse(path.read_text())
    parts = fn.split(".")
    node = tree
    for p in parts:
        for ch in ast.iter_child_nodes(node):
            if isinstance(ch, (ast.FunctionDef, ast.ClassDef)) and ch.name == p:
                node = ch
                break
        else:
            raise SystemExit(f"cannot find {qual}")
    if fn.endswith(".setter"):
        pass
    return path, tree, node


def sites(fn):
    """-> list of (description, mutator(node_in_copy)) addressed by the index of the node in ast.walk order"""
    out = []
    nodes = list(ast.walk(fn))
    for idx, n in enumerate(nodes):
        ln = getattr(n, "lineno", 0)
        if isinstance(n, ast.Compare):
            for k, op in enumerate(n.ops):
                if type(op) in CMP:
                    out.append((idx, f"L{ln}: `{ast.unparse(n)}`: {type(op).__name__} -> {CMP[type(op)].__name__}", ("cmp", k)))
        elif isinstance(n, ast.BinOp) and type(n.op) in BIN:
            out.append((idx, f"L{ln}: `{ast.unparse(n)}`: {type(n.op).__name__} -> {BIN[type(n.op)].__name__}", ("bin",)))
        elif isinstance(n, ast.BoolOp):
            out.append((idx, f"L{ln}: `{ast.unparse(n)[:60]}`: and <-> or", ("bool",)))
        elif isinstance(n, ast.UnaryOp) and isinstance(n.op, (ast.USub, ast.Not)):
            out.append((idx, f"L{ln}: `{ast.unparse(n)[:60]}`: drop unary {type(n.op).__name__}", ("unary",)))
        elif isinstance(n, ast.Constant) and isinstance(n.value, (int, float)) and not isinstance(n.value, bool):
            new = {0: 1, 1: 0, 1.0: 0.5, 0.5: 1.0, 0.0: 1.0, 2: 1}.get(n.value)
            if new is not None:
                out.append((idx, f"L{ln}: constant {n.value!r} -> {new!r}", ("const", new)))
        elif isinstance(n, ast.Constant) and isinstance(n.value, bool):
            out.append((idx, f"L{ln}: constant {n.value!r} -> {not n.value!r}", ("const", not n.value)))
        elif isinstance(n, ast.If):
            out.append((idx, f"L{ln}: `if {ast.unparse(n.test)[:60]}`: negate the test", ("negif",)))
        elif isinstance(n, ast.AugAssign):
            out.append((idx, f"L{ln}: `{ast.unparse(n)[:70]}`: delete statement", ("del",)))
            out.append((idx, f"L{ln}: `{ast.unparse(n)[:70]}`: += -> =", ("aug2assign",)))
        elif isinstance(n, ast.Expr) and isinstance(n.value, ast.Call):
            txt = ast.unparse(n.value)
            if not txt.startswith(("logger.", "print(", "warnings.")):
                out.append((idx, f"L{ln}: `{txt[:70]}`: delete call statement", ("del",)))
        elif isinstance(n, ast.Assign) and len(n.targets) == 1 and isinstance(n.targets[0], (ast.Name, ast.Attribute)) and not isinstance(n.value, ast.Constant):
            out.append((idx, f"L{ln}: `{ast.unparse(n)[:70]}`: delete assignment", ("del",)))
        elif isinstance(n, ast.Call) and len(n.args) >= 2 and all(isinstance(a, ast.Name) for a in n.args[:2]) and n.args[0].id != n.args[1].id:
            out.append((idx, f"L{ln}: `{ast.unparse(n)[:70]}`: swap first two arguments", ("swapargs",)))
        elif isinstance(n, ast.Return) and isinstance(n.value, ast.Tuple) and len(n.value.elts) == 2:
            out.append((idx, f"L{ln}: `{ast.unparse(n)[:70]}`: swap returned pair", ("swapret",)))
    return out


def apply(tree, fn_path, idx, how):
    t = copy.deepcopy(tree)
    node = t
    for p in fn_path:
        for ch in ast.iter_child_nodes(node):
            if isinstance(ch, (ast.FunctionDef, ast.ClassDef)) and ch.name == p:
                node = ch
                break
    nodes = list(ast.walk(node))
    n = nodes[idx]
    kind = how[0]
    if kind == "cmp":
        n.ops[how[1]] = CMP[type(n.ops[how[1]])]()
    elif kind == "bin":
        n.op = BIN[type(n.op)]()
    elif kind == "bool":
        n.op = ast.Or() if isinstance(n.op, ast.And) else ast.And()
    elif kind == "const":
        n.value = how[1]
    elif kind == "negif":
        n.test = ast.UnaryOp(op=ast.Not(), operand=n.test)
    elif kind == "swapargs":
        n.args[0], n.args[1] = n.args[1], n.args[0]
    elif kind == "swapret":
        n.value.elts[0], n.value.elts[1] = n.value.elts[1], n.value.elts[0]
    elif kind in ("del", "aug2assign", "unary"):
        # needs the parent
        for parent in ast.walk(node):
            for field, val in ast.iter_fields(parent):
                if isinstance(val, list) and n in val:
                    k = val.index(n)
                    if kind == "del":
                        val[k] = ast.Pass()
                    elif kind == "aug2assign":
                        val[k] = ast.Assign(targets=[n.target], value=n.value, lineno=n.lineno)
                    break
                if val is n and kind == "unary":
                    setattr(parent, field, n.operand)
                    break
            else:
                continue
            break
        if kind == "unary":
            for parent in ast.walk(node):
                for field, val in ast.iter_fields(parent):
                    if isinstance(val, list) and n in val:
                        val[val.index(n)] = n.operand
    ast.fix_missing_locations(t)
    return ast.unparse(t)


def run_one(slot, rel, text, quals, shapes):
    d = SCRATCH / f"w{slot}"
    tgt = d / "src" / "aspire" / rel
    orig = tgt.read_text()
    tgt.write_text(text)
    try:
        env = dict(os.environ, ASPIRE_REPO=str(d), PYVC_WORKERS=os.environ.get("MUTATE_INNER", "4"), PYTHONPATH=f"{ROOT}:{d}/src:{ROOT}/stubs")
        if shapes and str(shapes).isdigit() and int(shapes):
            env["PYVC_FIRST"] = str(shapes)
        elif shapes:
            env["PYVC_ONLY"] = str(shapes)
        cmd = [str(ROOT / ".venv/bin/python"), str(ROOT / "tools" / "lean_probe.py")] if os.environ.get("MUTATE_LEAN") else [str(ROOT / ".venv/bin/python"), "-m", "pyvc.run"] + quals
        p = subprocess.run(cmd, env=env, capture_output=True, text=True, cwd=str(ROOT), timeout=1800)
        out = p.stdout + p.stderr[-500:]
    except subprocess.TimeoutExpired:
        out = "TIMEOUT"
    finally:
        tgt.write_text(orig)
    failed = sorted({l.strip().split(" {")[0][7:] for l in out.splitlines() if l.strip().startswith("FAILED")})
    unknown = [l.strip() for l in out.splitlines() if l.strip().startswith("UNKNOWN") or "unsupported" in l or "out-of-date" in l or "crash" in l or "Traceback" in l or l == "TIMEOUT"]
    return failed, unknown


def main():
    ap = argparse.ArgumentParser()
    ap.add_argument("quals", nargs="+")
    ap.add_argument("--max", type=int, default=0)
    ap.add_argument("--workers", type=int, default=4)
    ap.add_argument("--shapes", type=int, default=0, help="only the first K shapes of each contract (for the very large ones)")
    ap.add_argument("--lean", action="store_true", help="evaluate mutants with the Lean back end (definitions regenerated by py2lean) instead of the z3 contracts")
    ap.add_argument("--only", default="", help="comma separated task indices (PYVC_ONLY) instead of the first K")
    ap.add_argument("--extra", default="")
    ap.add_argument("--json", default="")
    a = ap.parse_args()
    if a.lean:
        os.environ["MUTATE_LEAN"] = "1"
    shutil.rmtree(SCRATCH, ignore_errors=True)
    for w in range(a.workers):
        (SCRATCH / f"w{w}" / "src").mkdir(parents=True)
        shutil.copytree(REPO / "src" / "aspire", SCRATCH / f"w{w}" / "src" / "aspire")
    report = {}
    try:
        for qual in a.quals:
            path, tree, fn = locate(qual)
            rel = str(path.relative_to(REPO / "src" / "aspire"))
            fn_path = qual.split(":")[1].split(".")
            ss = sites(fn)
            if a.max:
                step = max(1, len(ss) // a.max)
                ss = ss[::step][:a.max]
            quals = [qual] + [q for q in a.extra.split(",") if q]
            jobs = []
            for idx, desc, how in ss:
                try:
                    text = apply(tree, fn_path, idx, how)
                    ast.parse(text)
                except Exception as e:  # noqa: BLE001
                    continue
                jobs.append((desc, text))
            res = []
            import itertools
            import queue
            free = queue.Queue()
            for w in range(a.workers):
                free.put(w)

            def work(job):
                slot = free.get()
                try:
                    return job[0], run_one(slot, rel, job[1], quals, a.only or a.shapes)
                finally:
                    free.put(slot)
            with ThreadPoolExecutor(max_workers=a.workers) as ex:
                res = list(ex.map(work, jobs))
            killed = [(d, f) for d, (f, u) in res if f]
            undec = [(d, u) for d, (f, u) in res if not f and u]
            surv = [d for d, (f, u) in res if not f and not u]
            print(f"== {qual}: {len(res)} mutants, killed {len(killed)}, undecided {len(undec)}, survivors {len(surv)}")
            for d in surv:
                print("   SURVIVOR", d)
            for d, u in undec:
                print("   UNDECIDED", d, "|", u[0][:120])
            report[qual] = {"mutants": len(res), "killed": len(killed), "undecided": len(undec), "survivors": surv,
                            "killed_by": {d: f[:3] for d, f in killed}}
    finally:
        shutil.rmtree(SCRATCH, ignore_errors=True)
    if a.json:
        pathlib.Path(a.json).write_text(json.dumps(report, indent=1))


if __name__ == "__main__":
    main()
