"""prints the markdown table of DESIGN.md I.8 from seeded/*/meta.json"""
import json, pathlib
rows = []
for d in sorted(pathlib.Path("/verif/seeded").glob("C*")):
    m = json.loads((d / "meta.json").read_text())
    det = m["detection"]
    ob = [o for o in det.get("failed_obligations_or_cases", []) if o]
    def short(o):
        o = o.replace("samplers.smc.base:", "").replace("samplers.", "").replace("samples:", "").replace("transforms:", "").replace("aspire:", "").replace("utils:", "")
        return o[:150]
    first = next((o for o in ob if not o.startswith("[native")), ob[0] if ob else "")
    nat = any(o.startswith("[native") for o in ob)
    rows.append((d.name, m["property"], (m.get("change") or "")[:170].replace("|", "/").replace("\n", " "), det.get("check_exit"), short(first).replace("|", "/"), "yes" if nat else "no"))
print("| seeded change | what it does (abridged) | exit | first failing obligation / case | failing input from the stand-in |")
print("|---|---|---|---|---|")
for r in rows:
    print(f"| `{r[0]}` | {r[2]} | {r[3]} | {r[4]} | {r[5]} |")
