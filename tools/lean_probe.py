"""runs the Lean back end on the source tree given by ASPIRE_REPO and prints one line per theorem that does not check (used by tools/mutate.py --lean)"""
import sys, json
sys.path.insert(0, "/verif")
from pyvc import lean
res = lean.run(["C02.lean", "C04.lean", "SMC.lean", "@range"], "ALL")
for o in res:
    if o["verdict"] != "proved":
        print(("FAILED " if o["verdict"] == "failed" else "UNKNOWN ") + o["name"][:160])
for e in lean.LAST_GEN.get("errors", []):
    print("UNKNOWN not-translatable " + e["function"] + " " + e["error"][:100])
print("lean theorems:", len(res))
