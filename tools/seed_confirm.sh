#!/bin/bash
# usage: seed_confirm.sh <Cxx> <mK>   -- confirms a candidate seeded change in a scratch worktree:
#   demo passes on the clean tree, fails with the patch; full pinned suite with the patch == baseline pass set
set -u
ID=$1; M=$2
SRC=${SEEDDIR:-/tmp/mut}/$ID/$M
OUT=${SEEDOUT:-/tmp/seedeval}/${ID}_${M}
mkdir -p $OUT
WT=/tmp/seedwt/${SEEDTAG:-r1}_${ID}_${M}
rm -rf $WT; git -C /repo worktree prune; git -C /repo worktree add -q --detach $WT HEAD || exit 9
export JAX_PLATFORMS=cpu OMP_NUM_THREADS=2 MKL_NUM_THREADS=2
cd $WT
PYTHONPATH=$WT/src timeout 1200 /venv/bin/python $SRC/demo.py > $OUT/demo_clean.log 2>&1; echo "demo_clean_rc=$?" > $OUT/result.txt
if ! git apply --check $SRC/patch.diff 2> $OUT/apply.log; then echo "apply=FAIL" >> $OUT/result.txt; git -C /repo worktree remove --force $WT; exit 1; fi
git apply $SRC/patch.diff
PYTHONPATH=$WT/src timeout 1200 /venv/bin/python $SRC/demo.py > $OUT/demo_patched.log 2>&1; echo "demo_patched_rc=$?" >> $OUT/result.txt
PYTHONPATH=$WT/src timeout 3000 /venv/bin/python -m pytest -q -p no:cacheprovider --timeout=900 --continue-on-collection-errors --junitxml=$OUT/junit.xml -x --co -q > /dev/null 2>&1
PYTHONPATH=$WT/src timeout 3000 /venv/bin/python -m pytest -q -p no:cacheprovider --timeout=900 --continue-on-collection-errors --junitxml=$OUT/junit.xml > $OUT/pytest.log 2>&1
/venv/bin/python - <<PY >> $OUT/result.txt
import json, xml.etree.ElementTree as ET
b=json.load(open('/root/.vp/BASELINE.json')); stable=set(b['stable_pass'])
passed=set()
for tc in ET.parse('$OUT/junit.xml').iter('testcase'):
    if not any(c.tag in ('failure','error','skipped') for c in tc): passed.add(f"{tc.get('classname')}::{tc.get('name')}")
print('suite_passed=%d missing_from_baseline=%d' % (len(passed), len(stable-passed)))
for t in sorted(stable-passed)[:5]: print('  missing', t)
PY
cd /; git -C /repo worktree remove --force $WT
cat $OUT/result.txt
