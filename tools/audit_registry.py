"""lists (property, contract) pairs whose obligations are tagged for the property although the property's check does not run that contract"""
import sys, re, os
sys.path.insert(0, '/verif')
from pyvc.run import load, verify_many
from pyvc.contracts import Contract
from checks import REGISTRY
front, reg, cs = load()
quals = sorted(q for q, c in cs.items() if type(c).setup is not Contract.setup)
res = verify_many(quals, workers=14)
TAG = re.compile(r"\bC\d\d\b")
tags = {}
for r in res:
    for o in r["obligations"]:
        for t in TAG.findall(o["name"]):
            tags.setdefault(r["function"], set()).add(t)
reg_of = {}
for pid, s in REGISTRY.items():
    for q in s.functions:
        reg_of.setdefault(q, set()).add(pid)
n = 0
for q in quals:
    for t in sorted(tags.get(q, ())):
        if t not in reg_of.get(q, set()):
            print("tagged but not registered:", t, q); n += 1
print(n, "pairs;", len(quals), "verification contracts")
