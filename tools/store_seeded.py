"""copies confirmed seeded changes from the scratch area into /verif/seeded/<id>_<m>/ (patch.diff, demo.py, meta.json)
usage: store_seeded.py  (reads /tmp/mut, /tmp/seedeval)"""
import json, pathlib, re, shutil
import sys
ROUND = sys.argv[1] if len(sys.argv) > 1 else "1"
MUT = pathlib.Path({"1": "/tmp/mut", "2": "/tmp/mut2", "3": "/tmp/mut3", "4": "/tmp/mut4", "5": "/tmp/mut5", "6": "/tmp/mut6"}[ROUND])
EV = pathlib.Path({"1": "/tmp/seedeval", "2": "/tmp/seedeval2", "3": "/tmp/seedeval3", "4": "/tmp/seedeval4", "5": "/tmp/seedeval5", "6": "/tmp/seedeval6"}[ROUND])
LOGS = pathlib.Path("/tmp/evalcopies/logs")
OUT = pathlib.Path("/verif/seeded")
OUT.mkdir(exist_ok=True)
rows = []
for d in sorted(MUT.glob("C??/m?")):
    pid, m = d.parent.name, d.name
    res = EV / f"{pid}_{m}" / "result.txt"
    if not res.exists():
        continue
    r = dict(l.strip().split("=", 1) for l in res.read_text().splitlines() if "=" in l and not l.startswith(" "))
    sp = re.search(r"suite_passed=(\d+) missing_from_baseline=(\d+)", res.read_text())
    ok = r.get("demo_clean_rc") == "0" and r.get("demo_patched_rc") not in (None, "0") and sp and sp.group(2) == "0"
    if not ok:
        print("NOT CONFIRMED", pid, m, r)
        continue
    if (d / "meta.json").exists():
        meta0 = json.loads((d / "meta.json").read_text())
    else:  # round 6: the agent left free-text notes only
        notes = (d / "notes.txt").read_text().strip() if (d / "notes.txt").exists() else ""
        meta0 = {"summary": notes, "needs_to_manifest": "see the change description (agent's notes, verbatim)", "why_tests_pass": "see the change description", "ran": "see the change description"}
    name = f"{pid}_{m}" if ROUND == "1" else f"{pid}_r{ROUND}{m}"
    tgt = OUT / name
    tgt.mkdir(exist_ok=True)
    shutil.copy(d / "patch.diff", tgt / "patch.diff")
    demo = (d / "demo.py").read_text().replace("/tmp/agent_stubs", "/verif/stubs")
    demo = re.sub(r"/tmp/wt[23456]?/C\d\d(/src)?", "/repo/src", demo)
    (tgt / "demo.py").write_text(demo)
    # detection by the property's own check (quick tier), from the last run of tools/seed_check.sh
    # detection: the last scratch-copy run of the property's own check against this change (tools/eval_patch.sh, tag S<round><id><m>)
    log = LOGS / f"S{ROUND}{pid}{m}_{pid}.log"
    text = log.read_text() if log.exists() else ""
    lines = [l for l in text.splitlines() if l.startswith(("VIOLATION", "UNDECIDED", "CHECKER-DEFECT"))]
    det = None
    ex = LOGS / f"S{ROUND}{pid}{m}.exit"
    if ex.exists():
        for l in ex.read_text().splitlines():
            mm = re.match(rf"S{ROUND}{pid}{m} {pid} exit=(\d+)", l)
            if mm:
                det = mm.group(1)
    names = []
    for l in lines:
        mm = re.search(r"replay=(\S+)", l)
        nm = None
        if mm and pathlib.Path(mm.group(1)).exists():
            try:
                jj = json.loads(pathlib.Path(mm.group(1)).read_text())
                nm = jj.get("obligation")
                if jj.get("native_input") and jj["native_input"].get("id") not in (None, "counter-model"):
                    nm = f"[native case {jj['native_input']['id']}] {jj['native_input'].get('what', '')[:160]}"
            except Exception:
                pass
        names.append(nm or l[:200])
    meta = {
        "property": pid,
        "change": meta0.get("summary"),
        "needs_to_manifest": meta0.get("needs_to_manifest"),
        "why_existing_tests_pass": meta0.get("why_tests_pass"),
        "origin": "written by a fresh sub-agent that was given only the text of the property and a scratch git worktree of the repository (nothing from /verif)"
                  + ("; rebased (git apply --3way) onto the repaired tree: the original patch no longer applied after a fix: commit touched the same lines" if (d / "patch_orig.diff").exists() else "")
        + ("; second round: the agent was also told which two changes were already known for this property and asked for different mechanisms" if ROUND == "2" else "")
        + ("; third round: the agent was told the mechanisms of the four changes already known for this property and asked for three further, different ones" if ROUND == "3" else "")
        + ("; fourth round: the agent was told the mechanisms of the seven changes already known for this property and asked for three further, different ones" if ROUND == "4" else "")
        + ("; fifth round (six properties): the agent was told the mechanisms of the ten changes already known for this property, asked for three further ones, with a 40-minute budget" if ROUND == "5" else "")
        + ("; sixth round (eight properties, one change each, 15-minute budget, no list of known mechanisms)" if ROUND == "6" else ""),
        "what_the_agent_ran": meta0.get("ran"),
        "what_i_ran_to_confirm": {
            "cmd": f"tools/seed_confirm.sh {pid} {m}  (scratch worktree of /repo HEAD; demo.py on the clean tree, then with patch.diff applied; then the full pinned test suite with the patch)",
            "demo_exit_clean_tree": int(r["demo_clean_rc"]), "demo_exit_with_change": int(r["demo_patched_rc"]),
            "suite_passed_with_change": int(sp.group(1)), "baseline_tests_missing": int(sp.group(2)),
        },
        "detection": {
            "cmd": f"tools/eval_patch.sh seeded/{name}/patch.diff <tag> {pid}   (scratch copy of /repo HEAD with the change applied, ASPIRE_REPO=<copy> ./check {pid} --tier quick; "
                   f"equivalently: git -C /repo apply seeded/{name}/patch.diff; ./check {pid}; git -C /repo checkout -- .)",
            "check_exit": int(det) if det and det.isdigit() else det,
            "violations_reported": len([l for l in lines if l.startswith("VIOLATION")]),
            "failed_obligations_or_cases": sorted(set(names))[:8],
        },
    }
    (tgt / "meta.json").write_text(json.dumps(meta, indent=1))
    rows.append((pid, m, meta))
print(len(rows), "stored")
