#!/bin/bash
# usage: with_patch.sh <patch> <command...>  : applies the patch to /repo, runs the command, always restores /repo
P=$1; shift
cd /repo && git apply "$P" || { echo "PATCH DOES NOT APPLY"; exit 9; }
cd /verif && "$@"; rc=$?
git -C /repo checkout -- . ; exit $rc
