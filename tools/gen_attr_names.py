"""records the private attribute names (`._x`, getattr(.., "_x")) that exist in the reference tree: contracts/attr_names.json.
Used by the runner's stale-name guard: a contract file that names a private attribute which existed in the reference tree but no longer exists
anywhere in the current source is out of date (the attribute was renamed or removed) - its failed obligations are undecided, not violations."""
import ast, json, os, pathlib, sys
ROOT = pathlib.Path(__file__).resolve().parent.parent
sys.path.insert(0, str(ROOT))
from pyvc.attrnames import private_names  # noqa: E402
names = sorted(private_names(pathlib.Path(os.environ.get("ASPIRE_REPO", "/repo")) / "src" / "aspire"))
(ROOT / "contracts" / "attr_names.json").write_text(json.dumps(names, indent=0))
print(len(names), "private attribute names recorded")
