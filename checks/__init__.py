"""Property registry: which functions under contract, Lean files and bounded stand-ins decide each property."""
from pyvc.runner import PropertySpec

SMC = "samplers.smc.base"
REGISTRY = {}


def reg(spec):
    REGISTRY[spec.pid] = spec
    return spec


def _lazy1(mod, fn):
    def call(tier):
        import importlib
        return getattr(importlib.import_module(mod), fn)(tier)
    return call


def _with_frames(pid, base=None):
    """static obligations of a property plus the frame clauses of its query methods (checks/query_frames.py)"""
    def call(tier):
        from checks.query_frames import query_frames
        return (list(base(tier)) if base is not None else []) + query_frames(pid)
    return call


def _lazy(mod, fn):
    def call(tier, seed):
        import importlib
        return getattr(importlib.import_module(mod), fn)(tier, seed)
    return call


reg(PropertySpec(
    "C06", "The SMC temperature schedule strictly increases, ends exactly at 1, terminates",
    functions=[f"{SMC}:SMCSampler.target_efficiency.setter", f"{SMC}:SMCSampler.current_target_efficiency",
               f"{SMC}:SMCSampler.determine_beta", f"{SMC}:SMCSampler.sample"],
    native=_lazy("checks.native_smc", "native_C06"),
    technique="contract-based deductive verification: loop invariants + variants on the real SMCSampler.sample / determine_beta (VCs generated from the ast, discharged by z3); bounded float-level stand-in",
    assumptions=["A-KERNEL: mutate() terminates and returns a population at the requested temperature (contract MutateModel, verified per kernel class under C10)",
                 "fixed schedule: exactness of the iteration count is proved over R on the grid beta = k/n; the floating-point accumulation is covered by the bounded stand-in only"],
    miss=["termination of third-party kernels", "floating-point accumulation beyond the bounded n_steps range"],
))

reg(PropertySpec(
    "C07", "Adaptive temperature steps meet the ESS target and are maximal",
    functions=[f"{SMC}:SMCSampler.current_target_efficiency", f"{SMC}:SMCSampler.determine_beta", f"{SMC}:SMCSampler.sample"],
    lean=["SMC.lean"],
    extra_static=_with_frames("C07"),
    native=_lazy("checks.native_smc", "native_C07"),
    technique="contract-based deductive verification: bisection loop invariant (bracket) on the real determine_beta, z3; ESS/IW identities in Lean; bounded native scan of the ESS curve",
    assumptions=["'largest' is decided as the bracket left by the bisection: E(beta_star) >= target and E(beta_max) < target with 0 < beta_max - beta_star <= tolerance; it is the supremum only if the ESS curve is non-increasing (hypothesis, not proved)",
                 "callee contracts log_weights (= IW + const) and effective_sample_size (= ESS) are used modularly; their bodies are verified against the Lean spec under C02/C09"],
    miss=["non-monotone ESS curves are only bracketed"],
))

reg(PropertySpec(
    "C08", "SMC evidence is the accumulated product of incremental ratios",
    functions=[f"{SMC}:SMCSampler.sample", "samples:SMCSamples.to_standard_samples", f"{SMC}:SMCSampler.build_checkpoint_state"],
    lean=["SMC.lean"],
    extra_static=_with_frames("C08"),
    native=_lazy("checks.native_smc", "native_C08"),
    technique="contract-based deductive verification: ghost head-population + series-sum invariants on the real SMCSampler.sample loop (z3); ratio/variance formulas in Lean; bounded native recomputation",
    assumptions=["callee contracts log_evidence_ratio = LER, log_evidence_ratio_variance = LERV, resample, mutate, to_standard_samples used modularly"],
))

reg(PropertySpec(
    "C18", "The diagnostic history is a faithful record of the run",
    functions=[f"{SMC}:SMCSampler.sample", f"{SMC}:SMCSampler.build_checkpoint_state", f"{SMC}:SMCSampler.restore_from_checkpoint"],
    native=_lazy("checks.native_smc", "native_C18"),
    technique="contract-based deductive verification: series-length and stored-population invariants on the real SMCSampler.sample loop incl. the resumed path (z3); bounded native recomputation",
    assumptions=["resumed path: the checkpoint satisfies the loop invariant of the run that wrote it (same sampling arguments), which is the invariant proved for that run",
                 "kernel mutate() appends exactly one acceptance entry per call (MutateModel)"],
))

reg(PropertySpec(
    "C02", "Weights, evidence and ESS are exact functionals of the per-sample log-densities",
    functions=["samples:Samples.rejection_sample"],
    lean=["C02.lean", "@range"],
    native=_lazy("checks.native_misc", "native_C02"),
    technique="contract-based deductive verification: the bodies of logsumexp, effective_sample_size, Samples.compute_weights, scaled_weights, efficiency and the acceptance test of rejection_sample are translated from the ast to Lean definitions on every run; spec equalities, bounds, invariances and exp-argument range obligations are Lean/Mathlib theorems; bounded native stand-in vs mpmath",
    trusted_base=["py2lean translation (pointwise printing of vectors over Fin n -> R; what it drops is listed in coverage.extraction_drops)"],
    assumptions=["entries finite in the deductive part (the -inf subset is covered by the bounded stand-in only)", "n >= 2 for the relative error"],
    miss=["rounding inside the libraries' exp/log/sum"],
))

reg(PropertySpec(
    "C04", "Parameter transforms are bijections with exact log-Jacobians",
    functions=["transforms:CompositeTransform.__init__", "transforms:CompositeTransform.forward", "transforms:CompositeTransform.inverse", "transforms:CompositeTransform.fit",
               "transforms:PeriodicTransform.fit", "transforms:BoundedTransform.fit", "transforms:ProbitTransform.fit", "transforms:LogitTransform.fit"],
    extra_static=_lazy1("contracts.transforms", "composite_roundtrip_lemma_static"),
    lean=["C04.lean", "@dim"],
    native=_lazy("checks.native_misc", "native_C04"),
    technique="contract-based deductive verification: every element-wise map (logit, sigmoid, unit-interval scaling, LogitTransform, ProbitTransform, PeriodicTransform, AffineTransform forward/inverse and their log-Jacobians) is translated from the ast to Lean on every run; bijection, HasDerivAt = exp(log-Jacobian), inverse log-Jacobian = -forward, wrap range/congruence are Lean/Mathlib theorems; composition order and log-Jacobian summation of CompositeTransform by symbolic execution (z3); bounded native stand-in",
    trusted_base=["py2lean translation in the scalar element view (diagonal Jacobian: per-coordinate maps act independently, the .sum(-1) of per-coordinate log-derivatives is the log-determinant)",
                  "three axioms about erf/erfinv (Mathlib has no error function): erf(erfinv y) = y on (-1,1), range of erf, derivative of erf"],
    assumptions=["inside the clipping margin (eps) the bounded maps are not bijections: theorems are stated strictly inside the bounds with clip = identity (side condition recorded by the extraction)",
                 "affine: fitted scale non-zero"],
    miss=["floating-point rounding (bounded stand-in only)"],
))

reg(PropertySpec(
    "C09", "Resampling selects by incremental weight and copies particles intact",
    functions=["samples:SMCSamples.resample", f"{SMC}:SMCSampler.sample"],
    lean=["SMC.lean"],
    extra_static=_with_frames("C09"),
    native=_lazy("checks.native_misc", "native_C09"),
    technique="contract-based deductive verification: symbolic execution of the real SMCSamples.resample (one recorded choice() call, every field take(field, IDX) with the one IDX, temperature, size, dtype; z3) + Lean theorem that the vector handed to the generator equals SOFTMAX(IW) for the definition generated from the same function; call-site obligations in SMCSampler.sample; bounded native stand-in",
    assumptions=["Generator.choice draws index i with probability p[i] (assumed contract of numpy.random.Generator)", "BaseSamples.__post_init__ converts value-preservingly (contract PostInitModel; verified under C15)"],
))

reg(PropertySpec(
    "C16", "Slicing, concatenating, pickling and dict-converting samples keep rows aligned",
    functions=["samples:BaseSamples.__getitem__", "samples:Samples.__getitem__", "samples:SMCSamples.__getitem__", "samples:BaseSamples.concatenate", "samples:BaseSamples.from_dict", "samples:BaseSamples.__setstate__"],
    native=_lazy("checks.native_misc", "native_C16"),
    technique="contract-based deductive verification: symbolic execution of the real __getitem__ (3 classes x 4 optional-field subsets, abstract selection idx) and concatenate against take/concat contracts, evidence-carried on the final state, frame of the source (z3); pickle / dict round trips by the bounded native stand-in",
    assumptions=["every kind of index (int array, mask, slice) is a selection take(., idx) with one index map per idx (assumed contract of array indexing)",
                 "sequences of operations follow by induction from the per-operation contracts"],
    miss=["operation sequences longer than one step are covered by the bounded stand-in (each operation has its own contract; the composition is by induction over the Aligned / evidence-carried postconditions)"],
))

LOGPROBS = ["samplers.smc.base:SMCSampler.log_prob", "samplers.smc.minipcn:MiniPCNSMC.log_prob", "samplers.smc.blackjax:BlackJAXSMC.log_prob", "samplers.mcmc:MCMCSampler.log_prob"]
MUTATES = ["samplers.smc.minipcn:MiniPCNSMC.mutate", "samplers.smc.emcee:EmceeSMC.mutate"]

reg(PropertySpec(
    "C05", "Kernels are handed the correct (tempered) target in the preconditioned space",
    functions=LOGPROBS + MUTATES, lean=["SMC.lean", "@invmaps"],
    native=_lazy("checks.native_smc", "native_C05"),
    technique="contract-based deductive verification: symbolic execution of the real log_prob methods with element values in the extended reals (IEEE rules for +, scalar *, isnan) against the tempered-target formula at a skolem row; kernel hand-over obligations in mutate (z3); log_p_t formula in Lean; bounded native stand-in",
    assumptions=["A-USER: likelihood, prior and proposal log-density are deterministic row-wise functions of the coordinates", "the preconditioning transform's inverse returns (x, log|det dx/dz|) (C04)",
                 "x[mask] = y assigns in place on NumPy/Torch or raises TypeError on JAX (both outcomes explored)", "A-KERNEL: the kernel evaluates the callable it is handed"],
    miss=["what third-party kernels do with the target", "BlackJAXSMC.mutate (JAX tracing) is outside the executable subset"],
))

reg(PropertySpec(
    "C10", "Cached per-particle log-densities always belong to the particle's coordinates",
    functions=["samplers.mcmc:MCMCSampler.draw_initial_samples", "samplers.importance:ImportanceSampler.sample"] + MUTATES + ["samples:SMCSamples.resample", "samples:SMCSamples.to_standard_samples", "samples:BaseSamples.__getitem__",
               "samples:Samples.__getitem__", "samples:SMCSamples.__getitem__", "samples:BaseSamples.concatenate", f"{SMC}:SMCSampler.sample", "transforms:CompositeTransform.fit"],
    native=_lazy("checks.native_smc", "native_C10"),
    technique="contract-based deductive verification: representation invariant Aligned (cached field == row-wise user function of x) proved after every operation that builds a population: loop invariant of draw_initial_samples (filter, concatenate, trim, then likelihood), mutate of each kernel class, take/concat commute with row-wise functions, loop invariant of SMCSampler.sample (z3); bounded native recomputation",
    assumptions=["A-USER (row-wise, deterministic user functions)", "boolean-mask selection picks rows where the mask is True (assumed contract of array indexing)", "A-KERNEL"],
    miss=["BlackJAXSMC.mutate (JAX tracing) is outside the executable subset: covered by the shared tail pattern only through the bounded stand-in"],
))

reg(PropertySpec(
    "C17", "Prior is evaluated before likelihood on the same points; evaluations are counted",
    functions=LOGPROBS + MUTATES + ["samplers.mcmc:MCMCSampler.draw_initial_samples", "samplers.importance:ImportanceSampler.sample", f"{SMC}:SMCSampler.restore_from_checkpoint"],
    native=_lazy("checks.native_smc", "native_C17"),
    extra_static=_lazy1("checks.static_facts", "c17_callgraph"),
    technique="contract-based deductive verification: the user's likelihood is modelled by a callable that carries the call-site obligation (samples.log_prior present and equal to the prior of exactly those rows), so every path of every caller reaching it is checked; ghost evaluation counter (z3); call-graph check that the user's likelihood is only reachable through the counting wrapper; bounded native stand-in with instrumented callables",
    assumptions=["A-USER"],
    miss=["calls made under JAX tracing (BlackJAX) are counted per trace"],
))

reg(PropertySpec(
    "C12", "An interrupted run always leaves a loadable, current checkpoint file",
    functions=[f"{SMC}:SMCSampler.sample", "utils:dump_pickle_to_hdf", "samplers.base:Sampler.default_file_checkpoint_callback", "aspire:Aspire.sample_posterior", "aspire:Aspire.fit"],
    native=_lazy("checks.native_ckpt", "native_C12"),
    extra_static=_lazy1("checks.static_facts", "c12_names"),
    technique="contract-based deductive verification: cadence and payload-currency obligations on the ghost event trace of the real SMCSampler.sample loop; blob contract of dump_pickle_to_hdf over an h5py dataset model (length and bytes for absent/equal/shorter/longer previous contents); file callback contract (append mode, checkpoint/state, closed, in-memory copy); writer/reader name agreement from the ast; bounded native fault injection",
    assumptions=["assumed h5py model: create_dataset(shape, maxshape=(None,)), resize, [:] = b requires equal length; an HDF5 write that returns has completed",
                 "pickle.dump writes a function of the state's value at call time", "process kill in the middle of a write is out of scope: interruptions are exceptions raised in user callables"],
    miss=["h5py behaviour beyond the model"],
))

reg(PropertySpec(
    "C11", "Resuming from any checkpoint reproduces the uninterrupted run",
    functions=[f"{SMC}:SMCSampler.build_checkpoint_state", f"{SMC}:SMCSampler._checkpoint_extra_state", f"{SMC}:SMCSampler.restore_from_checkpoint",
               "samplers.base:Sampler.default_file_checkpoint_callback", f"{SMC}:SMCSampler.sample"],
    native=_lazy("checks.native_ckpt", "native_C11"),
    extra_static=_lazy1("checks.static_facts", "c12_names"),
    technique="contract-based deductive verification (relational): the real build_checkpoint_state is executed symbolically on an arbitrary sampler state, its payload is passed through each route (dict, pickled bytes, HDF5 file path) into the real restore_from_checkpoint, and every loop-carried variable of SMCSampler.sample (computed from the ast) is proved equal before/after; payload history must not alias live lists; resumed-path loop invariants of SMCSampler.sample (z3); frame clauses: restore_from_checkpoint leaves everything the caller configured untouched, and the run state of sample() (attributes carried from one iteration to a later one, computed from the ast for each kernel class) is contained in the payload; the resume-from-file route: the real reader _build_aspire_from_file on a file written by the real codec returns the stored blob / size / sampler type / flow, and resume_from_file primes exactly those; bounded native fault injection with bit comparison",
    assumptions=["pickle.loads(pickle.dumps(v)) and copy.deepcopy(v) are structurally equal copies", "A-KERNEL: the kernel is a deterministic function of its arguments and the generator state, so equality of the loop-carried state at the loop head gives equal futures",
                 "same sampling arguments and random sources are supplied on resume (as the property states)"],
    miss=["kernel-internal state of third-party packages"],
))

reg(PropertySpec(
    "C19", "Temporary overrides are fully restored on every exit path",
    functions=["utils:PoolHandler.__exit__", "aspire:Aspire.auto_checkpoint", "aspire:Aspire.enable_pool"],
    native=_lazy("checks.native_misc", "native_C19"),
    technique="contract-based deductive verification: symbolic execution of the real PoolHandler.__enter__ + __exit__ and of the real generator body of Aspire.auto_checkpoint (split at the yield; body outcome normal / exception / mutating the current defaults) with heap identity: post-state of the guarded attributes is the pre-state (object identity and contents); single-level contract + stack discipline gives every nesting depth; bounded native nesting enumeration",
    assumptions=["@contextmanager runs the code after `yield` on normal exit and re-raises the body's exception at the yield point (assumed contract of contextlib)",
                 "the with-body may mutate only the *current* defaults dictionary (which is what fit/sample_posterior do)"],
))

reg(PropertySpec(
    "C14", "A checkpoint file stays self-consistent under any sequence of operations",
    functions=["aspire:Aspire.fit", "aspire:Aspire.sample_posterior", "aspire:Aspire.auto_checkpoint", f"{SMC}:SMCSampler.build_checkpoint_state"],
    native=_lazy("checks.native_ckpt", "native_C14"),
    extra_static=_lazy1("checks.static_facts", "c12_names"),
    technique="contract-based deductive verification: file/instance invariant J (stored flow is the instance's current flow; a stored checkpoint was weighted under the stored flow; the stored configuration names the sampler class that wrote the checkpoint) with ghost flow versions over an HDF5 group model; preservation by the real Aspire.fit and Aspire.sample_posterior for every argument / pre-state shape (instances that have sampled, have not, or were rebuilt from the file) gives all operation sequences by induction (z3); the real config_dict / save_config / _build_aspire_from_file / resume_from_file carry the sampler type through a rewrite of the configuration; a finished SMCSampler.sample leaves its own forced checkpoint; bounded native enumeration of operation sequences on real files",
    assumptions=["every Flow.fit produces a new proposal (ghost version)", "the sampler writes its checkpoint under checkpoint/state with prior_flow = the instance's flow (contract of the sampler entry points)",
                 "auto_checkpoint and resume_from_file do not write to the file"],
))

reg(PropertySpec(
    "C20", "Runs are reproducible given the same explicit random sources",
    functions=["aspire:Aspire.sample_posterior", "samplers.smc.minipcn:MiniPCNSMC.sample", "samplers.smc.emcee:EmceeSMC.sample", "samplers.mcmc:MiniPCN.sample", "samplers.mcmc:Emcee.sample",
               "samples:SMCSamples.resample", "samples:Samples.rejection_sample", f"{SMC}:SMCSampler.sample", "samplers.smc.minipcn:MiniPCNSMC.mutate", "samplers.smc.emcee:EmceeSMC.mutate",
               f"{SMC}:SMCSampler.build_checkpoint_state", f"{SMC}:SMCSampler.restore_from_checkpoint"],
    native=_lazy("checks.native_ckpt", "native_C20"),
    extra_static=_lazy1("checks.static_facts", "c20_entropy"),
    technique="contract-based deductive verification: generator *identity* tracked through every supply route (routing table computed from the real signatures; constructor, sample(), top-level sample_posterior) down to SMCSamples.resample, rejection_sample and the kernel hand-over (z3 over heap identities); every ambient entropy call enumerated from the ast and proved guarded or seeded; determinism of everything else follows from callees being functions of their arguments; bounded native double runs",
    assumptions=["A-EXT/A-KERNEL: library calls and kernels are deterministic functions of their arguments and generator state", "the global torch generator is only reseeded by the flow constructor"],
    miss=["nondeterminism inside torch/jax kernels", "BlackJAXSMC key handling (JAX) is outside the executable subset; its key is covered by the C11 finding"],
))

reg(PropertySpec(
    "C15", "Array-namespace and dtype conversions preserve values and precision",
    functions=["utils:resolve_dtype", "utils:convert_dtype", "samples:BaseSamples.array_to_namespace", "samples:BaseSamples.to_namespace", "samples:Samples.to_namespace", "samples:BaseSamples.to_numpy", "samples:Samples.to_numpy",
               "samples:SMCSamples.to_numpy", "samples:BaseSamples.from_samples", "samples:SMCSamples.resample", "samples:SMCSamples.to_standard_samples", "samples:BaseSamples.__getitem__",
               "samples:Samples.__getitem__", "samples:SMCSamples.__getitem__", "samples:BaseSamples.concatenate", "samplers.importance:ImportanceSampler.sample",
               "samplers.smc.minipcn:MiniPCNSMC.mutate", "samplers.smc.emcee:EmceeSMC.mutate", f"{SMC}:SMCSampler.restore_from_checkpoint", "aspire:Aspire.sample_posterior"],
    native=_lazy("checks.native_misc", "native_C15"),
    technique="contract-based deductive verification over a token model (namespaces {numpy, torch, jax}, dtype families and widths, every dtype spelling): the real resolve_dtype, convert_dtype, __post_init__, asarray, to_namespace, to_numpy, from_samples are executed symbolically for every ordered pair and spelling (exhaustive finite shape enumeration, values symbolic) with the obligation that every dtype handed to xp.asarray belongs to xp; dtype carried through every sampler-internal construction (z3); exhaustive native grid",
    assumptions=["assumed contracts of the array libraries: xp.dtype(name), getattr(torch, name), asarray value preservation and its dtype-family requirement, DLPack jax->torch", "jax float64 requires the x64 switch (library configuration, excluded)"],
    miss=["library conversion behaviour beyond the assumed contracts (probed natively)"],
))

reg(PropertySpec(
    "C13", "Saved samples, histories, transforms, flows and configuration reload unchanged",
    functions=["utils:recursively_save_to_h5_file", "utils:resolve_xp", "samples:BaseSamples.from_dict", "utils:resolve_dtype", "utils:convert_dtype", "flows.torch.flows:BaseTorchFlow.save", "flows.jax.flows:FlowJax.save", "history:SMCHistory.save", "history:History.save"],
    native=_lazy("checks.native_misc", "native_C13"),
    extra_static=_lazy1("checks.static_facts", "c13_bindings"),
    technique="contract-based deductive verification: the real recursively_save_to_h5_file / encode_for_hdf5 and load_from_h5_file / decode_from_hdf5 are executed symbolically against an h5py group model (alphabetical iteration, string storage) for dictionary shapes covering None, {}, nested dicts to depth 3, string lists, scalars, arrays; the real to_dict -> from_dict for three classes x layouts incl. the alphabetical re-ordering an HDF5 load performs (columns tracked individually); resolve_xp on every saved namespace name; constructor binding of the saved configuration from the ast (z3 + ast); the real SMCHistory.save -> SMCHistory.load and History.save -> History.load on the group model (populations identified through the per-iteration groups, alphabetical group iteration); bounded native save/load grid on real HDF5 files",
    assumptions=["assumed h5py storage model (strings come back as bytes, lists of strings as object arrays, 0-d values as scalars, alphabetical member order)", "preconditions: no key contains '.', no string value equals a sentinel",
                 "the dictionary shapes are enumerated to nesting depth 3 (the induction over depth is not mechanised)"],
    miss=["network weights and transform statistics are checked by the bounded stand-in only", "BaseTransform.save/load are covered by the bounded stand-in only", "SMCHistory.save/load is proved for 0, 1, 2, 10, 11 and 12 stored populations (entries symbolic); larger counts by the bounded stand-in (up to 101)"],
))

FLOWQ = ["flows.torch.flows:ZukoFlow.sample_and_log_prob", "flows.torch.flows:ZukoFlow.log_prob", "flows.torch.flows:ZukoFlow.sample",
         "flows.jax.flows:FlowJax.sample_and_log_prob", "flows.jax.flows:FlowJax.log_prob", "flows.jax.flows:FlowJax.sample"]

reg(PropertySpec(
    "C03", "The fitted proposal is a normalised density; sampling and evaluation agree",
    functions=FLOWQ + ["transforms:CompositeTransform.__init__", "transforms:CompositeTransform.forward", "transforms:CompositeTransform.inverse"], lean=["C04.lean", "@dim"],
    extra_static=_with_frames("C03", _lazy1("contracts.transforms", "composite_roundtrip_lemma_static")),
    native=_lazy("checks.native_misc", "native_C03"),
    technique="contract-based deductive verification of the flow wrappers: the real ZukoFlow/FlowJax sample_and_log_prob, log_prob and sample are executed symbolically with row-wise models of the neural flow and the data transform; obligations: log_q = base_lp(x') - logJ_inv(x'), log_prob = base_lp(T x) + logJ_fwd(x), and (using the data transform's C04 contract at the goal's row) the log-density returned with draws equals log_prob at those draws; draws inside the bounds from the Lean theorems about the generated inverse maps; bounded native agreement / quadrature / reload",
    trusted_base=["change of variables for densities (trusted mathematics): with T a bijection with exact log-Jacobian (C04) and a normalised base flow, log_prob is a normalised density"],
    assumptions=["zuko/flowjax base flows are normalised densities whose sampling and evaluation are mutually consistent (external)", "the data transform satisfies its C04 contract (proved per map in Lean; composition in CompositeTransform)",
                 "inside the clipping margin of a bounded map the transform is not a bijection (mass O(eps))"],
    miss=["network weights across save/load (bounded stand-in only)", "anything inside zuko / flowjax"],
))


# Contracts that carry obligations tagged for a property are run by that property's check (audit: tools/audit_registry.py lists every
# (property, contract) pair whose tagged obligations would otherwise not be counted by the property's own check)
_EXTRA = {
    "C06": ["samplers.smc.base:SMCSampler.build_checkpoint_state"],
    "C02": ["samplers.importance:ImportanceSampler.sample", "samples:Samples.__getitem__", "samples:Samples.compute_weights"],
    "C03": ["flows.torch.flows:ZukoFlow.forward", "flows.torch.flows:ZukoFlow.inverse", "aspire:Aspire.init_flow", "transforms:BoundedTransform.to_unit_interval", "transforms:BoundedTransform.from_unit_interval"],
    "C04": ["flows.torch.flows:ZukoFlow.forward", "flows.torch.flows:ZukoFlow.inverse", "aspire:Aspire.init_flow", "transforms:BoundedTransform.to_unit_interval", "transforms:BoundedTransform.from_unit_interval", "aspire:Aspire.init_sampler", "flows.jax.flows:FlowJax.sample_and_log_prob", "flows.torch.flows:ZukoFlow.sample_and_log_prob"],
    "C05": ["transforms:CompositeTransform.forward", "transforms:CompositeTransform.inverse", "flows.torch.flows:ZukoFlow.forward", "flows.torch.flows:ZukoFlow.inverse", "samplers.base:Sampler.fit_preconditioning_transform", "aspire:Aspire.init_sampler", "samplers.mcmc:Emcee.sample", "samplers.mcmc:MiniPCN.sample", "samplers.smc.base:SMCSampler.sample"],
    "C08": ["aspire:Aspire.sample_posterior"],
    "C10": ["samplers.mcmc:Emcee.sample", "samplers.mcmc:MiniPCN.sample", "samples:BaseSamples.from_dict", "utils:PoolHandler.__exit__", "aspire:Aspire.convert_to_samples"],
    "C11": ["transforms:CompositeTransform.fit", "samplers.smc.emcee:EmceeSMC.sample", "samplers.smc.minipcn:MiniPCNSMC.sample", "samplers.base:Sampler.fit_preconditioning_transform", "aspire:Aspire.sample_posterior", "aspire:Aspire.init_sampler", "samples:BaseSamples.from_samples", "aspire:Aspire.resume_from_file", "aspire:Aspire._build_aspire_from_file"],
    "C12": ["utils:resolve_xp", "aspire:Aspire.auto_checkpoint", "aspire:Aspire.save_flow", "samplers.smc.base:SMCSampler.restore_from_checkpoint", "samplers.smc.base:SMCSampler.build_checkpoint_state", "aspire:Aspire.resume_from_file", "aspire:Aspire._build_aspire_from_file"],
    "C14": ["aspire:Aspire.save_flow", "aspire:Aspire.init_sampler", "aspire:Aspire.resume_from_file", "aspire:Aspire._build_aspire_from_file", "samplers.smc.base:SMCSampler.sample", "aspire:Aspire.config_dict", "aspire:Aspire.save_config"],
    "C13": ["aspire:Aspire.init_flow", "aspire:Aspire.save_flow", "aspire:Aspire.init_sampler", "samples:BaseSamples.__setstate__", "transforms:CompositeTransform.__init__", "samples:Samples.to_numpy", "samples:SMCSamples.to_numpy", "aspire:Aspire.config_dict", "aspire:Aspire.save_config", "aspire:Aspire._build_aspire_from_file"],
    "C15": ["utils:resolve_xp", "samplers.smc.base:SMCSampler.sample", "aspire:Aspire.init_flow", "transforms:BoundedTransform.to_unit_interval", "transforms:BoundedTransform.from_unit_interval", "aspire:Aspire.init_sampler", "flows.torch.flows:ZukoFlow.sample_and_log_prob", "samplers.importance:ImportanceSampler.sample", "samplers.smc.minipcn:MiniPCNSMC.mutate", "samplers.smc.emcee:EmceeSMC.mutate", "aspire:Aspire._build_aspire_from_file", "flows.jax.flows:FlowJax.save", "flows.torch.flows:BaseTorchFlow.save", "samples:BaseSamples.from_dict", "samples:Samples.rejection_sample",
            "transforms:CompositeTransform.forward", "transforms:CompositeTransform.inverse"],
    "C17": ["aspire:Aspire.sample_posterior", "samplers.mcmc:Emcee.sample", "samplers.mcmc:MiniPCN.sample", "samplers.base:Sampler.log_likelihood", "aspire:Aspire.n_likelihood_evaluations", "aspire:Aspire.convert_to_samples"],
    "C18": ["samplers.smc.emcee:EmceeSMC.mutate", "samplers.smc.minipcn:MiniPCNSMC.mutate", "history:SMCHistory.save"],
    "C20": ["aspire:Aspire.init_flow", "aspire:Aspire.init_sampler", "flows.jax.flows:FlowJax.sample_and_log_prob", "samplers.importance:ImportanceSampler.sample", "samplers.smc.base:SMCSampler.__init__", "samplers.smc.blackjax:BlackJAXSMC.__init__"],
}
for _pid, _qs in _EXTRA.items():
    for _q in _qs:
        if _q not in REGISTRY[_pid].functions:
            REGISTRY[_pid].functions.append(_q)
