"""Property registry: which functions under contract, Lean files and bounded stand-ins decide each property."""
from pyvc.runner import PropertySpec

SMC = "samplers.smc.base"
REGISTRY = {}


def reg(spec):
    REGISTRY[spec.pid] = spec
    return spec


def _lazy(mod, fn):
    def call(tier, seed):
        import importlib
        return getattr(importlib.import_module(mod), fn)(tier, seed)
    return call


reg(PropertySpec(
    "C06", "The SMC temperature schedule strictly increases, ends exactly at 1, terminates",
    functions=[f"{SMC}:SMCSampler.target_efficiency.setter", f"{SMC}:SMCSampler.current_target_efficiency",
               f"{SMC}:SMCSampler.determine_beta", f"{SMC}:SMCSampler.sample"],
    native=_lazy("checks.native_smc", "native_C06"),
    technique="contract-based deductive verification: loop invariants + variants on the real SMCSampler.sample / determine_beta (VCs generated from the ast, discharged by z3); bounded float-level stand-in",
    assumptions=["A-KERNEL: mutate() terminates and returns a population at the requested temperature (contract MutateModel, verified per kernel class under C10)",
                 "fixed schedule: exactness of the iteration count is proved over R on the grid beta = k/n; the floating-point accumulation is covered by the bounded stand-in only"],
    miss=["termination of third-party kernels", "floating-point accumulation beyond the bounded n_steps range"],
))
