"""Bounded native stand-ins for checkpointing / resume (C11, C12, C14): fault injection at likelihood-call indices on the real
loop (stub kernel), resume through the four routes, byte comparison of the file with the last payload."""
from __future__ import annotations

import os
import pickle
import tempfile

import numpy as np

from checks import native_smc as S


def _fresh_path(tag):
    d = tempfile.mkdtemp(prefix="aspire_verif_")
    return os.path.join(d, f"{tag}.h5"), d


def _cleanup(d):
    import shutil
    shutil.rmtree(d, ignore_errors=True)


def run_with_file(opts, path, seed, scale=5.0, n=24, fail_at=None, resume_from=None):
    """real loop writing to an HDF5 file through the default file callback; records the pickled payload of every write"""
    pr = S.Problem(dims=2, scale=scale, seed=seed, fail_at=fail_at)
    s = pr.sampler()
    payloads = []
    file_cb = s.default_file_checkpoint_callback(path)

    live = []

    def cb(state):
        payloads.append((state["iteration"], pickle.dumps(state, protocol=pickle.HIGHEST_PROTOCOL)))
        live.append(state)
        file_cb(state)
    kw = dict(opts)
    kw["checkpoint_callback"] = cb
    if resume_from is not None:
        kw["resume_from"] = resume_from
    exc = None
    out = None
    try:
        out = s.sample(n, rng=np.random.default_rng(seed + 1000), sampler_kwargs={"n_steps": 2}, **kw)
    except RuntimeError as e:
        exc = e
    return {"out": out, "exc": exc, "sampler": s, "payloads": payloads, "problem": pr, "history": s.history, "live": live}


def file_bytes(path):
    import h5py
    if not os.path.exists(path):
        return None
    with h5py.File(path, "r") as f:
        if "checkpoint" not in f or "state" not in f["checkpoint"]:
            return None
        return f["checkpoint"]["state"][...].tobytes()


def native_C12(tier, seed):
    fails, cases = [], 0
    configs = [dict(n_steps=3, adaptive=False, checkpoint_every=1), dict(n_steps=4, adaptive=False, checkpoint_every=2, n_final_samples=10),
               dict(n_steps=4, adaptive=False, checkpoint_every=4, n_final_samples=40), dict(adaptive=True, checkpoint_every=1, store_sample_history=False) if False else dict(adaptive=True, checkpoint_every=3)]
    if tier == "thorough":
        configs += [dict(n_steps=5, adaptive=False, checkpoint_every=k, n_final_samples=nf) for k in (1, 2, 3, 5) for nf in (None, 8, 50)]
    for ci, o in enumerate(configs):
        o = {k: v for k, v in o.items() if v is not None}
        path, d = _fresh_path("c12")
        try:
            ref = run_with_file(o, path, seed + ci)
            ncalls = ref["problem"].like_calls
            every = o["checkpoint_every"]
            k_it = len(ref["history"].beta)
            got = [p[0] for p in ref["payloads"]]
            expect = [i for i in range(1, k_it + 1) if i % every == 0] + [k_it]
            cases += 1
            if got != expect:
                fails.append({"id": f"C12-cadence-{ci}", "obligation": "C12 cadence", "what": f"checkpoints written at iterations {got}, expected {expect}", "input": {"opts": o, "seed": seed + ci}})
            fb = file_bytes(path)
            if fb != ref["payloads"][-1][1]:
                fails.append({"id": f"C12-final-bytes-{ci}", "obligation": "stored bytes", "what": f"file holds {None if fb is None else len(fb)} bytes, last payload has {len(ref['payloads'][-1][1])}", "input": {"opts": o, "seed": seed + ci}})
            step = 1 if tier == "thorough" else max(1, ncalls // 6)
            for k in range(1, ncalls + 1, step):
                os.remove(path) if os.path.exists(path) else None
                r = run_with_file(o, path, seed + ci, fail_at=k)
                cases += 1
                if r["exc"] is None:
                    continue
                fb = file_bytes(path)
                inp = {"opts": o, "seed": seed + ci, "fault_at_likelihood_call": k}
                if r["payloads"]:
                    if fb != r["payloads"][-1][1]:
                        fails.append({"id": f"C12-fault-{ci}-{k}", "obligation": "stored bytes", "what": f"after a fault at likelihood call {k} the file holds {None if fb is None else len(fb)} bytes but the most recent payload (iteration {r['payloads'][-1][0]}) has {len(r['payloads'][-1][1])}", "input": inp})
                elif fb is not None:
                    fails.append({"id": f"C12-unexpected-{ci}-{k}", "obligation": "C12", "what": "file has a checkpoint although none was due", "input": inp})
            # shrinking payload: reuse of a file that holds a longer blob
            import h5py
            from aspire.utils import dump_pickle_to_hdf
            from io import BytesIO
            for a, b in ((5000, 300), (300, 5000), (1200, 1200), (1, 0)):
                p2 = os.path.join(d, f"blob{a}_{b}.h5")
                with h5py.File(p2, "a") as f:
                    dump_pickle_to_hdf(BytesIO(bytes(range(256)) * (a // 256) + bytes(a % 256)), f, path="checkpoint", dsetname="state")
                new = os.urandom(b)
                with h5py.File(p2, "a") as f:
                    dump_pickle_to_hdf(BytesIO(new), f, path="checkpoint", dsetname="state")
                cases += 1
                if file_bytes(p2) != new:
                    fails.append({"id": f"C12-blob-{a}-{b}", "obligation": "stored length", "what": f"overwriting a {a}-byte blob with {b} bytes leaves {len(file_bytes(p2) or b'')} bytes", "input": {"old": a, "new": b}})
        finally:
            _cleanup(d)
    return {"what": "real loop + default file callback: checkpoint schedule, file bytes == most recent payload after a fault injected at likelihood-call indices, blob overwrite with growing/shrinking/equal/empty payloads",
            "bound": f"{len(configs)} configurations; every {'' if tier == 'thorough' else '~6th '}likelihood call index", "cases": cases, "failures": fails}


def _summary(rec):
    h = rec["history"]
    out = rec["out"]
    return {"beta": [float(b) for b in h.beta], "lnr": [float(x) for x in h.log_norm_ratio], "x": None if out is None else np.asarray(out.x).tobytes(),
            "logz": None if out is None else float(out.log_evidence), "n_hist": len(h.sample_history), "acc": len(h.mcmc_acceptance)}


def native_C11(tier, seed):
    fails, cases = [], 0
    configs = [dict(n_steps=4, adaptive=False, checkpoint_every=1), dict(adaptive=True, checkpoint_every=1, min_step=0.05),
               dict(adaptive=True, checkpoint_every=2, n_final_samples=40), dict(adaptive=True, min_step=0.01, max_n_steps=2, checkpoint_every=1),
               dict(adaptive=True, max_n_steps=6, checkpoint_every=1)]
    if tier == "thorough":
        configs += [dict(n_steps=6, adaptive=False, checkpoint_every=3, n_final_samples=10), dict(adaptive=True, checkpoint_every=1, target_efficiency=(0.3, 0.8))]
    configs = [(o, 5.0) for o in configs] + [(dict(adaptive=True, max_n_steps=3, checkpoint_every=1), 40.0), (dict(adaptive=True, max_n_steps=4, checkpoint_every=1), 200.0)]
    for ci, (o, scale) in enumerate(configs):
        path, d = _fresh_path("c11")
        try:
            ref = run_with_file(o, path, seed + ci, scale=scale)
            want = _summary(ref)
            ncalls = ref["problem"].like_calls
            # checkpoint dictionaries kept by a custom callback must stay what they were when written (no aliasing with the live sampler)
            for j, (st, (it_j, blob)) in enumerate(zip(ref["live"], ref["payloads"])):
                cases += 1
                now = pickle.dumps(st, protocol=pickle.HIGHEST_PROTOCOL)
                if len(pickle.loads(now)["history"].beta) != len(pickle.loads(blob)["history"].beta):
                    fails.append({"id": f"C11-live-dict-{ci}-{j}", "obligation": "payload history is a copy", "what": f"the checkpoint dictionary of iteration {it_j} changed after it was written (history grew from {len(pickle.loads(blob)['history'].beta)} to {len(pickle.loads(now)['history'].beta)} entries)", "input": {"opts": o, "scale": scale, "seed": seed + ci}})
            step = 1 if tier == "thorough" else max(1, ncalls // 5)
            points = list(range(1, ncalls + 1, step)) + [None]          # None: resume from the final checkpoint of the finished run
            for k in points:
                if os.path.exists(path):
                    os.remove(path)
                r = run_with_file(o, path, seed + ci, fail_at=k, scale=scale)
                if k is not None and r["exc"] is None:
                    continue
                if not r["payloads"]:
                    continue
                last_bytes = r["payloads"][-1][1]
                routes = {"bytes": last_bytes, "dict": pickle.loads(last_bytes), "path": path}
                for route, src in routes.items():
                    cases += 1
                    inp = {"opts": o, "scale": scale, "seed": seed + ci, "fault_at_likelihood_call": k, "route": route, "checkpoint_iteration": r["payloads"][-1][0]}
                    p2, d2 = _fresh_path("c11r")
                    try:
                        try:
                            res = run_with_file(o, p2, seed + ci, resume_from=src, scale=scale)
                        except Exception as e:  # noqa: BLE001
                            fails.append({"id": f"C11-raise-{ci}-{k}-{route}", "obligation": "C11", "what": f"resume raised {type(e).__name__}: {e}", "input": inp})
                            continue
                        got = _summary(res)
                        diff = [key for key in want if want[key] != got[key]]
                        if diff:
                            tag = ""
                            if "max_n_steps" in o and "min_step" not in o and set(diff) <= {"beta", "lnr", "x", "logz"}:
                                tag = " [min_step derived from max_n_steps is not checkpointed]"
                            fails.append({"id": f"C11-differs-{ci}-{k}-{route}", "obligation": "C11 resumed == uninterrupted", "what": f"resumed run differs from the uninterrupted one in {diff}{tag}", "input": inp})
                    finally:
                        _cleanup(d2)
                # the same checkpoint dictionary used twice: a resumed run that is interrupted again before it writes a checkpoint must leave the
                # dictionary as it was written, so that resuming from it once more still reproduces the uninterrupted run
                if k is not None and ci < 3:
                    cases += 1
                    ckd = pickle.loads(last_bytes)
                    p3, d3 = _fresh_path("c11rr")
                    try:
                        r_crash = run_with_file(o, p3, seed + ci, resume_from=ckd, fail_at=1, scale=scale)
                        if r_crash["exc"] is not None:
                            res2 = run_with_file(o, p3, seed + ci, resume_from=ckd, scale=scale)
                            got2 = _summary(res2)
                            diff2 = [key for key in want if want[key] != got2[key]]
                            if diff2:
                                fails.append({"id": f"C11-dict-reused-{ci}-{k}", "obligation": "restored history is the sampler's own copy",
                                              "what": f"resuming twice from the same checkpoint dictionary (the first resumed run was interrupted before its first checkpoint) differs from the uninterrupted run in {diff2}",
                                              "input": {"opts": o, "scale": scale, "seed": seed + ci, "fault_at_likelihood_call": k, "checkpoint_iteration": r["payloads"][-1][0]}})
                    finally:
                        _cleanup(d3)
        finally:
            _cleanup(d)
    return {"what": "real loop (stub kernel, numpy generator): interruption at likelihood-call indices, resume from the last checkpoint through bytes / dict / file path, bit comparison of schedule, ratios, final samples, evidence and history lengths with the uninterrupted run",
            "bound": f"{len(configs)} configurations x fault points x 3 routes", "cases": cases, "failures": fails}


# ------------------------------------------------------------------------------------------ C14 / C20 (Aspire level)
def _aspire_problem():
    import math
    from aspire import Aspire
    from aspire.samples import Samples

    def ll(s):
        return -0.5 * ((np.asarray(s.x) - 1.0) ** 2).sum(-1)

    def lp(s):
        return np.where((np.abs(np.asarray(s.x)) <= 10).all(-1), -2 * math.log(20.0), -np.inf)

    def mk(**kw):
        return Aspire(log_likelihood=ll, log_prior=lp, dims=2, parameters=["a", "b"], prior_bounds={"a": [-10, 10], "b": [-10, 10]}, flow_backend="zuko",
                      hidden_features=[8], transforms=1, **kw)
    XA = np.random.default_rng(0).normal(1, 1, size=(100, 2))
    XB = np.random.default_rng(1).normal(-3, 0.5, size=(100, 2))
    return mk, ll, lp, Samples(XA, parameters=["a", "b"]), Samples(XB, parameters=["a", "b"])


def _file_consistency(path, ll, lp):
    """-> list of (kind, detail) inconsistencies of the checkpoint file"""
    import h5py
    from aspire import Aspire
    out = []
    if not os.path.exists(path):
        return out
    with h5py.File(path, "r") as f:
        keys = set(f.keys())
        if "checkpoint" not in keys or "state" not in f["checkpoint"]:
            return out
        st = pickle.loads(f["checkpoint"]["state"][...].tobytes())
        cfg_sampler = None
        if "aspire_config" in keys and "sampler_type" in f["aspire_config"]:
            v = f["aspire_config"]["sampler_type"][()]
            cfg_sampler = v.decode() if isinstance(v, bytes) else str(v)
    if "flow" not in keys:
        return [("no-flow", "checkpoint without a stored flow")]
    if "aspire_config" in keys:
        b = Aspire.resume_from_file(path, log_likelihood=ll, log_prior=lp)
        smp = st["samples"]
        lq_file = np.asarray(b.flow.log_prob(np.asarray(smp.x)).detach(), dtype=float)
        d = float(np.abs(lq_file - np.asarray(smp.log_q, dtype=float)).max())
        if d > 1e-3:
            out.append(("flow-mismatch", f"stored checkpoint's log_q differs from the stored flow's log-density by {d:.3g}"))
        if cfg_sampler is not None:
            cls = Aspire.get_sampler_class(b, cfg_sampler).__name__
            if cls != st["sampler"]:
                out.append(("config-mismatch", f"configuration names sampler '{cfg_sampler}' ({cls}) but the checkpoint was written by {st['sampler']}"))
        else:
            out.append(("config-names-no-sampler", f"the stored configuration names no sampler although the file holds a checkpoint written by {st['sampler']}"))
    return out


def native_C14(tier, seed):
    import itertools
    mk, ll, lp, SA, SB = _aspire_problem()
    fails, cases = [], 0
    ops = ["fitA", "fitB", "fitB_ow", "smc", "imp", "ctx_smc", "resume_smc", "resume_ctx_smc", "resume_ctx_fitA", "ctx_fitA", "other_fitA"]
    maxlen = 3 if tier == "quick" else 4
    seqs = [s for L in range(1, 4) for s in itertools.product(ops, repeat=L)]
    if maxlen == 4:
        seqs += list(itertools.product(ops[:7], repeat=4))        # length 4 over the first seven operations only
    if tier == "quick":
        rng = np.random.default_rng(seed)
        must = [("fitA", "fitB", "smc"), ("fitA", "smc", "fitB_ow"), ("fitA", "smc", "imp"), ("fitA", "smc", "resume_smc"), ("fitA", "ctx_smc", "ctx_smc"),
                ("fitA", "ctx_smc", "resume_ctx_smc"), ("fitA", "ctx_smc", "resume_ctx_fitA"), ("fitA", "ctx_smc", "ctx_fitA"), ("fitA", "ctx_smc", "other_fitA")]
        pick = [seqs[i] for i in rng.choice(len(seqs), size=40, replace=False)]
        seqs = must + pick
    for seq in seqs:
        path, d = _fresh_path("c14")
        a = mk()
        cases += 1
        last_fit = None
        had_ckpt = False
        try:
            ok = True
            for op in seq:
                try:
                    if op == "ctx_fitA":
                        # a refit (same data, no overwrite) inside a new automatic-checkpointing context: rewrites the configuration
                        with a.auto_checkpoint(path):
                            a.fit(SA, n_epochs=1)
                        last_fit = ("fitA", had_ckpt)           # a refit without overwrite like any other (training again gives another flow)
                    elif op == "other_fitA":
                        # another instance (which has not sampled) is fitted with the same file as its checkpoint path; it then takes over
                        a = mk()
                        a.fit(SA, n_epochs=1, checkpoint_path=path)
                        last_fit = ("fitA", had_ckpt)
                    elif op in ("resume_ctx_smc", "resume_ctx_fitA"):
                        import h5py
                        if not os.path.exists(path):
                            ok = False
                            break
                        with h5py.File(path, "r") as f:
                            if not {"aspire_config", "flow"} <= set(f.keys()):
                                ok = False
                                break
                        a = type(a).resume_from_file(path, log_likelihood=ll, log_prior=lp)
                        with a.auto_checkpoint(path):
                            if op == "resume_ctx_smc":
                                a.sample_posterior(20, n_steps=2, adaptive=False, sampler_kwargs=dict(n_steps=1))      # sampler type inferred from the file
                            else:
                                a.fit(SA, n_epochs=1)
                                last_fit = ("fitA", had_ckpt)
                    elif op in ("fitA", "fitB", "fitB_ow"):
                        a.fit(SA if op == "fitA" else SB, n_epochs=1, checkpoint_path=path, overwrite=(op == "fitB_ow"))
                        last_fit = (op, had_ckpt)
                    elif a.flow is None:
                        ok = False
                        break
                    elif op == "smc":
                        a.sample_posterior(20, sampler="smc", n_steps=2, adaptive=False, checkpoint_path=path, sampler_kwargs=dict(n_steps=1))
                    elif op == "imp":
                        a.sample_posterior(20, sampler="importance", checkpoint_path=path)
                    elif op == "ctx_smc":
                        with a.auto_checkpoint(path, every=1):
                            a.sample_posterior(20, sampler="smc", n_steps=2, adaptive=False, sampler_kwargs=dict(n_steps=1))
                    elif op == "resume_smc":
                        import h5py
                        if not os.path.exists(path):
                            ok = False
                            break
                        with h5py.File(path, "r") as f:
                            if not {"aspire_config", "flow"} <= set(f.keys()):
                                ok = False
                                break
                        a = type(a).resume_from_file(path, log_likelihood=ll, log_prior=lp)
                        a.sample_posterior(20, n_steps=2, adaptive=False, sampler_kwargs=dict(n_steps=1))
                except (TypeError, ValueError, KeyError) as e:
                    # an operation refusing to run is not an inconsistency of the file; keep checking the file
                    pass
                inc = _file_consistency(path, ll, lp)
                import h5py
                if os.path.exists(path):
                    with h5py.File(path, "r") as f:
                        had_ckpt = "checkpoint" in f
                for kind, detail in inc:
                    tag = ""
                    if kind == "flow-mismatch" and last_fit is not None:
                        tag = " [stale flow after refit without overwrite]" if last_fit[0] in ("fitA", "fitB") else " [stale checkpoint after refit with overwrite]"
                    if kind == "config-mismatch" and "imp" in seq:
                        tag = " [config rewritten by a sampler without checkpoint support]"
                    if kind == "config-names-no-sampler":
                        tag = " [config rewritten by an instance that has not sampled]" if op == "other_fitA" else f" [config rewritten by {op}]"
                    fails.append({"id": f"C14-{'-'.join(seq)}-{kind}", "obligation": "C14:J", "what": f"after {list(seq[:seq.index(op) + 1])}: {detail}{tag}", "input": {"sequence": list(seq)}})
                if inc:
                    break
        finally:
            _cleanup(d)
    # keep one witness per (kind, tag) to bound the report
    seen, uniq = set(), []
    for f in fails:
        k = f["what"].split(": ", 1)[1].split(" by ")[0] if "[" not in f["what"] else f["what"][f["what"].index("["):]
        if k not in seen:
            seen.add(k)
            uniq.append(f)
    return {"what": "operation sequences over {fit A, fit B, fit B overwrite, sample smc, sample importance, sample smc inside auto_checkpoint, resume_from_file + sample, resume_from_file + sample / refit inside a new auto_checkpoint context, refit inside a new context, fit of a second instance} on one real file (zuko flow, stub kernel); after every operation the stored flow is compared with the log_q of the stored checkpoint's particles and the stored sampler type with the checkpoint's writer",
            "bound": f"sequences of length <= 3 over all operations" + (" and of length 4 over the first seven" if maxlen == 4 else " (sampled)") + f" ({len(seqs)} sequences)", "cases": cases, "failures": uniq}


def native_C20(tier, seed):
    import torch
    mk, ll, lp, SA, SB = _aspire_problem()
    fails, cases = [], 0

    def run_smc(sd, n_final=None, route="call"):
        pr = S.Problem(dims=2, scale=5.0, seed=sd)
        s = pr.sampler(rng_seed=sd)
        kw = dict(n_steps=3, adaptive=False, sampler_kwargs={"n_steps": 2})
        if n_final:
            kw["n_final_samples"] = n_final
        g = np.random.default_rng(sd + 7)
        out = s.sample(24, rng=g, **kw)
        return np.asarray(out.x).tobytes(), float(out.log_evidence), [float(b) for b in s.history.beta], s.rng is g

    for sd in ([seed, seed + 1] if tier == "quick" else range(seed, seed + 6)):
        for nf in (None, 40, 10):
            cases += 1
            r1, r2 = run_smc(sd, nf), run_smc(sd, nf)
            if r1[:3] != r2[:3]:
                fails.append({"id": f"C20-smc-{sd}-{nf}", "obligation": "C20", "what": f"two SMC runs with the same generators differ (n_final_samples={nf})", "input": {"seed": sd, "n_final_samples": nf}})
            if not r1[3]:
                fails.append({"id": f"C20-smc-rng-identity-{sd}-{nf}", "obligation": "C20:a generator passed to sample()", "what": "the generator passed to sample() is not the one the sampler holds", "input": {"seed": sd}})
    # the *same* dictionary of kernel settings passed to two runs (as a caller who keeps the arguments in a variable does - e.g. to call again after a crash)
    for sd in ([seed] if tier == "quick" else range(seed, seed + 3)):
        cases += 1
        shared = {"n_steps": 2, "n_final_steps": 5}
        before = dict(shared)
        outs = []
        for _ in range(2):
            pr = S.Problem(dims=2, scale=5.0, seed=sd)
            s = pr.sampler(rng_seed=sd)
            out = s.sample(24, rng=np.random.default_rng(sd + 7), n_steps=3, adaptive=False, n_final_samples=40, sampler_kwargs=shared)
            outs.append((np.asarray(out.x).tobytes(), float(out.log_evidence)))
        if shared != before:
            fails.append({"id": f"C20-shared-kwargs-mutated-{sd}", "obligation": "C20:C11:the caller's sampler_kwargs dictionary is left as it was passed",
                          "what": f"sample() changed the caller's sampler_kwargs dictionary from {before} to {shared}", "input": {"seed": sd, "sampler_kwargs": before}})
        if outs[0] != outs[1]:
            fails.append({"id": f"C20-shared-kwargs-{sd}", "obligation": "C20:C11:the caller's sampler_kwargs dictionary is left as it was passed",
                          "what": "two runs given the same generators and the same sampler_kwargs dictionary object differ (the first run removed n_final_steps from it)", "input": {"seed": sd, "sampler_kwargs": before}})
    # flow construction + training + importance sampling, zuko
    def run_flow(sd):
        a = mk(seed=sd)
        a.fit(SA, n_epochs=2)
        w0 = [p.detach().numpy().copy() for p in a.flow._flow.parameters()]
        out = a.sample_posterior(50, sampler="importance")
        return [w.tobytes() for w in w0], np.asarray(out.x).tobytes(), float(out.log_evidence)
    for sd in ([0, 1234] if tier == "quick" else [0, 1, 42, 1234]):
        cases += 1
        r1, r2 = run_flow(sd), run_flow(sd)
        if r1 != r2:
            what = "weights" if r1[0] != r2[0] else "samples/evidence"
            fails.append({"id": f"C20-zuko-{sd}", "obligation": "C20:torch.manual_seed", "what": f"two zuko construct+fit+importance runs with seed={sd} differ in {what}", "input": {"seed": sd}})
    # a saved flow reloaded twice in one process: the seed stored with it governs what is drawn after each load
    import io
    import h5py
    from aspire.flows.torch.flows import ZukoFlow
    for sd in ([3] if tier == "quick" else [3, 99]):
        cases += 1
        a0 = mk(seed=sd)
        a0.fit(SA, n_epochs=1)
        bio = io.BytesIO()
        with h5py.File(bio, "w") as f5:
            a0.flow.save(f5, "flow")

        def reload_and_draw():
            with h5py.File(io.BytesIO(bio.getvalue()), "r") as f5:
                fl = type(a0.flow).load(f5, "flow")
            x, lq = fl.sample_and_log_prob(16)
            return np.asarray(x.detach() if hasattr(x, "detach") else x).tobytes()
        d1, d2 = reload_and_draw(), reload_and_draw()
        if d1 != d2:
            fails.append({"id": f"C20-zuko-reload-{sd}", "obligation": "C20:torch.manual_seed", "what": f"a zuko flow saved with seed={sd} and loaded twice in the same process draws different samples after the two loads",
                          "input": {"seed": sd, "sequence": "save; load; draw; load; draw"}})
    # routing through the top-level call: known finding for MiniPCNSMC (constructor route)
    a = mk()
    a.fit(SA, n_epochs=1)
    g = np.random.default_rng(5)
    cases += 1
    try:
        a.sample_posterior(20, sampler="smc", n_steps=2, adaptive=False, rng=g, sampler_kwargs=dict(n_steps=1))
        if a.sampler.rng is not g:
            fails.append({"id": "C20-top-level-rng-minipcnsmc", "obligation": "C20:constructor route", "what": "sample_posterior(sampler='smc', rng=g): the generator the sampler was constructed with is replaced by a fresh ArrayRNG in MiniPCNSMC.sample [constructor route, none passed to sample()]", "input": {"sampler": "smc", "rng": "default_rng(5)"}})
    except Exception as e:  # noqa: BLE001
        fails.append({"id": "C20-top-level-raise", "obligation": "C20", "what": f"{type(e).__name__}: {e}", "input": {}})
    return {"what": "double runs with equal seeds/generators, bit comparison: real SMC loop (stub kernel) with and without final enlargement; zuko flow construction + training + importance sampling for several seeds incl. 0; generator identity through the top-level call",
            "bound": f"{cases} double runs", "cases": cases, "failures": fails}
