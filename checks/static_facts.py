"""Obligations decided on the ast / call graph of the real source (no solver needed): constants that writer and reader
must agree on, call-graph facts, entropy sites."""
from __future__ import annotations

import ast

from pyvc.front import Front, signature


def _default(front, qual, name):
    fn = front.get(qual)
    pos, defaults, _, kwonly, _ = signature(fn.node)
    d = defaults.get(name)
    return d.value if isinstance(d, ast.Constant) else None


def _call_kwargs(front, qual, callee_attr):
    """keyword constants of the calls to `<x>.<callee_attr>(...)` inside a function (incl. nested defs)"""
    out = []
    for n in ast.walk(front.get(qual).node):
        if isinstance(n, ast.Call) and isinstance(n.func, ast.Attribute) and n.func.attr == callee_attr:
            out.append({k.arg: (k.value.value if isinstance(k.value, ast.Constant) else ast.unparse(k.value)) for k in n.keywords if k.arg})
    return out


def ob(name, ok, function, detail=""):
    return {"name": name, "function": function, "verdict": "proved" if ok else "failed", "backend": "ast", "kind": "static", "ms": 0.0, "output": detail}


def c12_names(tier):
    f = Front()
    out = []
    w = _call_kwargs(f, "samplers.base:Sampler.default_file_checkpoint_callback", "save_checkpoint_to_hdf")
    wpath = w[0].get("path") if w else None
    wdset = w[0].get("dsetname") if w else None
    r1 = (_default(f, "samplers.base:Sampler.load_checkpoint_from_file", "h5_path"), _default(f, "samplers.base:Sampler.load_checkpoint_from_file", "dsetname"))
    r2 = (_default(f, "aspire:Aspire.resume_from_file", "checkpoint_path"), _default(f, "aspire:Aspire.resume_from_file", "checkpoint_dset"))
    out.append(ob(f"io:C12:C11:checkpoint writer and both readers use the same group/dataset names (writer {wpath}/{wdset})",
                  len(w) == 1 and (wpath, wdset) == r1 == r2 and wpath is not None, "samplers.base:Sampler.default_file_checkpoint_callback",
                  f"writer={wpath}/{wdset} load_checkpoint_from_file={r1} resume_from_file={r2}"))
    fw = _default(f, "aspire:Aspire.save_flow", "path")
    fr = _default(f, "aspire:Aspire.resume_from_file", "flow_path")
    fl = _default(f, "aspire:Aspire.load_flow", "path")
    out.append(ob(f"io:C12:C13:flow is saved and reloaded under the same group name ({fw})", fw is not None and fw == fr == fl, "aspire:Aspire.save_flow", f"{fw} {fr} {fl}"))
    cw = _default(f, "aspire:Aspire.save_config", "path")
    cr = _default(f, "aspire:Aspire.resume_from_file", "config_path")
    out.append(ob(f"io:C12:C13:configuration is saved and reloaded under the same group name ({cw})", cw is not None and cw == cr, "aspire:Aspire.save_config", f"{cw} {cr}"))
    # the in-file membership tests of sample_posterior / fit use the same literal names
    tested = set()
    for q in ("aspire:Aspire.sample_posterior", "aspire:Aspire.fit"):
        for n in ast.walk(f.get(q).node):
            # `"name" in <file>` / `"name" not in <file>`, whatever the file variable is called
            if isinstance(n, ast.Compare) and isinstance(n.left, ast.Constant) and isinstance(n.left.value, str) and any(isinstance(o, (ast.In, ast.NotIn)) for o in n.ops):
                tested.add(n.left.value)
    out.append(ob("io:C12:C14:sample_posterior/fit test membership of the same literal group names",
                  fw in tested and cw in tested, "aspire:Aspire.sample_posterior", f"tested={sorted(tested)}"))
    return out


def c17_callgraph(tier):
    """the user's likelihood (`_log_likelihood`) is only reachable through the counting wrapper Sampler.log_likelihood"""
    f = Front()
    out = []
    sites = []
    for mod, tree in f.modules.items():
        if not mod.startswith("samplers"):
            continue
        for n in ast.walk(tree):
            if isinstance(n, ast.Attribute) and n.attr == "_log_likelihood":
                sites.append((mod, n.lineno, isinstance(n.ctx, ast.Store)))
    wrapper = f.get("samplers.base:Sampler.log_likelihood")
    init = f.get("samplers.base:Sampler.__init__")
    ok = True
    detail = []
    for mod, ln, store in sites:
        inside_wrapper = mod == "samplers.base" and wrapper.span[0] <= ln <= wrapper.span[1]
        inside_init = mod == "samplers.base" and init.span[0] <= ln <= init.span[1] and store
        if not (inside_wrapper or inside_init):
            ok = False
            detail.append(f"{mod}:{ln}")
    out.append(ob("callgraph:C17:the user's likelihood is referenced only by the counting wrapper Sampler.log_likelihood (and stored by __init__)", ok and len(sites) >= 2,
                  "samplers.base:Sampler.log_likelihood", " ".join(detail)))
    # every sampler-side call of log_likelihood goes through self.log_likelihood (the wrapper), never a saved alias
    calls = 0
    for mod, tree in f.modules.items():
        if not mod.startswith("samplers"):
            continue
        for n in ast.walk(tree):
            if isinstance(n, ast.Call) and isinstance(n.func, ast.Attribute) and n.func.attr == "log_likelihood":
                calls += 1
                if not (isinstance(n.func.value, ast.Name) and n.func.value.id == "self"):
                    ok = False
    out.append(ob(f"callgraph:C17:all {calls} likelihood call sites in the samplers call self.log_likelihood(...)", ok and calls >= 5, "samplers"))
    return out


def c20_entropy(tier):
    """every ambient entropy site of the package is guarded (reachable only when the user supplied no source) or seeded"""
    f = Front()
    out = []
    n_sites = 0
    for mod, tree in f.modules.items():
        parents = {}
        for node in ast.walk(tree):
            for ch in ast.iter_child_nodes(node):
                parents[ch] = node
        for node in ast.walk(tree):
            if not isinstance(node, ast.Call):
                continue
            fn = ast.unparse(node.func)
            kind = None
            if fn.endswith("random.default_rng") and not node.args and not node.keywords:
                kind = "unseeded numpy generator"
            elif fn == "ArrayRNG" and not any(k.arg == "seed" for k in node.keywords):
                kind = "unseeded ArrayRNG"
            elif fn.endswith("random.key") and node.args and isinstance(node.args[0], ast.Constant):
                kind = "constant jax key"
            elif fn in ("torch.manual_seed",):
                kind = "torch seed"
            elif fn in ("torch.seed", "torch.random.seed", "np.random.seed", "numpy.random.seed", "random.seed") and not node.args:
                kind = "process-dependent value"          # torch.seed() *re-seeds* the global generator from OS entropy (it is not a getter)
            elif fn in ("torch.rand", "torch.randn", "torch.randperm", "torch.randn_like", "torch.rand_like"):
                kind = "global torch generator"
            elif fn == "hash" and node.args and not (isinstance(node.args[0], ast.Constant) and isinstance(node.args[0].value, (int, float))):
                # hash() of anything that contains a str / bytes is salted per interpreter process (PYTHONHASHSEED): a value derived from it differs between runs
                kind = "process-dependent value (salted hash)"
            elif fn == "id" or fn in ("time.time", "time.time_ns", "time.perf_counter", "time.monotonic", "os.urandom", "os.getpid", "uuid.uuid4", "uuid.uuid1", "secrets.randbits",
                                      "secrets.token_bytes", "datetime.now", "datetime.datetime.now") or fn.startswith("random.") and fn.split(".")[1] in ("random", "randint", "seed", "getrandbits", "choice", "shuffle", "uniform"):
                kind = "process-dependent value"
            if kind is None:
                continue
            n_sites += 1
            snippet = ast.unparse(parents.get(node, node))[:70].replace("\n", " ")
            # guard analysis
            guarded = False
            p = parents.get(node)
            if isinstance(p, ast.BoolOp) and isinstance(p.op, ast.Or) and p.values[-1] is node and len(p.values) >= 2:
                guarded = True                                  # `user_value or <ambient>`
            def none_side(test):
                """-> 'body' if the test holds when the tested value is None / falsy, 'orelse' if it holds when it is supplied, None otherwise"""
                if isinstance(test, ast.Compare) and len(test.ops) == 1 and isinstance(test.comparators[0], ast.Constant) and test.comparators[0].value is None:
                    if isinstance(test.ops[0], (ast.Is, ast.Eq)):
                        return "body"
                    if isinstance(test.ops[0], (ast.IsNot, ast.NotEq)):
                        return "orelse"
                if isinstance(test, ast.UnaryOp) and isinstance(test.op, ast.Not) and isinstance(test.operand, (ast.Name, ast.Attribute)):
                    return "body"
                if isinstance(test, (ast.Name, ast.Attribute)):
                    return "orelse"
                return None
            cur = node
            while cur in parents:
                par = parents[cur]
                if isinstance(par, (ast.If, ast.IfExp)):
                    side = none_side(par.test)
                    body = par.body if isinstance(par.body, list) else [par.body]
                    orelse = par.orelse if isinstance(par.orelse, list) else [par.orelse]
                    if side == "body" and any(cur is b for b in body):
                        guarded = True                          # inside `if user_value is None:` / `if not user_value:` / `<ambient> if user_value is None else ...`
                    if side == "orelse" and any(cur is b for b in orelse):
                        guarded = True                          # else-branch of `if user_value is not None:` / `if user_value:`
                cur = par
            ok = guarded
            why = "guarded: reached only when the user supplied none"
            if kind == "constant jax key" and not guarded:
                ok = True                                       # a constant key is deterministic, not ambient entropy
                why = "constant key: deterministic"
            if kind == "torch seed":
                # must be unconditional at the top level of __init__ and take the `seed` parameter (seed=0 included)
                fnode = next((x for x in ast.walk(tree) if isinstance(x, ast.FunctionDef) and any(y is node for y in ast.walk(x))), None)
                top = fnode is not None and any(isinstance(st, ast.Expr) and st.value is node for st in fnode.body)
                ok = top and node.args and isinstance(node.args[0], ast.Name) and node.args[0].id == "seed"
                why = "unconditional torch.manual_seed(seed) in the flow constructor"
            if kind == "global torch generator":
                ok = True
                why = "draws from the global torch generator seeded by BaseTorchFlow.__init__ (assumption: nothing else reseeds it in between)"
            if kind.startswith("process-dependent value"):
                # allowed only where the value cannot reach a result: as (part of) a log / warning message
                cur, in_log = node, False
                while cur in parents:
                    cur = parents[cur]
                    if isinstance(cur, ast.Call) and ast.unparse(cur.func).split(".")[0] in ("logger", "logging", "warnings"):
                        in_log = True
                        break
                ok = in_log
                why = "only used in a log message" if in_log else "a value that differs between interpreter processes flows into the computation (seeds, keys, ordering): same explicit random sources no longer give the same run"
            out.append(ob(f"entropy-site:C20:{mod}: `{snippet}` [{kind}] is {why.split(':')[0]}", bool(ok), f"{mod}", why))
    out.append(ob(f"entropy-site:C20:{n_sites} entropy sites enumerated from the ast (expected at least 10)", n_sites >= 10, "package"))
    # routing table from the real signatures: every SMC sampler class must offer a route for the resampling generator
    from contracts.aspire_api import SAMPLER_TYPES
    for st, cls in sorted(set(SAMPLER_TYPES.items())):
        init = f.find_method(cls, "__init__")
        smp = f.find_method(cls, "sample")
        ip, sp = signature(init.node), signature(smp.node)
        has = "rng" in ip[0] + ip[3] or "rng" in sp[0] + sp[3]
        if f.is_subclass(cls, "SMCSampler"):
            out.append(ob(f"routing:C20:{cls} ({st}) offers a way to supply the resampling generator (rng in __init__: {'rng' in ip[0] + ip[3]}, in sample: {'rng' in sp[0] + sp[3]})", has, cls))
    return out


def c13_bindings(tier):
    """every key of Aspire.config_dict() that _build_aspire_from_file hands to the constructor is a constructor parameter (or is removed first / captured
    deliberately), and every recorded setting of the property statement is a key of the saved configuration"""
    f = Front()
    out = []
    cfg_fn = f.get("aspire:Aspire.config_dict")
    keys = []
    for n in ast.walk(cfg_fn.node):
        if isinstance(n, ast.Dict) and len(n.keys) > 5:
            keys = [k.value for k in n.keys if isinstance(k, ast.Constant)]
            break
    for n in ast.walk(cfg_fn.node):
        if isinstance(n, ast.Subscript) and isinstance(n.value, ast.Name) and isinstance(n.slice, ast.Constant) and isinstance(n.ctx, ast.Store):
            keys.append(n.slice.value)
    init = f.get("aspire:Aspire.__init__")
    pos, defaults, vararg, kwonly, kwarg = signature(init.node)
    params = set(pos[1:] + kwonly)
    build = f.get("aspire:Aspire._build_aspire_from_file")
    # the local that holds the loaded configuration (whatever it is called): the target of `<x> = load_from_h5_file(...)`
    cfg_names = set()
    for n in ast.walk(build.node):
        if isinstance(n, ast.Assign) and isinstance(n.value, ast.Call) and ast.unparse(n.value.func).endswith("load_from_h5_file"):
            cfg_names |= {t.id for t in n.targets if isinstance(t, ast.Name)}
    popped = set()
    pop_target = {}          # key -> local name bound to the popped value
    for n in ast.walk(build.node):
        if isinstance(n, ast.Call) and isinstance(n.func, ast.Attribute) and n.func.attr == "pop" and isinstance(n.func.value, ast.Name) \
                and (n.func.value.id in cfg_names or not cfg_names) and n.args and isinstance(n.args[0], ast.Constant):
            popped.add(n.args[0].value)
    for n in ast.walk(build.node):
        if isinstance(n, ast.Assign) and len(n.targets) == 1 and isinstance(n.targets[0], ast.Name):
            for c in ast.walk(n.value):
                if isinstance(c, ast.Call) and isinstance(c.func, ast.Attribute) and c.func.attr == "pop" and c.args and isinstance(c.args[0], ast.Constant):
                    pop_target[c.args[0].value] = n.targets[0].id
    for k in keys:
        ok = k in params or k in popped
        out.append(ob(f"config:C13:saved configuration key '{k}' binds to a constructor parameter of Aspire (or is removed before the call)", ok, "aspire:Aspire._build_aspire_from_file"))
    for need in ("prior_bounds", "periodic_parameters", "flow_kwargs", "xp", "dtype", "bounded_to_unbounded", "bounded_transform", "flow_backend", "flow_matching", "eps", "parameters", "dims"):
        out.append(ob(f"config:C13:setting '{need}' is part of the saved configuration", need in keys, "aspire:Aspire.config_dict"))
    # flow options go back to the constructor as keywords (not nested)
    fk = pop_target.get("flow_kwargs")
    unpacked = False
    for n in ast.walk(build.node):
        if isinstance(n, ast.Call) and ast.unparse(n.func) in ("Aspire", "cls") and any(k.arg is None and isinstance(k.value, ast.Name) and k.value.id == fk for k in n.keywords):
            unpacked = True
    out.append(ob("config:C13:recorded flow options are unpacked into the constructor call (**flow_kwargs)", unpacked and "flow_kwargs" in popped, "aspire:Aspire._build_aspire_from_file"))
    # flows: recorded **kwargs entry is unpacked by both loaders
    for q in ("flows.torch.flows:BaseTorchFlow.load", "flows.jax.flows:FlowJax.load"):
        node = f.get(q).node
        kw_local = None
        for n in ast.walk(node):
            if isinstance(n, ast.Assign) and len(n.targets) == 1 and isinstance(n.targets[0], ast.Name):
                for c in ast.walk(n.value):
                    if isinstance(c, ast.Call) and isinstance(c.func, ast.Attribute) and c.func.attr == "pop" and c.args and isinstance(c.args[0], ast.Constant) and c.args[0].value == "kwargs":
                        kw_local = n.targets[0].id
        merged = False
        for n in ast.walk(node):
            if kw_local is None:
                break
            if isinstance(n, ast.Call) and isinstance(n.func, ast.Attribute) and n.func.attr == "update" and any(isinstance(a, ast.Name) and a.id == kw_local for a in n.args):
                merged = True
            if isinstance(n, ast.Call) and any(k.arg is None and isinstance(k.value, ast.Name) and k.value.id == kw_local for k in n.keywords):
                merged = True
            if isinstance(n, ast.Dict) and any(k is None and isinstance(v, ast.Name) and v.id == kw_local for k, v in zip(n.keys, n.values)):
                merged = True
            if isinstance(n, (ast.BinOp, ast.AugAssign)) and isinstance(n.op, ast.BitOr) and any(isinstance(x, ast.Name) and x.id == kw_local for x in ast.walk(n)):
                merged = True
        out.append(ob(f"config:C13:{q.split(':')[1]} unpacks the recorded constructor **kwargs", kw_local is not None and merged, q))
    # transforms: cls(**config) - every config_dict key of every transform class is a constructor parameter of that class
    for cname in ("IdentityTransform", "CompositeTransform", "FlowTransform", "PeriodicTransform", "ProbitTransform", "LogitTransform", "AffineTransform"):
        keys_t = set()
        for c in reversed(f.mro(cname)):
            ci = f.classes[c]
            if "config_dict" in ci.methods:
                for n in ast.walk(ci.methods["config_dict"].node):
                    if isinstance(n, ast.Dict):
                        keys_t |= {k.value for k in n.keys if isinstance(k, ast.Constant)}
                    if isinstance(n, ast.Call) and isinstance(n.func, ast.Attribute) and n.func.attr == "pop" and n.args and isinstance(n.args[0], ast.Constant):
                        keys_t.discard(n.args[0].value)
        ini = f.find_method(cname, "__init__")
        ip = signature(ini.node)
        out.append(ob(f"config:C13:{cname}: every key of config_dict() {sorted(keys_t)} is a parameter of its constructor", keys_t <= set(ip[0][1:] + ip[3]), f"transforms:{cname}"))
    return out
