"""Obligations decided on the ast / call graph of the real source (no solver needed): constants that writer and reader
must agree on, call-graph facts, entropy sites."""
from __future__ import annotations

import ast

from pyvc.front import Front, signature


def _default(front, qual, name):
    fn = front.get(qual)
    pos, defaults, _, kwonly, _ = signature(fn.node)
    d = defaults.get(name)
    return d.value if isinstance(d, ast.Constant) else None


def _call_kwargs(front, qual, callee_attr):
    """keyword constants of the calls to `<x>.<callee_attr>(...)` inside a function (incl. nested defs)"""
    out = []
    for n in ast.walk(front.get(qual).node):
        if isinstance(n, ast.Call) and isinstance(n.func, ast.Attribute) and n.func.attr == callee_attr:
            out.append({k.arg: (k.value.value if isinstance(k.value, ast.Constant) else ast.unparse(k.value)) for k in n.keywords if k.arg})
    return out


def ob(name, ok, function, detail=""):
    return {"name": name, "function": function, "verdict": "proved" if ok else "failed", "backend": "ast", "kind": "static", "ms": 0.0, "output": detail}


def c12_names(tier):
    f = Front()
    out = []
    w = _call_kwargs(f, "samplers.base:Sampler.default_file_checkpoint_callback", "save_checkpoint_to_hdf")
    wpath = w[0].get("path") if w else None
    wdset = w[0].get("dsetname") if w else None
    r1 = (_default(f, "samplers.base:Sampler.load_checkpoint_from_file", "h5_path"), _default(f, "samplers.base:Sampler.load_checkpoint_from_file", "dsetname"))
    r2 = (_default(f, "aspire:Aspire.resume_from_file", "checkpoint_path"), _default(f, "aspire:Aspire.resume_from_file", "checkpoint_dset"))
    out.append(ob(f"io:C12:C11:checkpoint writer and both readers use the same group/dataset names (writer {wpath}/{wdset})",
                  len(w) == 1 and (wpath, wdset) == r1 == r2 and wpath is not None, "samplers.base:Sampler.default_file_checkpoint_callback",
                  f"writer={wpath}/{wdset} load_checkpoint_from_file={r1} resume_from_file={r2}"))
    fw = _default(f, "aspire:Aspire.save_flow", "path")
    fr = _default(f, "aspire:Aspire.resume_from_file", "flow_path")
    fl = _default(f, "aspire:Aspire.load_flow", "path")
    out.append(ob(f"io:C12:C13:flow is saved and reloaded under the same group name ({fw})", fw is not None and fw == fr == fl, "aspire:Aspire.save_flow", f"{fw} {fr} {fl}"))
    cw = _default(f, "aspire:Aspire.save_config", "path")
    cr = _default(f, "aspire:Aspire.resume_from_file", "config_path")
    out.append(ob(f"io:C12:C13:configuration is saved and reloaded under the same group name ({cw})", cw is not None and cw == cr, "aspire:Aspire.save_config", f"{cw} {cr}"))
    # the in-file membership tests of sample_posterior / fit use the same literal names
    src = ast.unparse(f.get("aspire:Aspire.sample_posterior").node) + ast.unparse(f.get("aspire:Aspire.fit").node)
    out.append(ob("io:C12:C14:sample_posterior/fit test membership of the same literal group names",
                  (f"'{fw}' in h5_file" in src or f'"{fw}" in h5_file' in src) and (f"'{cw}' in h5_file" in src or f'"{cw}" in h5_file' in src), "aspire:Aspire.sample_posterior"))
    return out


def c17_callgraph(tier):
    """the user's likelihood (`_log_likelihood`) is only reachable through the counting wrapper Sampler.log_likelihood"""
    f = Front()
    out = []
    sites = []
    for mod, tree in f.modules.items():
        if not mod.startswith("samplers"):
            continue
        for n in ast.walk(tree):
            if isinstance(n, ast.Attribute) and n.attr == "_log_likelihood":
                sites.append((mod, n.lineno, isinstance(n.ctx, ast.Store)))
    wrapper = f.get("samplers.base:Sampler.log_likelihood")
    init = f.get("samplers.base:Sampler.__init__")
    ok = True
    detail = []
    for mod, ln, store in sites:
        inside_wrapper = mod == "samplers.base" and wrapper.span[0] <= ln <= wrapper.span[1]
        inside_init = mod == "samplers.base" and init.span[0] <= ln <= init.span[1] and store
        if not (inside_wrapper or inside_init):
            ok = False
            detail.append(f"{mod}:{ln}")
    out.append(ob("callgraph:C17:the user's likelihood is referenced only by the counting wrapper Sampler.log_likelihood (and stored by __init__)", ok and len(sites) >= 2,
                  "samplers.base:Sampler.log_likelihood", " ".join(detail)))
    # every sampler-side call of log_likelihood goes through self.log_likelihood (the wrapper), never a saved alias
    calls = 0
    for mod, tree in f.modules.items():
        if not mod.startswith("samplers"):
            continue
        for n in ast.walk(tree):
            if isinstance(n, ast.Call) and isinstance(n.func, ast.Attribute) and n.func.attr == "log_likelihood":
                calls += 1
                if not (isinstance(n.func.value, ast.Name) and n.func.value.id == "self"):
                    ok = False
    out.append(ob(f"callgraph:C17:all {calls} likelihood call sites in the samplers call self.log_likelihood(...)", ok and calls >= 5, "samplers"))
    return out
