"""Frame clauses for *query* methods, computed from the ast: a method that only reports on an object (weights of a population, density of a flow)
assigns no attribute of that object - neither itself nor through the methods / properties of the object it reaches.  A remembered result (memo,
compiled closure, ...) would survive the in-place updates the library performs on the same object (mutate() replaces the fields of a population,
fit() replaces the network of a flow) and then answers for a state that no longer exists."""
from __future__ import annotations

import ast

from pyvc.front import Front

QUERIES = {
    # property tags -> (class, methods)
    "C07:C08:C09": [("SMCSamples", ["log_weights", "unnormalized_log_weights", "log_evidence_ratio", "log_evidence_ratio_variance", "log_p_t"])],
    # evaluation of the proposal density (drawing is not a query: FlowJax.sample advances its key, by design; Samples.compute_weights stores its results, by design)
    "C03": [("ZukoFlow", ["log_prob"]), ("FlowJax", ["log_prob"])],
}


def _ob(name, ok, function, detail=""):
    return {"name": name, "function": function, "verdict": "proved" if ok else "failed", "backend": "ast", "kind": "static", "ms": 0.0, "output": detail}


def _reach(front, cls, root):
    """methods / properties of `cls` reachable from `root` through self.m(...), self.p, super().m(...)"""
    seen, todo = {}, [(root, None)]
    while todo:
        m, after = todo.pop()
        info = front.find_method(cls, m, after=after) or (front.find_property(cls, m) if after is None else None)
        if info is None:
            continue
        key = f"{info.cls}.{info.node.name}"
        if key in seen:
            continue
        seen[key] = info
        for x in ast.walk(info.node):
            if isinstance(x, ast.Call) and isinstance(x.func, ast.Attribute):
                v = x.func.value
                if isinstance(v, ast.Name) and v.id == "self":
                    todo.append((x.func.attr, None))
                elif isinstance(v, ast.Call) and isinstance(v.func, ast.Name) and v.func.id == "super":
                    todo.append((x.func.attr, info.cls))
            if isinstance(x, ast.Attribute) and isinstance(x.value, ast.Name) and x.value.id == "self" and isinstance(x.ctx, ast.Load):
                todo.append((x.attr, None))
    return seen


def _stores(node):
    out = []
    for x in ast.walk(node):
        if isinstance(x, ast.Attribute) and isinstance(x.value, ast.Name) and x.value.id == "self" and isinstance(x.ctx, (ast.Store, ast.Del)):
            out.append(x.attr)
        if isinstance(x, ast.Call) and isinstance(x.func, ast.Name) and x.func.id in ("setattr", "delattr") and x.args and isinstance(x.args[0], ast.Name) and x.args[0].id == "self":
            out.append(ast.unparse(x.args[1]) if len(x.args) > 1 else "?")
        if isinstance(x, ast.Attribute) and x.attr == "__dict__" and isinstance(x.value, ast.Name) and x.value.id == "self":
            out.append("__dict__")
    return out


def query_frames(prop):
    front = Front()
    out = []
    for tags, items in QUERIES.items():
        if prop not in tags.split(":"):
            continue
        for cls, methods in items:
            if cls not in front.classes:
                continue
            for m in methods:
                if front.find_method(cls, m) is None:
                    continue
                reach = _reach(front, cls, m)
                written = sorted({f"{k}: self.{a}" for k, info in reach.items() for a in _stores(info.node)})
                out.append(_ob(f"frame:{tags}:{cls}.{m} assigns no attribute of the object it reports on (nothing is remembered across the in-place updates of that object)",
                               not written, f"{cls}.{m}", "; ".join(written) or f"{len(reach)} method(s) examined"))
    return out
