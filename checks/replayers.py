"""Counter-model replay against the real code.

A failed z3 obligation carries the solver's model of the contract's symbolic inputs.  Where those inputs are
plain numbers/strings the model is a concrete call of the real function: each replayer below rebuilds that call,
runs the real code of the tree the obligation came from and reports whether the violated clause is observed.
Only a reproduced failure counts as a failing input; otherwise the VIOLATION line keeps `no-failing-input-found`.
"""
from __future__ import annotations

import ast
import re
from fractions import Fraction


def _num(s):
    s = str(s).replace("?", "")
    try:
        return float(Fraction(s))
    except Exception:
        try:
            return float(s)
        except Exception:
            return None


def replay_composite_init(o):
    import numpy as np
    from aspire.transforms import CompositeTransform
    label = o.get("function") or o.get("label") or ""
    m = re.search(r"periodic=(\[[^\]]*\]),bounds_order=(\w+),b2u=(\d),bt=(\w+),affine=(\d)", label)
    model = o.get("model") or {}
    if not m:
        return None
    periodic = ast.literal_eval(m.group(1))
    params = ["p0", "p1", "p2"]
    lo = {p: _num(model.get(f"lo_{p}", 0)) for p in params}
    hi = {p: _num(model.get(f"hi_{p}", 1)) for p in params}
    if any(v is None for v in list(lo.values()) + list(hi.values())):
        return None
    keys = params if m.group(2) == "same" else list(reversed(params))
    bounds = {k: [lo[k], hi[k]] for k in keys}
    call = dict(parameters=params, periodic_parameters=list(periodic), prior_bounds=bounds, bounded_to_unbounded=bool(int(m.group(3))),
                bounded_transform=m.group(4), affine_transform=bool(int(m.group(5))))
    t = CompositeTransform(xp=np, **call)
    per_cols = [p for p in params if p in periodic]
    bnd_cols = [p for p in params if p not in periodic] if call["bounded_to_unbounded"] else []
    bad = []
    for attr, cols in (("_periodic_transform", per_cols), ("_bounded_transform", bnd_cols)):
        if not cols:
            continue
        sub = getattr(t, attr, None)
        if sub is None:
            bad.append(f"{attr} missing")
            continue
        L, U = np.asarray(sub.lower, dtype=float).ravel(), np.asarray(sub.upper, dtype=float).ravel()
        if len(L) != len(cols):
            bad.append(f"{attr}: {len(L)} bounds for {len(cols)} columns")
            continue
        for j, p in enumerate(cols):
            if L[j] != lo[p] or U[j] != hi[p]:
                bad.append(f"{attr} column #{j} ('{p}'): built with [{L[j]}, {U[j]}], parameter's bounds are [{lo[p]}, {hi[p]}]")
    return {"reproduced": bool(bad), "call": "CompositeTransform(xp=numpy, **%r)" % (call,), "observed": bad}


REPLAYERS = [
    (re.compile(r"^transforms:CompositeTransform\.__init__:"), replay_composite_init),
]


def replay(o):
    for rx, fn in REPLAYERS:
        if rx.search(o["name"]):
            try:
                return fn(o)
            except Exception as e:   # a crash while replaying decides nothing
                return {"reproduced": False, "error": repr(e)[:300]}
    return None
