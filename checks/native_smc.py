"""Bounded native stand-ins for the SMC properties: the *real* SMCSampler.sample loop (through the real
MiniPCNSMC class, with replay-only stand-ins for the absent kernel packages `minipcn` / `orng`) is run on
small problems over option grids, and the contract clauses are evaluated natively on what it did.
Everything here is labelled `bounded` in the evidence and never counted as discharged."""
from __future__ import annotations

import io
import logging
import math
import os
import pickle
import sys
import warnings

ROOT = os.path.dirname(os.path.dirname(os.path.abspath(__file__)))
REPO = os.environ.get("ASPIRE_REPO", "/repo")
for p in (os.path.join(ROOT, "stubs"), os.path.join(REPO, "src")):
    if p not in sys.path:
        sys.path.insert(0, p)
warnings.filterwarnings("ignore")
logging.disable(logging.CRITICAL)

import numpy as np  # noqa: E402


def _mods():
    import array_api_compat.numpy as xnp
    from aspire.flows.base import Flow
    from aspire.samplers.smc.minipcn import MiniPCNSMC
    from aspire.samples import SMCSamples, Samples
    return xnp, Flow, MiniPCNSMC, SMCSamples, Samples


class Problem:
    """Gaussian likelihood in a box prior with a closed-form Gaussian 'flow' as proposal"""

    def __init__(self, dims=2, scale=1.0, seed=1, box=10.0, fail_at=None, hole=None):
        xnp, Flow, MiniPCNSMC, SMCSamples, Samples = _mods()
        self.dims, self.scale, self.box = dims, scale, box
        self.hole = hole          # likelihood is -inf (zero) for x_0 > hole: particles inside the prior support that carry no weight
        self.calls = []          # (kind, n, prior_present, prior_matches)
        self.n_like_points = 0
        self.fail_at = fail_at   # raise at this likelihood call index
        self.like_calls = 0
        prob = self

        class GaussFlow(Flow):
            xp = xnp

            def __init__(self, dims, device=None, data_transform=None, mu=0.0, sigma=2.0, seed=0):
                super().__init__(dims, device, data_transform)
                self.mu, self.sigma = mu, sigma
                self.rng = np.random.default_rng(seed)

            def log_prob(self, x, xp=xnp):
                x = np.asarray(x)
                return (-0.5 * ((x - self.mu) / self.sigma) ** 2 - math.log(self.sigma * math.sqrt(2 * math.pi))).sum(-1)

            def sample_and_log_prob(self, n, xp=xnp):
                x = self.rng.normal(self.mu, self.sigma, size=(n, self.dims))
                return x, self.log_prob(x)

        self.flow = GaussFlow(dims, seed=seed)
        self.seed = seed

        def log_prior(s):
            return prob.pi(np.asarray(s.x))

        def log_like(s):
            prob.like_calls += 1
            if prob.fail_at is not None and prob.like_calls == prob.fail_at:
                raise RuntimeError("injected fault")
            x = np.asarray(s.x)
            present = s.log_prior is not None
            matches = bool(present and np.array_equal(np.asarray(s.log_prior), prob.pi(x)))
            prob.calls.append(("like", len(x), present, matches))
            prob.n_like_points += len(x)
            return prob.L(x)

        self.log_prior, self.log_like = log_prior, log_like

    def pi(self, x):
        return np.where((np.abs(x) <= self.box).all(-1), -self.dims * math.log(2 * self.box), -np.inf)

    def L(self, x):
        v = -0.5 * self.scale * ((x - 1.0) ** 2).sum(-1)
        if self.hole is not None:
            v = np.where(x[:, 0] > self.hole, -np.inf, v)
        return v

    def q(self, x):
        return self.flow.log_prob(x)

    def sampler(self, rng_seed=None, cls=None):
        xnp, Flow, MiniPCNSMC, SMCSamples, Samples = _mods()
        cls = cls or MiniPCNSMC
        return cls(self.log_like, self.log_prior, self.dims, self.flow, xnp, parameters=[f"x_{i}" for i in range(self.dims)],
                   rng=np.random.default_rng(self.seed if rng_seed is None else rng_seed))


def run(opts, scale=1.0, seed=1, dims=2, n=30, fail_at=None, resume_from=None, capture=True, kernel_steps=2):
    """one SMC run; returns a record"""
    kw = dict(opts)
    # `_box`: half-width of the prior support; a narrow box makes the proposal draw points outside the prior (several proposal rounds)
    pr = Problem(dims=dims, scale=scale, seed=seed, fail_at=fail_at, box=kw.pop("_box", 10.0), hole=kw.pop("_hole", None))
    s = pr.sampler()
    payloads = []
    user_cb = kw.pop("_user_callback", False)
    if capture and (user_cb or kw.get("checkpoint_every") is not None):
        def cb(state, _s=s):
            payloads.append({"iteration": state["iteration"], "beta": state["meta"]["beta"], "bytes": _s.serialize_checkpoint(state),
                             "n": len(state["samples"].x), "hist_len": len(state["history"].beta)})
            _s.default_checkpoint_callback(state)
        kw["checkpoint_callback"] = cb
    if resume_from is not None:
        kw["resume_from"] = resume_from
    rec = {"opts": {k: v for k, v in opts.items()}, "scale": scale, "seed": seed, "n": n, "exc": None, "problem": pr, "sampler": s, "payloads": payloads}
    try:
        out = s.sample(n, rng=np.random.default_rng(seed + 1000), sampler_kwargs={"n_steps": kernel_steps}, **kw)
        rec["out"] = out
    except Exception as e:  # noqa: BLE001
        rec["exc"] = e
        rec["out"] = None
    rec["history"] = s.history
    return rec


# ------------------------------------------------------------------------------ predicates
def schedule_failures(rec):
    """C06 clauses on one run"""
    f = []
    o = rec["opts"]
    if rec["exc"] is not None:
        if isinstance(rec["exc"], RuntimeError) and "injected" in str(rec["exc"]):
            return f
        return [("C06 no valid option combination raises", f"{type(rec['exc']).__name__}: {rec['exc']}")]
    b = [float(x) for x in rec["history"].beta]
    if any(not (0 < x <= 1) for x in b):
        f.append(("C06 temperatures in (0,1]", b))
    if any(b[i + 1] <= b[i] for i in range(len(b) - 1)):
        f.append(("C06 strictly increasing", b))
    cap = o.get("max_n_steps")
    if not (b and (b[-1] == 1.0 or (cap is not None and len(b) >= cap))):
        f.append(("C06 ends at 1 or at the cap", b[-3:]))
    if cap is not None and len(b) > cap:
        f.append(("C06 cap honoured", (len(b), cap)))
    if not o.get("adaptive", True) and o.get("n_steps") is not None and cap is None and len(b) != o["n_steps"]:
        f.append(("C06 fixed schedule performs exactly n iterations", (len(b), o["n_steps"])))
    ms = o.get("min_step")
    if ms and o.get("adaptive", True):
        steps = np.diff([0.0] + b)
        if any(st < ms - 1e-12 for st in steps[:-1]):
            f.append(("C06 minimum step honoured", steps.tolist()))
    return f


def lse(a):
    import mpmath
    a = [mpmath.mpf(float(x)) for x in a]
    m = max(a)
    return m + mpmath.log(sum(mpmath.e ** (x - m) for x in a))


def ess(a):
    import mpmath
    return float(mpmath.e ** (2 * lse(a) - lse([2 * x for x in a])))


def history_failures(rec, resumed=False):
    """C08 / C18 clauses recomputed from the stored populations"""
    f = []
    if rec["exc"] is not None or rec["out"] is None:
        return f
    h = rec["history"]
    k = len(h.beta)
    for nm in ("log_norm_ratio", "log_norm_ratio_var", "ess", "ess_target", "eff_target", "mcmc_acceptance"):
        if len(getattr(h, nm)) != k:
            nf = rec["opts"].get("n_final_samples")
            tag = " [after final enlargement]" if (nm == "mcmc_acceptance" and nf is not None and nf != rec["n"]) else ""
            f.append((f"C18 len(history.{nm}) == iterations{tag}", (nm, len(getattr(h, nm)), k)))
    sh = h.sample_history
    if rec["opts"].get("store_sample_history", True):
        if len(sh) != k + 1:
            f.append(("C18 len(sample_history) == iterations + 1", (len(sh), k)))
        else:
            tot = 0.0
            for j in range(k):
                pop, nxt = sh[j], sh[j + 1]
                b0 = 0.0 if j == 0 else float(h.beta[j - 1])
                b1 = float(h.beta[j])
                if float(nxt.beta) != b1:
                    f.append(("C18 recorded beta equals the next population's temperature", (j, float(nxt.beta), b1)))
                if pop.beta is not None and float(pop.beta) != b0:
                    f.append(("C18 stored population carries its temperature", (j, float(pop.beta), b0)))
                w = (b1 - b0) * (np.asarray(pop.log_likelihood) + np.asarray(pop.log_prior) - np.asarray(pop.log_q))
                ler = float(lse(w)) - math.log(len(w))
                if not math.isclose(ler, float(h.log_norm_ratio[j]), rel_tol=1e-9, abs_tol=1e-9):
                    f.append(("C08 per-step ratio == LER(pre-resampling population, temperatures used)", (j, ler, float(h.log_norm_ratio[j]))))
                e = ess(w)
                if not math.isclose(e, float(h.ess[j]), rel_tol=1e-7, abs_tol=1e-7):
                    f.append(("C18 recorded ess == ESS(IW(previous population, beta))", (j, e, float(h.ess[j]))))
                tot += float(h.log_norm_ratio[j])
    out = rec["out"]
    s1 = float(np.sum(np.asarray(h.log_norm_ratio, dtype=float)))
    if not math.isclose(float(out.log_evidence), s1, rel_tol=1e-9, abs_tol=1e-9):
        f.append(("C08 log_evidence == sum of per-step ratios", (float(out.log_evidence), s1)))
    s2 = math.sqrt(float(np.sum(np.asarray(h.log_norm_ratio_var, dtype=float))))
    if not math.isclose(float(out.log_evidence_error), s2, rel_tol=1e-9, abs_tol=1e-12):
        f.append(("C08 log_evidence_error == sqrt(sum of variances)", (float(out.log_evidence_error), s2)))
    return f


def aligned_failures(rec):
    """C10: cached log-densities belong to the coordinates, on every population handed back or recorded"""
    f = []
    if rec["out"] is None:
        return f
    pr = rec["problem"]
    pops = [("final", rec["out"])] + [(f"history[{j}]", p) for j, p in enumerate(rec["history"].sample_history)]
    for nm, p in pops:
        x = np.asarray(p.x)
        if p.log_prior is not None and not np.array_equal(np.asarray(p.log_prior), pr.pi(x)):
            f.append(("C10 log_prior belongs to the row", nm))
        if p.log_likelihood is not None and not np.allclose(np.asarray(p.log_likelihood), pr.L(x), rtol=0, atol=0):
            f.append(("C10 log_likelihood belongs to the row", nm))
        if getattr(p, "log_q", None) is not None and not np.allclose(np.asarray(p.log_q), pr.q(x), rtol=0, atol=0):
            f.append(("C10 log_q belongs to the row", nm))
    sh = rec["history"].sample_history
    if sh:
        p0 = sh[0]
        if len(p0.x) != rec["n"] and "resume_from" not in rec["opts"]:
            f.append(("C10 initial population has the requested size", (len(p0.x), rec["n"])))
        if not np.isfinite(np.asarray(p0.log_prior)).all():
            f.append(("C10 initial population has finite prior", "non-finite"))
    return f


def counting_failures(rec):
    """C17"""
    f = []
    pr, s = rec["problem"], rec["sampler"]
    for c in pr.calls:
        if not c[2]:
            f.append(("C17 likelihood called without the prior attached", c))
        elif not c[3]:
            f.append(("C17 prior attached is not the prior of exactly those points", c))
    if rec["exc"] is None and s.n_likelihood_evaluations != pr.n_like_points:
        f.append(("C17 n_likelihood_evaluations == points the likelihood was asked to evaluate", (s.n_likelihood_evaluations, pr.n_like_points)))
    return f


def cadence_failures(rec):
    """C12 cadence on one finished run with a recording callback"""
    f = []
    if rec["exc"] is not None:
        return f
    every = rec["opts"].get("checkpoint_every")
    if every is None and not rec["opts"].get("_user_callback"):
        return f
    every = every or 1
    k = len(rec["history"].beta)
    expect = [i for i in range(1, k + 1) if i % every == 0] + [k]
    got = [p["iteration"] for p in rec["payloads"]]
    if got != expect:
        f.append(("C12 checkpoints exactly at iterations % every == 0 plus once at the end", (got, expect)))
    for p in rec["payloads"][:-1]:
        if p["hist_len"] != p["iteration"]:
            f.append(("C12 payload history is current", (p["iteration"], p["hist_len"])))
    return f


GRID_QUICK = [
    dict(n_steps=3, adaptive=False), dict(n_steps=7, adaptive=False), dict(n_steps=10, adaptive=False),
    dict(adaptive=True), dict(adaptive=True, min_step=0.2), dict(adaptive=True, max_n_steps=3),
    dict(adaptive=True, min_step=0.05, max_n_steps=4), dict(adaptive=True, target_efficiency=(0.3, 0.8), target_efficiency_rate=2.0),
    dict(adaptive=True, n_final_samples=45), dict(n_steps=4, adaptive=False, n_final_samples=12, checkpoint_every=2),
    dict(adaptive=True, checkpoint_every=1), dict(adaptive=True, checkpoint_every=3, max_n_steps=5),
    dict(n_steps=5, adaptive=True), dict(adaptive=True, target_efficiency=0.9), dict(adaptive=True, target_efficiency=0.1, min_step=0.0),
    dict(adaptive=True, _user_callback=True),
    dict(adaptive=True, _box=1.5), dict(n_steps=4, adaptive=False, _box=2.5, n_final_samples=40),
    dict(n_steps=4, adaptive=False, _hole=1.5), dict(adaptive=True, _hole=2.0, min_step=0.05),
]


def grid(tier, seed):
    g = list(GRID_QUICK)
    if tier == "thorough":
        rng = np.random.default_rng(seed)
        for _ in range(60):
            o = {}
            if rng.random() < 0.4:
                o["n_steps"] = int(rng.integers(1, 40))
                o["adaptive"] = bool(rng.random() < 0.3)
            else:
                o["adaptive"] = True
            if rng.random() < 0.3:
                o["min_step"] = float(rng.choice([0.0, 0.01, 0.1, 0.5, 1.0]))
            if rng.random() < 0.3:
                o["max_n_steps"] = int(rng.integers(1, 8))
            if rng.random() < 0.3:
                o["n_final_samples"] = int(rng.integers(5, 60))
            if rng.random() < 0.4:
                o["checkpoint_every"] = int(rng.integers(1, 5))
            if rng.random() < 0.3:
                o["target_efficiency"] = (0.2, 0.9)
            g.append(o)
    return g


_CACHE = {}


def runs(tier, seed):
    key = (tier, seed)
    if key in _CACHE:
        return _CACHE[key]
    out = []
    scales = [1.0, 40.0] if tier == "quick" else [1e-3, 1.0, 40.0, 1e4]
    for j, o in enumerate(grid(tier, seed)):
        for sc in scales:
            out.append(run(o, scale=sc, seed=seed + j))
    # extremely peaked likelihood: only with a cap, since every step is then a tolerance-sized step
    for sc in (1e9,):
        out.append(run(dict(adaptive=True, max_n_steps=3), scale=sc, seed=seed))
        out.append(run(dict(adaptive=True, min_step=0.25), scale=sc, seed=seed))
        out.append(run(dict(n_steps=3, adaptive=False), scale=sc, seed=seed))
    _CACHE[key] = out
    return out


def fixed_schedule_float(nmax):
    """float-level: the real non-adaptive rule of determine_beta performs exactly n steps for every n <= nmax"""
    ns = Problem(dims=1, seed=0).sampler()       # a real sampler object, configured the way sample(adaptive=False) does
    ns.adaptive = False
    bad = []
    for n in range(1, nmax + 1):
        beta, it = 0.0, 0
        step = 1 / n
        while beta != 1.0 and it <= n + 2:
            beta, _ = ns.determine_beta(None, beta, step, 0.0)
            it += 1
        if it != n:
            bad.append((n, it))
    return bad


def determine_beta_native(tier, seed):
    """native contract of determine_beta on random populations incl. extremely peaked ones"""
    import types
    xnp, Flow, MiniPCNSMC, SMCSamples, Samples = _mods()
    from aspire.samplers.smc.base import SMCSampler
    rng = np.random.default_rng(seed)
    fails, cases = [], 0
    reps = 60 if tier == "quick" else 600
    for r in range(reps):
        n = int(rng.integers(2, 60))
        scale = float(10 ** rng.uniform(-3, 9))
        ll = -0.5 * scale * rng.normal(size=n) ** 2
        lp = np.zeros(n)
        lq = rng.normal(size=n)
        beta = float(rng.choice([0.0, rng.uniform(0, 0.999)]))
        s = SMCSamples(rng.normal(size=(n, 1)), log_likelihood=ll, log_prior=lp, log_q=lq, beta=beta)
        ms = float(rng.choice([0.0, 0.0, 0.01, 0.3]))
        tol = float(rng.choice([1e-6, 1e-3]))
        # a real sampler object (freshly constructed, so every attribute __init__ creates is present), configured the way sample() does
        smp = Problem(dims=1, seed=seed).sampler()
        smp.adaptive, smp.adaptive_min_step = True, bool(rng.random() < 0.3)
        smp.target_efficiency = float(rng.uniform(0.05, 0.95))
        smp.target_efficiency_rate = 1.0
        cases += 1
        try:
            b2, m2 = smp.determine_beta(s, beta, float("nan"), ms, beta_tolerance=tol)
        except Exception as e:  # noqa: BLE001
            fails.append({"id": f"determine_beta-raises-{r}", "obligation": "no-ZeroDivisionError", "what": f"{type(e).__name__}: {e}",
                          "input": dict(n=n, scale=scale, beta=beta, min_step=ms, tol=tol, seed=seed, rep=r)})
            continue
        if not (beta < b2 <= 1.0):
            fails.append({"id": f"determine_beta-progress-{r}", "obligation": "C06:strict-progress", "what": f"beta {beta} -> {b2}",
                          "input": dict(n=n, scale=scale, beta=beta, min_step=ms, tol=tol, seed=seed, rep=r)})
            continue
        # C07: within tolerance of the largest temperature meeting the target (E evaluated natively)
        t = smp._target_efficiency
        w = lambda b: (b - beta) * (ll + lp - lq)  # noqa: E731
        E = lambda b: ess(w(b)) / n  # noqa: E731
        floor_binds = (b2 <= beta + max(m2, tol) * (1 + 1e-9))
        if b2 < 1.0 and not floor_binds:
            if E(b2) < t * (1 - 1e-9):
                fails.append({"id": f"determine_beta-target-{r}", "obligation": "C07:E(beta_star) >= target", "what": f"E({b2})={E(b2)} < {t}",
                              "input": dict(n=n, scale=scale, beta=beta, min_step=ms, tol=tol, seed=seed, rep=r)})
            elif E(min(1.0, b2 + 2 * tol)) >= t and E(1.0) < t and all(E(min(1.0, b2 + kk * tol)) >= t for kk in (3, 4)):
                fails.append({"id": f"determine_beta-maximal-{r}", "obligation": "C07:beta_star maximal", "what": f"E still >= target beyond {b2}+2tol",
                              "input": dict(n=n, scale=scale, beta=beta, min_step=ms, tol=tol, seed=seed, rep=r)})
        if b2 == 1.0 and not floor_binds and E(1.0) < t * (1 - 1e-9) and beta + max(m2, tol) < 1.0:
            # jumped to 1 although the full step does not meet the target and no floor forces it
            lo_ok = E(beta + (1 - beta) * 0.999999) >= t
            if not lo_ok:
                fails.append({"id": f"determine_beta-overshoot-{r}", "obligation": "C07:result is beta_star", "what": f"jumped to 1 with E(1)={E(1.0)} < {t}",
                              "input": dict(n=n, scale=scale, beta=beta, min_step=ms, tol=tol, seed=seed, rep=r)})
    c3, f3 = repeated_call_native(tier, seed)
    return cases + c3, fails + f3


def repeated_call_native(tier, seed):
    """C07 on a sampler object that is used for more than one sample() call: every adaptive step of the later call must meet the
    target in force in that call (recomputed from the stored populations), whatever the earlier call left on the object"""
    fails, cases = [], 0
    tol = 1e-6
    for first, second in (((0.3, 0.9), 0.25), (0.8, 0.2), (0.15, 0.7)):
        pr = Problem(dims=2, scale=5.0, seed=seed)
        s = pr.sampler()
        try:
            s.sample(30, rng=np.random.default_rng(seed + 1), sampler_kwargs={"n_steps": 2}, adaptive=True, target_efficiency=first)
            s.sample(30, rng=np.random.default_rng(seed + 2), sampler_kwargs={"n_steps": 2}, adaptive=True, target_efficiency=second)
        except Exception as e:  # noqa: BLE001
            fails.append({"id": f"repeated-call-raises-{first}-{second}", "obligation": "C07:repeated call", "what": f"{type(e).__name__}: {e}", "input": {"first": first, "second": second, "seed": seed}})
            continue
        h = s.history
        for j in range(len(h.beta)):
            cases += 1
            pop = h.sample_history[j]
            b0 = 0.0 if j == 0 else float(h.beta[j - 1])
            b1 = float(h.beta[j])
            lw = np.asarray(pop.log_likelihood) + np.asarray(pop.log_prior) - np.asarray(pop.log_q)
            E = lambda b: ess((b - b0) * lw) / len(lw)  # noqa: E731
            inp = {"first_call_target": first, "second_call_target": second, "seed": seed, "step": j, "beta_prev": b0, "beta": b1}
            if b1 < 1.0 and b1 - b0 > 2 * tol:
                if E(b1) < second * (1 - 1e-9):
                    fails.append({"id": f"repeated-call-target-{first}-{second}-{j}", "obligation": "C07:E(beta_star) >= target", "what": f"second call on the same sampler: E({b1})={E(b1)} < target {second}", "input": inp})
                elif all(E(min(1.0, b1 + kk * tol)) >= second for kk in (2, 3, 4)) and E(1.0) < second:
                    fails.append({"id": f"repeated-call-maximal-{first}-{second}-{j}", "obligation": "C07:beta_star maximal", "what": f"second call on the same sampler: E still >= target {second} beyond {b1}+2tol (E={E(min(1.0, b1 + 4 * tol))})", "input": inp})
            if b1 == 1.0 and E(1.0) < second * (1 - 1e-9) and (1.0 - b0) > 2 * tol and E(b0 + (1 - b0) * 0.999999) < second:
                fails.append({"id": f"repeated-call-overshoot-{first}-{second}-{j}", "obligation": "C07:result is beta_star", "what": f"second call on the same sampler: jumped to 1 with E(1)={E(1.0)} < {second}", "input": inp})
    return cases, fails


def native_C06(tier, seed):
    fails = []
    nmax = 512 if tier == "quick" else 10000
    bad = fixed_schedule_float(nmax)
    for n, it in bad[:5]:
        fails.append({"id": f"fixed-schedule-float-n{n}", "obligation": "C06:fixed", "what": f"n_steps={n} performs {it} iterations in floating point",
                      "input": {"n_steps": n}})
    cases = nmax
    rs = runs(tier, seed)
    for rec in rs:
        cases += 1
        for nm, detail in schedule_failures(rec):
            fails.append({"id": f"smc-run-{rs.index(rec)}", "obligation": nm, "what": f"{nm}: {str(detail)[:200]}", "input": {"opts": rec["opts"], "scale": rec["scale"], "seed": rec["seed"]}})
    c2, f2 = determine_beta_native(tier, seed)
    fails += [f for f in f2 if "C07" not in f["obligation"]]
    return {"what": "float-level iteration count of the real fixed-schedule rule for every n_steps <= bound; real SMC loop (stub kernel) over an option grid x likelihood scales up to 1e9; native contract of determine_beta on random populations",
            "bound": f"n_steps <= {nmax}; {len(rs)} runs; {c2} determine_beta inputs", "cases": cases + c2, "failures": fails}


def native_C07(tier, seed):
    c2, f2 = determine_beta_native(tier, seed)
    return {"what": "native contract of the real determine_beta against a brute-force evaluation of the ESS curve (mpmath) on random populations, scales 1e-3..1e9",
            "bound": f"{c2} populations", "cases": c2, "failures": [f for f in f2 if "C07" in f["obligation"]]}


def _collect(tier, seed, pred, what):
    rs = runs(tier, seed)
    fails = []
    for j, rec in enumerate(rs):
        for nm, detail in pred(rec):
            fails.append({"id": f"smc-run-{j}", "obligation": nm, "what": f"{nm}: {str(detail)[:200]}", "input": {"opts": rec["opts"], "scale": rec["scale"], "seed": rec["seed"]}})
    return {"what": what, "bound": f"{len(rs)} runs of the real loop (stub kernel)", "cases": len(rs), "failures": fails}


def native_C08(tier, seed):
    return _collect(tier, seed, lambda r: [x for x in history_failures(r) if x[0].startswith("C08")],
                    "recomputation (mpmath) of every per-step ratio and of the final sum from the recorded populations")


def native_C18(tier, seed):
    res = _collect(tier, seed, lambda r: [x for x in history_failures(r) if x[0].startswith("C18")],
                   "series lengths, stored populations and recorded values recomputed from neighbouring populations; the same on runs interrupted at a likelihood call and resumed (bytes / dict / file)")
    # interrupted and resumed runs: the history of the resumed run must satisfy the same clauses
    import pickle
    from . import native_ckpt as K
    configs = [dict(n_steps=4, adaptive=False, checkpoint_every=1), dict(adaptive=True, checkpoint_every=2, min_step=0.05),
               dict(adaptive=True, checkpoint_every=1, n_final_samples=30)]
    n_res = 0
    for ci, o in enumerate(configs):
        path, d = K._fresh_path("c18")
        try:
            ref = K.run_with_file(o, path, seed + ci)
            ncalls = ref["problem"].like_calls
            pts = sorted({max(2, ncalls // 3), max(2, ncalls // 2), max(2, ncalls - 1)}) if tier == "quick" else list(range(2, ncalls + 1))
            for k in pts:
                if os.path.exists(path):
                    os.remove(path)
                r = K.run_with_file(o, path, seed + ci, fail_at=k)
                if r["exc"] is None or not r["payloads"]:
                    continue
                last = r["payloads"][-1][1]
                for route, src in (("bytes", last), ("dict", pickle.loads(last)), ("path", path)):
                    p2, d2 = K._fresh_path("c18r")
                    try:
                        rr = K.run_with_file(o, p2, seed + ci, resume_from=src)
                        rr.update({"opts": dict(o, resume_from=route), "n": 24, "scale": 5.0, "seed": seed + ci})
                        n_res += 1
                        for nm, detail in history_failures(rr, resumed=True):
                            if nm.startswith("C18"):
                                res["failures"].append({"id": f"resumed-{ci}-{k}-{route}", "obligation": nm, "what": f"{nm} [resumed run]: {str(detail)[:200]}",
                                                        "input": {"opts": o, "seed": seed + ci, "fault_at_likelihood_call": k, "route": route,
                                                                  "checkpoint_iteration": r["payloads"][-1][0]}})
                    finally:
                        K._cleanup(d2)
        finally:
            K._cleanup(d)
    res["cases"] += n_res
    res["bound"] += f" + {n_res} interrupted-and-resumed runs"
    return res


def native_C10(tier, seed):
    return _collect(tier, seed, aligned_failures, "recomputation of all three caches on every population handed back or recorded")


def native_C17(tier, seed):
    res = _collect(tier, seed, counting_failures, "instrumented user callables over full runs (incl. narrow priors that need several proposal rounds) and over runs resumed from a checkpoint")
    # resumed runs: a fresh sampler resuming from a checkpoint counts what *its* likelihood was asked, and the prior is attached at every call
    import pickle
    from . import native_ckpt as K
    n_res = 0
    for ci, o in enumerate([dict(n_steps=4, adaptive=False, checkpoint_every=1), dict(adaptive=True, checkpoint_every=2, min_step=0.05)]):
        path, d = K._fresh_path("c17")
        try:
            ref = K.run_with_file(o, path, seed + ci)
            ncalls = ref["problem"].like_calls
            r = K.run_with_file(o, path, seed + ci, fail_at=max(2, ncalls // 2))
            if r["exc"] is None or not r["payloads"]:
                continue
            last = r["payloads"][-1][1]
            for route, src in (("bytes", last), ("dict", pickle.loads(last))):
                p2, d2 = K._fresh_path("c17r")
                try:
                    rr = K.run_with_file(o, p2, seed + ci, resume_from=src)
                    rr.update({"opts": dict(o, resume_from=route), "n": 24, "scale": 5.0, "seed": seed + ci})
                    n_res += 1
                    for nm, detail in counting_failures(rr):
                        res["failures"].append({"id": f"resumed-{ci}-{route}", "obligation": nm, "what": f"{nm} [resumed run]: {str(detail)[:200]}",
                                                "input": {"opts": o, "seed": seed + ci, "route": route, "checkpoint_iteration": r["payloads"][-1][0]}})
                finally:
                    K._cleanup(d2)
        finally:
            K._cleanup(d)
    res["cases"] += n_res
    res["bound"] += f" + {n_res} resumed runs"
    return res


def native_C05(tier, seed):
    """the real log_prob of the SMC / MCMC sampler classes against an independent IEEE recomputation of the tempered target"""
    xnp, Flow, MiniPCNSMC, SMCSamples, Samples = _mods()
    from aspire.samplers.mcmc import MCMCSampler
    from aspire.transforms import CompositeTransform
    rng = np.random.default_rng(seed)
    fails, cases = [], 0

    class BoxFlow(Flow):
        xp = xnp

        def __init__(self, dims, device=None, data_transform=None):
            super().__init__(dims, device, data_transform)

        def log_prob(self, x, xp=xnp):
            x = np.asarray(x)
            inside = (np.abs(x) < 5).all(-1)
            with np.errstate(divide="ignore"):
                return np.where(inside, -0.5 * (x ** 2).sum(-1) - x.shape[-1] * math.log(2.4), -np.inf)

        def sample_and_log_prob(self, n, xp=xnp):
            x = rng.uniform(-4.9, 4.9, size=(n, self.dims))
            return x, self.log_prob(x)

    def pi(x, box):
        return np.where((np.abs(x) <= box).all(-1), -x.shape[-1] * math.log(2 * box), -np.inf)

    def L(x, mode):
        v = -0.5 * ((x - 1.0) ** 2).sum(-1)
        if mode == "nan":
            v = np.where(x[:, 0] > 4.0, np.nan, v)
        if mode == "posinf":
            v = np.where(x[:, 0] < -4.0, np.inf, v)
        return v

    for box in (3.0, 8.0):
        for mode in ("finite", "nan", "posinf"):
            for prec in ("identity", "logit", "affine"):
                flow = BoxFlow(2)
                lp = lambda s, _b=box: pi(np.asarray(s.x), _b)  # noqa: E731
                ll = lambda s, _m=mode: L(np.asarray(s.x), _m)  # noqa: E731
                tr = None
                if prec == "logit":
                    tr = CompositeTransform(parameters=["a", "b"], prior_bounds={"a": [-9, 9], "b": [-9, 9]}, bounded_to_unbounded=True, bounded_transform="logit",
                                            affine_transform=False, xp=xnp)
                elif prec == "affine":
                    tr = CompositeTransform(parameters=["a", "b"], prior_bounds=None, bounded_to_unbounded=False, affine_transform=True, xp=xnp)
                for cls, betas in ((MiniPCNSMC, (0.05, 0.5, 1.0)), (MCMCSampler, (None,))):
                    kw = dict(rng=np.random.default_rng(1)) if cls is MiniPCNSMC else {}
                    s = cls(ll, lp, 2, flow, xnp, parameters=["a", "b"], preconditioning_transform=tr, **kw)
                    X = rng.uniform(-8.5, 8.5, size=(60, 2))
                    z = np.asarray(s.preconditioning_transform.fit(X.copy()))
                    for beta in betas:
                        cases += 1
                        inp = {"class": cls.__name__, "box": box, "likelihood": mode, "preconditioning": prec, "beta": beta, "seed": seed}
                        try:
                            got = np.asarray(s.log_prob(z.copy(), beta) if beta is not None else s.log_prob(z.copy()), dtype=float)
                        except Exception as e:  # noqa: BLE001
                            fails.append({"id": f"C05-raise-{cls.__name__}-{box}-{mode}-{prec}-{beta}", "obligation": "C05", "what": f"{type(e).__name__}: {e}", "input": inp})
                            continue
                        x, J = s.preconditioning_transform.inverse(z.copy())
                        x, J = np.asarray(x, dtype=float), np.asarray(J, dtype=float)
                        with np.errstate(all="ignore"):
                            if beta is None:
                                want = L(x, mode) + pi(x, box) + J
                            else:
                                want = (1 - beta) * flow.log_prob(x) + beta * (L(x, mode) + pi(x, box)) + J
                                want = np.where(np.isnan(want), -np.inf, want)
                        same = np.isclose(got, want, rtol=1e-12, atol=1e-12, equal_nan=True) | ((got == want))
                        if not same.all():
                            k = int(np.argmin(same))
                            fails.append({"id": f"C05-target-{cls.__name__}-{box}-{mode}-{prec}-{beta}", "obligation": "C05:result[i] ==", "what": f"log-density {got[k]} but the tempered target is {want[k]} at x={x[k].tolist()}", "input": inp})
                        zero_prior = ~np.isfinite(pi(x, box))
                        if beta is not None and (np.isfinite(got[zero_prior]).any() or np.isnan(got).any()):
                            fails.append({"id": f"C05-zero-prior-{cls.__name__}-{box}-{mode}-{prec}-{beta}", "obligation": "C05:zero prior", "what": "finite or NaN log-density at a zero-prior point", "input": inp})
    # ---- periodic preconditioning: the kernel may propose beyond either edge of a periodic range; the target it is handed must be the target at the
    # wrapped point (independent oracle: floor-mod wrap computed here), through the lower edge as well as through the upper one
    for cls, betas in ((MiniPCNSMC, (0.3, 1.0)), (MCMCSampler, (None,))):
        flow = BoxFlow(2)
        box = 8.0
        lp = lambda s, _b=box: pi(np.asarray(s.x), _b)  # noqa: E731
        ll = lambda s: L(np.asarray(s.x), "finite")  # noqa: E731
        lo, hi = np.array([-4.0, -9.0]), np.array([4.0, 9.0])
        tr = CompositeTransform(parameters=["a", "b"], periodic_parameters=["a"], prior_bounds={"a": [lo[0], hi[0]], "b": [lo[1], hi[1]]}, bounded_to_unbounded=False,
                                affine_transform=False, xp=xnp)
        kw = dict(rng=np.random.default_rng(1)) if cls is MiniPCNSMC else {}
        s = cls(ll, lp, 2, flow, xnp, parameters=["a", "b"], preconditioning_transform=tr, **kw)
        s.preconditioning_transform.fit(rng.uniform(-3.9, 3.9, size=(20, 2)))
        inside = rng.uniform(-3.9, 3.9, size=(30, 2))
        for shift, where in ((-8.0, "below the lower edge"), (8.0, "above the upper edge"), (-16.0, "two periods below"), (0.0, "inside the range")):
            z = inside.copy()
            z[:, 0] += shift
            for beta in betas:
                cases += 1
                got = np.asarray(s.log_prob(z.copy(), beta) if beta is not None else s.log_prob(z.copy()), dtype=float)
                xw = z.copy()
                xw[:, 0] = lo[0] + np.mod(z[:, 0] - lo[0], hi[0] - lo[0])
                with np.errstate(all="ignore"):
                    want = (L(xw, "finite") + pi(xw, box)) if beta is None else ((1 - beta) * flow.log_prob(xw) + beta * (L(xw, "finite") + pi(xw, box)))
                if not np.allclose(got, want, rtol=1e-10, atol=1e-10):
                    k = int(np.argmax(np.abs(got - want)))
                    fails.append({"id": f"C05-periodic-{cls.__name__}-{shift}-{beta}", "obligation": "C05:result[i] ==",
                                  "what": f"periodic preconditioning, z {where}: log-density {got[k]} but the target at the wrapped point {xw[k].tolist()} is {want[k]}",
                                  "input": {"class": cls.__name__, "beta": beta, "z": z[k].tolist(), "periodic_range": [float(lo[0]), float(hi[0])]}})
    return {"what": "real MiniPCNSMC.log_prob / MCMCSampler.log_prob against an independent IEEE recomputation: periodic preconditioning with proposals beyond either edge of the range; compact-support proposal (log q = -inf), narrow and wide box priors, likelihoods returning NaN / +inf, identity / logit / affine preconditioning, beta in {0.05, 0.5, 1}",
            "bound": f"{cases} configurations x 60 points", "cases": cases, "failures": fails}
