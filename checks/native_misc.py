"""Bounded native stand-ins for the non-SMC properties (C02, C04, C09, C15, C16, C19 ...).
The same contract clauses as in the deductive part, evaluated on the real functions over generated inputs
in three array namespaces and two float widths.  Labelled `bounded`; never counted as discharged."""
from __future__ import annotations

import logging
import math
import os
import sys
import warnings

ROOT = os.path.dirname(os.path.dirname(os.path.abspath(__file__)))
REPO = os.environ.get("ASPIRE_REPO", "/repo")
for p in (os.path.join(ROOT, "stubs"), os.path.join(REPO, "src")):
    if p not in sys.path:
        sys.path.insert(0, p)
warnings.filterwarnings("ignore")
logging.disable(logging.CRITICAL)

import numpy as np  # noqa: E402


def namespaces():
    import array_api_compat.numpy as xnp
    import array_api_compat.torch as xt
    import jax.numpy as jnp
    import torch
    return [("numpy", xnp, {"float32": "float32", "float64": "float64"}),
            ("torch", xt, {"float32": torch.float32, "float64": torch.float64}),
            ("jax", jnp, {"float32": "float32"})]      # jax float64 needs the x64 switch: library configuration, not aspire


def mp_stats(lw):
    import mpmath
    mpmath.mp.dps = 40
    a = [mpmath.mpf(float(x)) if np.isfinite(x) else (mpmath.mpf("-inf") if x < 0 else mpmath.mpf("inf")) for x in lw]
    fin = [x for x in a if x != mpmath.mpf("-inf")]
    m = max(fin)
    s1 = sum(mpmath.e ** (x - m) for x in fin)
    s2 = sum(mpmath.e ** (2 * (x - m)) for x in fin)
    n = len(a)
    logz = m + mpmath.log(s1) - mpmath.log(n)
    ess = s1 ** 2 / s2
    u = [mpmath.e ** (x - m) if x != mpmath.mpf("-inf") else mpmath.mpf(0) for x in a]
    mu = sum(u) / n
    rel = mpmath.sqrt(sum((x - mu) ** 2 for x in u) / (n * (n - 1))) / mu
    return float(logz), float(ess), float(rel)


def native_C02(tier, seed):
    from aspire.samples import Samples
    rng = np.random.default_rng(seed)
    fails, cases = [], 0
    reps = 25 if tier == "quick" else 250
    for nsname, xp, dts in namespaces():
        for dtn, dt in dts.items():
            eps = 2e-5 if dtn == "float32" else 1e-11
            for r in range(reps):
                n = int(rng.choice([2, 3, 5, 17, 100, 1000 if tier == "thorough" else 60]))
                mag = float(10 ** rng.uniform(-1, 5))
                if dtn == "float32":
                    mag = min(mag, 1e4)
                ll = rng.normal(size=n) * mag + float(rng.choice([0.0, 800.0, -800.0, 1e5 if dtn == "float64" else 0.0]))
                lp = rng.normal(size=n)
                lq = rng.normal(size=n)
                kind = r % 4
                if kind == 1:       # ties
                    ll[:] = ll[0]
                    lp[:] = lp[0]
                    lq[:] = lq[0]
                if kind == 2 and n > 2:   # a subset with zero weight
                    k = int(rng.integers(1, n - 1))
                    ll[rng.choice(n, size=k, replace=False)] = -np.inf
                ll = ll.astype(dtn)
                lp = lp.astype(dtn)
                lq = lq.astype(dtn)
                lw = ll.astype(np.float64) + lp.astype(np.float64) - lq.astype(np.float64)
                cases += 1
                inp = {"namespace": nsname, "dtype": dtn, "n": n, "kind": kind, "seed": seed, "rep": r, "log_w_head": lw[:4].tolist()}
                try:
                    s = Samples(rng.normal(size=(n, 2)), log_likelihood=ll, log_prior=lp, log_q=lq, xp=xp, dtype=dt)
                    got_lw = np.asarray(s.log_w, dtype=np.float64)
                    logz, ess, rel = float(s.log_evidence), float(s.effective_sample_size), float(s.log_evidence_error)
                except Exception as e:  # noqa: BLE001
                    fails.append({"id": f"C02-raise-{nsname}-{dtn}-{r}", "obligation": "C02", "what": f"{type(e).__name__}: {e}", "input": inp})
                    continue
                ref_logz, ref_ess, ref_rel = mp_stats(lw)
                scale = max(1.0, float(np.max(np.abs(lw[np.isfinite(lw)]))))
                tol_lw = eps * scale * 4
                fin = np.isfinite(lw)
                if not np.allclose(got_lw[fin], lw[fin], rtol=0, atol=tol_lw) or not np.array_equal(np.isfinite(got_lw), fin):
                    fails.append({"id": f"C02-logw-{nsname}-{dtn}-{r}", "obligation": "cw_log_w_spec", "what": "log_w != ll + lp - lq", "input": inp})
                if not (math.isfinite(logz) and abs(logz - ref_logz) <= tol_lw + eps * 10):
                    fails.append({"id": f"C02-logz-{nsname}-{dtn}-{r}", "obligation": "cw_log_evidence_spec", "what": f"log_evidence {logz} vs {ref_logz}", "input": inp})
                # ESS and the relative error are exponentially sensitive to rounding of log_w: compare with the value recomputed from the stored log_w
                ref2 = mp_stats(got_lw)
                if not (math.isfinite(ess) and 1 - 1e-3 <= ess <= n * (1 + 1e-3) and abs(ess - ref2[1]) <= max(1e-3 if dtn == "float32" else 1e-8, 1e-3 * ref2[1] if dtn == "float32" else 1e-8 * ref2[1])):
                    fails.append({"id": f"C02-ess-{nsname}-{dtn}-{r}", "obligation": "cw_ess_spec", "what": f"ESS {ess} vs {ref2[1]} (n={n})", "input": inp})
                if not (math.isfinite(rel) and abs(rel - ref2[2]) <= max(1e-3 if dtn == "float32" else 1e-8, (2e-3 if dtn == "float32" else 1e-7) * ref2[2])):
                    fails.append({"id": f"C02-relerr-{nsname}-{dtn}-{r}", "obligation": "cw_log_evidence_error_spec", "what": f"log_evidence_error {rel} vs {ref2[2]}", "input": inp})
    # rejection sampling with a recording generator
    class U:
        def __init__(self, u):
            self.u = u

        def uniform(self, size=None):
            return self.u
    for r in range(reps):
        n = int(rng.integers(2, 50))
        ll, lp, lq = rng.normal(size=n) * 3, rng.normal(size=n), rng.normal(size=n)
        s = Samples(rng.normal(size=(n, 2)), log_likelihood=ll, log_prior=lp, log_q=lq)
        u = rng.uniform(size=n)
        out = s.rejection_sample(rng=U(u))
        w = np.exp(ll + lp - lq)
        keep = u < w / w.max()
        # ties on the boundary are measure-zero; compare away from it
        safe = np.abs(u - w / w.max()) > 1e-12
        cases += 1
        x = np.asarray(s.x)
        if len(out.x) != int(keep.sum()) and safe.all():
            fails.append({"id": f"C02-reject-{r}", "obligation": "rejection_accept_iff", "what": f"kept {len(out.x)} expected {int(keep.sum())}", "input": {"seed": seed, "rep": r}})
        elif safe.all() and not (np.array_equal(np.asarray(out.x), x[keep]) and np.array_equal(np.asarray(out.log_likelihood), ll[keep]) and np.array_equal(np.asarray(out.log_prior), lp[keep])):
            fails.append({"id": f"C02-reject-rows-{r}", "obligation": "rejection:same-mask", "what": "kept rows are not the accepted rows", "input": {"seed": seed, "rep": r}})
    return {"what": "real Samples.compute_weights / rejection_sample against mpmath on generated log-density vectors: magnitudes to 1e5, offsets +-800/1e5, ties, -inf subsets, numpy/torch/jax x float32/float64",
            "bound": f"{cases} cases", "cases": cases, "failures": fails}
