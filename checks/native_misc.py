"""Bounded native stand-ins for the non-SMC properties (C02, C04, C09, C15, C16, C19 ...).
The same contract clauses as in the deductive part, evaluated on the real functions over generated inputs
in three array namespaces and two float widths.  Labelled `bounded`; never counted as discharged."""
from __future__ import annotations

import logging
import math
import os
import sys
import warnings

ROOT = os.path.dirname(os.path.dirname(os.path.abspath(__file__)))
REPO = os.environ.get("ASPIRE_REPO", "/repo")
for p in (os.path.join(ROOT, "stubs"), os.path.join(REPO, "src")):
    if p not in sys.path:
        sys.path.insert(0, p)
warnings.filterwarnings("ignore")
logging.disable(logging.CRITICAL)

import numpy as np  # noqa: E402


def namespaces():
    import array_api_compat.numpy as xnp
    import array_api_compat.torch as xt
    import jax.numpy as jnp
    import torch
    return [("numpy", xnp, {"float32": "float32", "float64": "float64"}),
            ("torch", xt, {"float32": torch.float32, "float64": torch.float64}),
            ("jax", jnp, {"float32": "float32"})]      # jax float64 needs the x64 switch: library configuration, not aspire


def mp_stats(lw):
    import mpmath
    mpmath.mp.dps = 40
    a = [mpmath.mpf(float(x)) if np.isfinite(x) else (mpmath.mpf("-inf") if x < 0 else mpmath.mpf("inf")) for x in lw]
    fin = [x for x in a if x != mpmath.mpf("-inf")]
    m = max(fin)
    s1 = sum(mpmath.e ** (x - m) for x in fin)
    s2 = sum(mpmath.e ** (2 * (x - m)) for x in fin)
    n = len(a)
    logz = m + mpmath.log(s1) - mpmath.log(n)
    ess = s1 ** 2 / s2
    u = [mpmath.e ** (x - m) if x != mpmath.mpf("-inf") else mpmath.mpf(0) for x in a]
    mu = sum(u) / n
    rel = mpmath.sqrt(sum((x - mu) ** 2 for x in u) / (n * (n - 1))) / mu
    return float(logz), float(ess), float(rel)


def native_C02(tier, seed):
    from aspire.samples import Samples
    rng = np.random.default_rng(seed)
    fails, cases = [], 0
    reps = 25 if tier == "quick" else 250
    for nsname, xp, dts in namespaces():
        for dtn, dt in dts.items():
            eps = 2e-5 if dtn == "float32" else 1e-11
            for r in range(reps):
                n = int(rng.choice([2, 3, 5, 17, 100, 1000 if tier == "thorough" else 60]))
                mag = float(10 ** rng.uniform(-1, 5))
                off = float(rng.choice([0.0, 800.0, -800.0, 1e5, -1e5, 1e4]))
                if dtn == "float32":
                    mag = min(mag, 30.0) if abs(off) >= 1e4 else min(mag, 1e4)
                ll = rng.normal(size=n) * mag + off
                lp = rng.normal(size=n)
                lq = rng.normal(size=n)
                kind = r % 5
                if kind == 4:       # nearly uniform weights: the spread of the weights is tiny compared with their size (cancellation-prone)
                    sp = 3e-4 if dtn == "float32" else 1e-8
                    ll = off + sp * rng.normal(size=n)
                    lp[:] = 0.0
                    lq[:] = 0.0
                if kind == 1:       # ties
                    ll[:] = ll[0]
                    lp[:] = lp[0]
                    lq[:] = lq[0]
                if kind == 2 and n > 2:   # a subset with zero weight
                    k = int(rng.integers(1, n - 1))
                    ll[rng.choice(n, size=k, replace=False)] = -np.inf
                ll = ll.astype(dtn)
                lp = lp.astype(dtn)
                lq = lq.astype(dtn)
                lw = ll.astype(np.float64) + lp.astype(np.float64) - lq.astype(np.float64)
                cases += 1
                inp = {"namespace": nsname, "dtype": dtn, "n": n, "kind": kind, "seed": seed, "rep": r, "log_w_head": lw[:4].tolist()}
                try:
                    s = Samples(rng.normal(size=(n, 2)), log_likelihood=ll, log_prior=lp, log_q=lq, xp=xp, dtype=dt)
                    got_lw = np.asarray(s.log_w, dtype=np.float64)
                    logz, ess, rel = float(s.log_evidence), float(s.effective_sample_size), float(s.log_evidence_error)
                except Exception as e:  # noqa: BLE001
                    fails.append({"id": f"C02-raise-{nsname}-{dtn}-{r}", "obligation": "C02", "what": f"{type(e).__name__}: {e}", "input": inp})
                    continue
                ref_logz, ref_ess, ref_rel = mp_stats(lw)
                scale = max(1.0, float(np.max(np.abs(lw[np.isfinite(lw)]))))
                tol_lw = eps * scale * 4
                fin = np.isfinite(lw)
                if not np.allclose(got_lw[fin], lw[fin], rtol=0, atol=tol_lw) or not np.array_equal(np.isfinite(got_lw), fin):
                    fails.append({"id": f"C02-logw-{nsname}-{dtn}-{r}", "obligation": "cw_log_w_spec", "what": "log_w != ll + lp - lq", "input": inp})
                if not (math.isfinite(logz) and abs(logz - ref_logz) <= tol_lw + eps * 10):
                    fails.append({"id": f"C02-logz-{nsname}-{dtn}-{r}", "obligation": "cw_log_evidence_spec", "what": f"log_evidence {logz} vs {ref_logz}", "input": inp})
                # ESS and the relative error are exponentially sensitive to rounding of log_w: compare with the value recomputed from the stored log_w
                ref2 = mp_stats(got_lw)
                if not (math.isfinite(ess) and 1 - 1e-3 <= ess <= n * (1 + 1e-3) and abs(ess - ref2[1]) <= max(1e-3 if dtn == "float32" else 1e-8, 1e-3 * ref2[1] if dtn == "float32" else 1e-8 * ref2[1])):
                    fails.append({"id": f"C02-ess-{nsname}-{dtn}-{r}", "obligation": "cw_ess_spec", "what": f"ESS {ess} vs {ref2[1]} (n={n})", "input": inp})
                if not (math.isfinite(rel) and abs(rel - ref2[2]) <= max(1e-3 if dtn == "float32" else 1e-8, (2e-3 if dtn == "float32" else 1e-7) * ref2[2])):
                    fails.append({"id": f"C02-relerr-{nsname}-{dtn}-{r}", "obligation": "cw_log_evidence_error_spec", "what": f"log_evidence_error {rel} vs {ref2[2]}", "input": inp})
                elif kind == 4 and ref2[2] > 0 and not (abs(rel - ref2[2]) <= 0.05 * ref2[2]):
                    fails.append({"id": f"C02-relerr-nearuniform-{nsname}-{dtn}-{r}", "obligation": "cw_log_evidence_error_spec",
                                  "what": f"nearly uniform weights: log_evidence_error {rel} vs {ref2[2]} (relative accuracy lost)", "input": inp})
    # rejection sampling with a recording generator
    class U:
        def __init__(self, u):
            self.u = u

        def uniform(self, size=None):
            return self.u
    for r in range(reps):
        n = int(rng.integers(2, 50))
        ll, lp, lq = rng.normal(size=n) * 3, rng.normal(size=n), rng.normal(size=n)
        s = Samples(rng.normal(size=(n, 2)), log_likelihood=ll, log_prior=lp, log_q=lq)
        u = rng.uniform(size=n)
        before = {k: np.array(np.asarray(getattr(s, k)), copy=True) for k in ("x", "log_likelihood", "log_prior", "log_q", "log_w", "weights")}
        out = s.rejection_sample(rng=U(u))
        for k, v in before.items():
            if not np.array_equal(np.asarray(getattr(s, k)), v):
                fails.append({"id": f"C02-reject-frame-{k}-{r}", "obligation": f"frame: source field {k} unchanged", "what": f"rejection_sample modified the source's {k}", "input": {"seed": seed, "rep": r}})
        w = np.exp(ll + lp - lq)
        keep = u < w / w.max()
        # ties on the boundary are measure-zero; compare away from it
        safe = np.abs(u - w / w.max()) > 1e-12
        cases += 1
        x = np.asarray(s.x)
        if len(out.x) != int(keep.sum()) and safe.all():
            fails.append({"id": f"C02-reject-{r}", "obligation": "rejection_accept_iff", "what": f"kept {len(out.x)} expected {int(keep.sum())}", "input": {"seed": seed, "rep": r}})
        elif safe.all() and not (np.array_equal(np.asarray(out.x), x[keep]) and np.array_equal(np.asarray(out.log_likelihood), ll[keep]) and np.array_equal(np.asarray(out.log_prior), lp[keep])):
            fails.append({"id": f"C02-reject-rows-{r}", "obligation": "rejection:same-mask", "what": "kept rows are not the accepted rows", "input": {"seed": seed, "rep": r}})
    return {"what": "real Samples.compute_weights / rejection_sample against mpmath on generated log-density vectors: magnitudes to 1e5, offsets +-800/1e5, ties, -inf subsets, numpy/torch/jax x float32/float64",
            "bound": f"{cases} cases", "cases": cases, "failures": fails}


# ------------------------------------------------------------------------------------------ C04
def _num_logdet(f, x, h=1e-6):
    d = len(x)
    J = np.zeros((d, d))
    for k in range(d):
        e = np.zeros(d)
        e[k] = h
        J[:, k] = (np.asarray(f(x + e), dtype=float) - np.asarray(f(x - e), dtype=float)) / (2 * h)
    return math.log(abs(np.linalg.det(J)))


def native_C04(tier, seed):
    from aspire.transforms import (AffineTransform, CompositeTransform, IdentityTransform, LogitTransform, PeriodicTransform, ProbitTransform)
    rng = np.random.default_rng(seed)
    fails, cases = [], 0

    def bad(idn, obl, what, inp):
        fails.append({"id": idn, "obligation": obl, "what": what, "input": inp})

    for nsname, xp, dts in namespaces():
        for dtn, dt in dts.items():
            tol = 2e-3 if dtn == "float32" else 1e-8
            A = lambda v: xp.asarray(np.asarray(v), dtype=dt)  # noqa: E731
            N = lambda v: np.asarray(v, dtype=float)  # noqa: E731
            # --- bounded maps over many orders of magnitude
            for scale in ([1e-5, 1e-3, 1.0, 1e3, 1e6] if dtn == "float64" else [1e-2, 1.0, 1e2]):
                lo = np.array([-1.0, 0.0, 2.0]) * scale
                hi = lo + np.array([1.0, 3.0, 0.5]) * scale
                margin = 1e-3
                u = rng.uniform(margin, 1 - margin, size=(40, 3))
                # points close to the bounds in *relative* terms (the documented margin is eps times the width, whatever the width)
                u[:3] = np.array([[1.5e-3, 0.5, 1 - 1.5e-3], [1 - 1.5e-3, 1.5e-3, 0.5], [0.5, 1 - 1.5e-3, 1.5e-3]])
                X = lo + u * (hi - lo)
                for cls in (LogitTransform, ProbitTransform):
                    cases += 1
                    inp = {"class": cls.__name__, "namespace": nsname, "dtype": dtn, "scale": scale, "seed": seed}
                    try:
                        t = cls(lower=A(lo), upper=A(hi), xp=xp, eps=1e-6, dtype=dt)
                        y, lj = t.forward(A(X))
                        xb, ljb = t.inverse(y)
                        fit = t.fit(A(X))
                    except Exception as e:  # noqa: BLE001
                        bad(f"C04-raise-{cls.__name__}-{nsname}-{dtn}-{scale}", "C04", f"{type(e).__name__}: {e}", inp)
                        continue
                    rel = np.abs(N(xb) - X) / (hi - lo)
                    if rel.max() > (5e-3 if dtn == "float32" else 1e-7):
                        bad(f"C04-roundtrip-{cls.__name__}-{nsname}-{dtn}-{scale}", "roundtrip", f"inverse(forward(x)) != x, rel err {rel.max():.3g}", inp)
                    if np.abs(N(lj) + N(ljb)).max() > (5e-2 if dtn == "float32" else 1e-6) * max(1.0, np.abs(N(lj)).max()):
                        bad(f"C04-ljneg-{cls.__name__}-{nsname}-{dtn}-{scale}", "lj_inv_neg", f"lj_inv != -lj_fwd: {np.abs(N(lj) + N(ljb)).max():.3g}", inp)
                    if not np.array_equal(N(fit), N(y)):
                        bad(f"C04-fit-{cls.__name__}-{nsname}-{dtn}-{scale}", "fit==forward", "fit(x) != forward(x)[0]", inp)
                    if dtn == "float64" and nsname != "numpy":
                        # a float64 transform keeps float64 accuracy in every namespace: its log-Jacobian agrees with the NumPy float64 instance
                        import array_api_compat.numpy as _xpn
                        tn = cls(lower=lo, upper=hi, xp=_xpn, eps=1e-6, dtype=np.float64)
                        ljn = N(tn.forward(X)[1])
                        d = np.abs(N(lj) - ljn).max()
                        if d > 1e-11 * max(1.0, np.abs(ljn).max()):
                            bad(f"C04-lj-float64-{cls.__name__}-{nsname}-{scale}", "C04:C15:the constant log-Jacobian is broadcast over an array of the data's floating-point width",
                                f"float64 {cls.__name__} under {nsname}: log-Jacobian differs from the NumPy float64 value by {d:.3g} (float32 rounding of the constant part)", inp)
                    if dtn == "float64" and nsname == "numpy":
                        t64 = cls(lower=lo, upper=hi, xp=xp, eps=1e-12, dtype=dt)
                        for i in range(4):
                            h = 1e-6 * scale
                            nd = _num_logdet(lambda v: t64.forward(v[None, :])[0][0], X[i], h=h)
                            if abs(nd - float(N(t64.forward(X[i:i + 1])[1])[0])) > 1e-4:
                                bad(f"C04-deriv-{cls.__name__}-{scale}-{i}", "deriv", f"forward log-Jacobian {float(N(t64.forward(X[i:i+1])[1])[0])} vs numeric {nd}", inp)
            # --- periodic wrap: any real number
            lo, hi = np.array([0.0, -math.pi]), np.array([2 * math.pi, math.pi])
            t = PeriodicTransform(lower=A(lo), upper=A(hi), xp=xp, dtype=dt)
            X = rng.uniform(-50, 50, size=(200, 2))
            # exact end points and whole periods away from them (exactly representable): upper must wrap to lower, in both directions
            # (bounds and inputs exactly representable in float32, so that the comparison below is exact in every dtype)
            elo, ehi = np.array([0.0, -2.0]), np.array([8.0, 2.0])
            te = PeriodicTransform(lower=A(elo), upper=A(ehi), xp=xp, dtype=dt)
            edge = np.array([elo, ehi, ehi + (ehi - elo), elo - (ehi - elo), 0.5 * (elo + ehi), elo - 0.25 * (ehi - elo), ehi + 0.25 * (ehi - elo), elo - 2.75 * (ehi - elo)])
            for meth in ("forward", "inverse"):
                ye = N(getattr(te, meth)(A(edge))[0])
                cases += 1
                if not ((ye >= elo).all() and (ye < ehi).all()):
                    bad(f"C04-periodic-endpoint-{meth}-{nsname}-{dtn}", "periodic_mem", f"{meth}: an end point of the interval is not wrapped into [lower, upper): {ye.tolist()}",
                        {"class": "PeriodicTransform", "namespace": nsname, "dtype": dtn, "x": edge.tolist()})
            y, lj = t.forward(A(X))
            cases += 1
            yy = N(y)
            inp = {"class": "PeriodicTransform", "namespace": nsname, "dtype": dtn, "seed": seed}
            if not ((yy >= lo).all() and (yy < hi + (1e-5 if dtn == "float32" else 0)).all()):
                bad(f"C04-periodic-range-{nsname}-{dtn}", "periodic_mem", "wrapped value outside [lower, upper)", inp)
            k = (X - yy) / (hi - lo)
            if np.abs(k - np.round(k)).max() > (1e-3 if dtn == "float32" else 1e-9):
                bad(f"C04-periodic-congr-{nsname}-{dtn}", "periodic_congr", "wrapped value not congruent modulo the period", inp)
            if np.abs(N(lj)).max() != 0 or np.abs(N(t.inverse(y)[1])).max() != 0:
                bad(f"C04-periodic-lj-{nsname}-{dtn}", "periodic_lj_zero", "non-zero log-Jacobian", inp)
            Xin = lo + rng.uniform(0.001, 0.999, size=(50, 2)) * (hi - lo)
            xb = N(t.inverse(t.forward(A(Xin))[0])[0])
            if np.abs(xb - Xin).max() > (1e-4 if dtn == "float32" else 1e-12):
                bad(f"C04-periodic-roundtrip-{nsname}-{dtn}", "periodic_roundtrip", "inverse(forward(x)) != x inside the bounds", inp)
            # float edge: just below the lower bound (known finding, bounded only)
            edge = np.array([[lo[0] - 1e-20, 0.0]])
            ye = N(t.forward(A(edge))[0])
            cases += 1
            if not (ye[0, 0] < hi[0]):
                bad(f"C04-periodic-float-edge-{nsname}-{dtn}", "periodic_mem", f"periodic wrap float edge: x = lower - 1e-20 is mapped to upper ({ye[0,0]!r}) instead of [lower, upper)", inp)
            # --- composite: every on/off combination
            for per in ([], ["c"]):
                for b2u in (True, False):
                    for bt in ("logit", "probit"):
                        for aff in (True, False):
                            cases += 1
                            inp = {"class": "CompositeTransform", "periodic": per, "bounded_to_unbounded": b2u, "bounded_transform": bt, "affine": aff,
                                   "namespace": nsname, "dtype": dtn, "seed": seed}
                            try:
                                tr = CompositeTransform(parameters=["a", "b", "c"], periodic_parameters=per, prior_bounds={"a": [-2, 3], "b": [0, 1e3], "c": [-1, 1]},
                                                        bounded_to_unbounded=b2u, bounded_transform=bt, affine_transform=aff, xp=xp, dtype=dt)
                                X = np.column_stack([rng.uniform(-1.9, 2.9, 40), rng.uniform(1, 999, 40), rng.uniform(-0.99, 0.99, 40)])
                                fitv = tr.fit(A(X))
                                y, lj = tr.forward(A(X))
                                xb, ljb = tr.inverse(y)
                            except Exception as e:  # noqa: BLE001
                                bad(f"C04-composite-raise-{nsname}-{dtn}-{per}-{b2u}-{bt}-{aff}", "C04", f"{type(e).__name__}: {e}", inp)
                                continue
                            if np.abs(N(xb) - X).max() > (0.5 if dtn == "float32" else 1e-6):
                                bad(f"C04-composite-roundtrip-{nsname}-{dtn}-{per}-{b2u}-{bt}-{aff}", "composite:roundtrip", f"max err {np.abs(N(xb) - X).max():.3g}", inp)
                            if np.abs(N(lj) + N(ljb)).max() > (5e-2 if dtn == "float32" else 1e-6):
                                bad(f"C04-composite-ljneg-{nsname}-{dtn}-{per}-{b2u}-{bt}-{aff}", "composite:lj_inv_neg", f"{np.abs(N(lj) + N(ljb)).max():.3g}", inp)
                            if not np.allclose(N(fitv), N(y), rtol=0, atol=0):
                                bad(f"C04-composite-fit-{nsname}-{dtn}-{per}-{b2u}-{bt}-{aff}", "composite:fit==forward", "fit(x) != forward(x)[0]", inp)
                            if dtn == "float64" and nsname == "numpy":
                                for i in range(3):
                                    nd = _num_logdet(lambda v: tr.forward(v[None, :])[0][0], X[i])
                                    if abs(nd - float(N(lj)[i])) > 1e-4:
                                        bad(f"C04-composite-deriv-{per}-{b2u}-{bt}-{aff}-{i}", "composite:deriv", f"log-Jacobian {float(N(lj)[i])} vs numeric {nd}", inp)
    # affine re-fit (the log-Jacobian must follow the statistics of the last fit)
    import array_api_compat.numpy as xnp
    t = AffineTransform(xp=xnp)
    X1 = rng.normal(0, 1, size=(100, 2))
    X2 = rng.normal(5, 30, size=(100, 2))
    t.fit(X1)
    t.fit(X2)
    y, lj = t.forward(X2[:5])
    nd = _num_logdet(lambda v: t.forward(v[None, :])[0][0], X2[0])
    cases += 1
    if abs(nd - float(lj[0])) > 1e-6:
        bad("C04-affine-refit", "affine_deriv", f"after a second fit the log-Jacobian {float(lj[0])} is not that of the current map ({nd})", {"class": "AffineTransform", "sequence": "fit, fit"})
    # the transform works on a copy whatever array type it is handed: a NumPy input to a torch-namespace transform must come back untouched
    try:
        import torch
        import array_api_compat.torch as xtorch
        for aff in (False, True):
            cases += 1
            ct = CompositeTransform(parameters=["a", "b"], prior_bounds={"a": [0, 1], "b": [0, 1]}, xp=xtorch, dtype=torch.float64, affine_transform=aff)
            xin = rng.uniform(0.1, 0.9, size=(7, 2))
            keep = xin.copy()
            for meth in ("fit", "forward", "inverse"):
                getattr(ct, meth)(xin)
                if not np.array_equal(xin, keep):
                    bad(f"C04-input-modified-{meth}-affine{aff}", "the input array is left unchanged", f"CompositeTransform.{meth}(numpy array) with a torch namespace overwrote the caller's array (max change {np.abs(xin - keep).max():.3g})",
                        {"namespace": "torch", "input": "numpy.ndarray", "method": meth, "affine": aff})
                    xin[:] = keep
    except ImportError:
        pass
    # affine whitening of columns measured in tiny (and huge) units, in both float widths: the round trip and the log-Jacobian are relative to the scale
    for nsname, xp, dts in namespaces():
        for dtn, dt in dts.items():
            for scales in ((1e-7, 1e-6, 1e-5), (1.0, 1e3, 1e-3)):
                cases += 1
                sc = np.asarray(scales)
                Xs = rng.normal(0.0, 1.0, size=(200, 3)) * sc + 3.0 * sc
                try:
                    ta = AffineTransform(xp=xp, dtype=dt)
                    Xa = xp.asarray(Xs.astype(dtn), dtype=dt)
                    ta.fit(Xa)
                    ya, lja = ta.forward(Xa)
                    xb, ljb = ta.inverse(ya)
                except Exception as e:  # noqa: BLE001
                    bad(f"C04-affine-scale-raise-{nsname}-{dtn}-{scales[0]}", "affine_roundtrip", f"{type(e).__name__}: {e}", {"namespace": nsname, "dtype": dtn, "scales": list(scales)})
                    continue
                rel = np.abs(np.asarray(xb, dtype=float) - Xs.astype(dtn).astype(float)) / sc
                tolr = 5e-3 if dtn == "float32" else 1e-9
                inp = {"class": "AffineTransform", "namespace": nsname, "dtype": dtn, "column_scales": list(scales)}
                if rel.max() > tolr:
                    bad(f"C04-affine-scale-roundtrip-{nsname}-{dtn}-{scales[0]}", "affine_roundtrip", f"inverse(forward(x)) differs from x by {rel.max():.3g} column scales", inp)
                # the scale the transform actually divides by (numpy and torch use different estimators of the standard deviation): recovered from the map itself
                y2 = np.asarray(ta.forward(xp.asarray((Xs[:2] + sc).astype(dtn), dtype=dt))[0], dtype=float)
                used = sc / np.maximum(np.abs(y2[0] - np.asarray(ya, dtype=float)[0]), 1e-300)
                true_lj = -np.log(used).sum()
                if abs(float(np.asarray(lja, dtype=float)[0]) - true_lj) > (5e-2 if dtn == "float32" else 1e-6) or abs(float(np.asarray(lja, dtype=float)[0]) + float(np.asarray(ljb, dtype=float)[0])) > (5e-2 if dtn == "float32" else 1e-6):
                    bad(f"C04-affine-scale-lj-{nsname}-{dtn}-{scales[0]}", "affine_deriv", f"log-Jacobian {float(np.asarray(lja, dtype=float)[0])} vs -sum(log scale of the map) = {true_lj}", inp)
    return {"what": "real transform classes: round trips down to a 1e-3 margin, inverse/forward log-Jacobian negation, numeric derivative vs reported log-Jacobian, wrap range and congruence, fit == forward, all 16 composite configurations; numpy/torch/jax x float32/float64; bounds over 9 orders of magnitude",
            "bound": f"{cases} configurations", "cases": cases, "failures": fails}


# ------------------------------------------------------------------------------------------ C09 / C16
class RecRng:
    """generator wrapper recording what resample hands to choice()"""

    def __init__(self, seed):
        self.g = np.random.default_rng(seed)
        self.calls = []

    def choice(self, a, size=None, replace=True, p=None):
        idx = self.g.choice(a, size=size, replace=replace, p=p)
        self.calls.append({"a": a, "size": size, "replace": replace, "p": np.asarray(p, dtype=float), "idx": idx})
        return idx


def native_C09(tier, seed):
    import mpmath
    from aspire.samples import SMCSamples
    rng = np.random.default_rng(seed)
    fails, cases = [], 0
    reps = 12 if tier == "quick" else 120
    for nsname, xp, dts in namespaces():
        for dtn, dt in dts.items():
            for r in range(reps):
                n = int(rng.integers(2, 60))
                m = [None, int(rng.integers(1, 2 * n)), n + 7, max(1, n // 2)][r % 4]
                ll = rng.normal(size=n) * float(10 ** rng.uniform(-1, 3)) - (3e7 if (r % 5 == 0 and dtn == "float64") else 0.0)
                lp, lq = rng.normal(size=n), rng.normal(size=n)
                X = rng.normal(size=(n, 2))
                b0 = float(rng.choice([0.0, rng.uniform(0, 0.9)]))
                b1 = float(rng.uniform(b0 + 1e-3, 1.0))
                s = SMCSamples(X, log_likelihood=ll, log_prior=lp, log_q=lq, beta=b0, xp=xp, dtype=dt)
                rec = RecRng(seed + r)
                cases += 1
                inp = {"namespace": nsname, "dtype": dtn, "n": n, "n_samples": m, "beta": [b0, b1], "seed": seed, "rep": r}
                try:
                    out = s.resample(b1, n_samples=m, rng=rec)
                except Exception as e:  # noqa: BLE001
                    fails.append({"id": f"C09-raise-{nsname}-{dtn}-{r}", "obligation": "C09", "what": f"{type(e).__name__}: {e}", "input": inp})
                    continue
                if len(rec.calls) != 1:
                    fails.append({"id": f"C09-draws-{nsname}-{dtn}-{r}", "obligation": "exactly one draw", "what": f"{len(rec.calls)} calls of choice()", "input": inp})
                    continue
                c = rec.calls[0]
                src = {k: np.asarray(getattr(s, k)) for k in ("x", "log_likelihood", "log_prior", "log_q")}
                iw = (b1 - b0) * (src["log_likelihood"].astype(float) + src["log_prior"].astype(float) - src["log_q"].astype(float))
                mx = iw.max()
                w = np.array([float(mpmath.e ** mpmath.mpf(float(v - mx))) for v in iw])
                w /= w.sum()
                if not (c["replace"] is True or c["replace"] == True):  # noqa: E712
                    fails.append({"id": f"C09-replace-{nsname}-{dtn}-{r}", "obligation": "drawn with replacement", "what": f"replace={c['replace']}", "input": inp})
                if c["a"] != n or (c["size"] != (m if m is not None else n)):
                    fails.append({"id": f"C09-size-{nsname}-{dtn}-{r}", "obligation": "requested size", "what": f"a={c['a']} size={c['size']}", "input": inp})
                epsm = 1.2e-7 if dtn == "float32" else 2.3e-16
                if np.abs(c["p"] - w).max() > 64 * epsm * (10 + 4 * float(np.abs(iw).max())):
                    fails.append({"id": f"C09-p-{nsname}-{dtn}-{r}", "obligation": "selection probabilities", "what": f"max |p - SOFTMAX(IW)| = {np.abs(c['p'] - w).max():.3g}", "input": inp})
                idx = c["idx"]
                for k in src:
                    got = np.asarray(getattr(out, k))
                    if got.dtype != src[k].dtype or not np.array_equal(got, src[k][idx]):
                        fails.append({"id": f"C09-rows-{k}-{nsname}-{dtn}-{r}", "obligation": f"{k} == take(self.{k}, IDX)", "what": f"{k}: not exact copies of the drawn source rows (dtype {got.dtype} vs {src[k].dtype})", "input": inp})
                        break
                if float(out.beta) != b1 or len(out.x) != (m if m is not None else n):
                    fails.append({"id": f"C09-beta-size-{nsname}-{dtn}-{r}", "obligation": "result carries the new temperature", "what": f"beta {out.beta}, len {len(out.x)}", "input": inp})
    return {"what": "real SMCSamples.resample with a recording generator: one choice() call, with replacement, p vs mpmath SOFTMAX(IW), every field an exact copy of the drawn source rows (same dtype), new temperature and requested size; numpy/torch/jax x float32/float64, down- and up-sampling",
            "bound": f"{cases} populations", "cases": cases, "failures": fails}


def _model_of(s):
    d = {k: (None if getattr(s, k, None) is None else np.asarray(getattr(s, k))) for k in ("x", "log_likelihood", "log_prior", "log_q")}
    for k in ("log_w", "weights"):
        if hasattr(s, k):
            d[k] = None if getattr(s, k) is None else np.asarray(getattr(s, k))
    for k in ("log_evidence", "log_evidence_error", "beta"):
        if hasattr(s, k):
            v = getattr(s, k)
            d[k] = None if v is None else float(v)
    d["parameters"] = list(s.parameters)
    d["xp"] = s.xp.__name__
    d["dtype"] = str(s.dtype)
    return d


def _same(a, b, skip=()):
    for k in a:
        if k in skip:
            continue
        va, vb = a[k], b.get(k)
        if va is None or vb is None:
            if not (va is None and vb is None):
                return k
        elif isinstance(va, np.ndarray):
            if va.shape != vb.shape or not np.array_equal(va, vb, equal_nan=True):
                return k
        elif isinstance(va, float):
            if not (va == vb or (math.isnan(va) and math.isnan(vb))):
                return k
        elif va != vb:
            return k
    return None


def native_C16(tier, seed):
    import pickle
    from aspire.samples import BaseSamples, Samples, SMCSamples
    rng = np.random.default_rng(seed)
    fails, cases = [], 0
    reps = 6 if tier == "quick" else 40
    for cls in (BaseSamples, Samples, SMCSamples):
        for nsname, xp, dts in namespaces():
            for dtn, dt in dts.items():
                for present in ((), ("log_q",), ("log_likelihood", "log_prior"), ("log_likelihood", "log_prior", "log_q")):
                    for r in range(reps):
                        n = int(rng.integers(3, 30))
                        kw = {k: rng.normal(size=n) for k in present}
                        if cls is SMCSamples:
                            kw["beta"] = 0.3
                        if cls in (Samples, SMCSamples) and r % 2:
                            kw["log_evidence"] = 1.5
                            kw["log_evidence_error"] = 0.25
                        s = cls(rng.normal(size=(n, 2)), xp=xp, dtype=dt, parameters=["a", "b"], **kw)
                        ref = _model_of(s)
                        inp = {"class": cls.__name__, "namespace": nsname, "dtype": dtn, "present": present, "n": n, "seed": seed, "rep": r}
                        cases += 1
                        try:
                            # selections
                            for kind in range(6):
                                if kind == 4:
                                    # a boolean mask given as a plain Python list selects like the mask (NumPy / Torch; JAX rejects list indices)
                                    if nsname == "jax":
                                        continue
                                    npidx = rng.random(n) < 0.5
                                    npidx[0] = True
                                    idx = npidx.tolist()
                                elif kind == 5:
                                    if nsname == "jax":
                                        continue
                                    npidx = rng.integers(0, n, size=4)
                                    idx = npidx.tolist()
                                elif kind == 0:
                                    idx = slice(1, n - 1)
                                    npidx = idx
                                elif kind == 1:
                                    npidx = rng.random(n) < 0.5
                                    npidx[0] = True
                                    idx = xp.asarray(npidx)
                                elif kind == 2:
                                    npidx = rng.integers(0, n, size=5)
                                    idx = xp.asarray(npidx)
                                else:
                                    idx = npidx = slice(None, n // 2)
                                sub = s[idx]
                                got = _model_of(sub)
                                for k in ("x", "log_likelihood", "log_prior", "log_q", "log_w", "weights"):
                                    if k in ref:
                                        want = None if ref[k] is None else ref[k][npidx]
                                        g = got.get(k)
                                        if (want is None) != (g is None) or (want is not None and not np.array_equal(want, g)):
                                            fails.append({"id": f"C16-select-{cls.__name__}-{nsname}-{dtn}-{k}-{kind}-{r}", "obligation": f"{k} == take(self.{k}, idx)", "what": f"selection kind {kind}: field {k} is not the same selection", "input": inp})
                                for k in ("log_evidence", "log_evidence_error", "beta", "parameters", "xp", "dtype"):
                                    if k in ref and ref[k] != got.get(k) and not (cls is Samples and len(present) == 3 and k.startswith("log_evidence") and "log_evidence" not in kw):
                                        if cls is Samples and len(present) == 3 and k.startswith("log_evidence"):
                                            fails.append({"id": f"C16-evidence-{cls.__name__}-{nsname}-{dtn}-{kind}-{r}", "obligation": f"{k} carried", "what": f"{k} {ref[k]} -> {got.get(k)} after selection", "input": inp})
                                        elif not k.startswith("log_evidence") or ref[k] is not None:
                                            fails.append({"id": f"C16-carried-{cls.__name__}-{nsname}-{dtn}-{k}-{kind}-{r}", "obligation": f"{k} carried", "what": f"{k} {ref[k]} -> {got.get(k)} after selection", "input": inp})
                            # partition + concatenate
                            kcut = int(rng.integers(1, n - 1))
                            joined = cls.concatenate([s[:kcut], s[kcut:]])
                            bad = _same({k: ref[k] for k in ("x", "log_likelihood", "log_prior", "log_q", "parameters", "xp", "dtype")}, _model_of(joined))
                            if bad:
                                fails.append({"id": f"C16-concat-{cls.__name__}-{nsname}-{dtn}-{r}", "obligation": "concat(parts) restores the original", "what": f"field {bad} differs after concatenating a partition", "input": inp})
                            # pickle, dict
                            s2 = pickle.loads(pickle.dumps(s))
                            bad = _same(ref, _model_of(s2))
                            if bad:
                                fails.append({"id": f"C16-pickle-{cls.__name__}-{nsname}-{dtn}-{r}", "obligation": "pickle round trip", "what": f"field {bad} differs after pickling", "input": inp})
                            for flat in (True, False):
                                s3 = cls.from_dict(s.to_dict(flat=flat))
                                bad = _same(ref, _model_of(s3))
                                if bad:
                                    fails.append({"id": f"C16-dict-{cls.__name__}-{nsname}-{dtn}-{flat}-{r}", "obligation": "from_dict(to_dict(s))", "what": f"field {bad} differs after to_dict/from_dict (flat={flat})", "input": inp})
                        except Exception as e:  # noqa: BLE001
                            fails.append({"id": f"C16-raise-{cls.__name__}-{nsname}-{dtn}-{r}", "obligation": "C16", "what": f"{type(e).__name__}: {str(e)[:200]}", "input": inp})
    return {"what": "select (slice, mask, index array) / partition+concatenate / pickle / to_dict-from_dict on real sample sets of every class x namespace x dtype x optional-field subset, against a plain-array reference model",
            "bound": f"{cases} sample sets", "cases": cases, "failures": fails}


# ------------------------------------------------------------------------------------------ C19
def native_C19(tier, seed):
    import copy
    import itertools
    from aspire import Aspire
    fails, cases = [], 0

    class FakePool:
        def __init__(self):
            self.closed = False
            self.joined = False

        def map(self, f, xs):
            return list(map(f, xs))

        def imap(self, f, xs):
            return iter(self.map(f, xs))

        def imap_unordered(self, f, xs):
            return iter(reversed(self.map(f, xs)))       # completion order is arbitrary: the stand-in returns the reverse

        def starmap(self, f, xs):
            return [f(*x) for x in xs]

        def close(self):
            self.closed = True

        def join(self):
            self.joined = True

    def ll(s, map_fn=None):
        # documented recipe: per-row evaluation through the map the pool context injects
        if map_fn is None or s is None:
            return 0.0
        return list(map_fn(float, s))

    def lp(s, map_fn=None):
        return 0.0

    class Boom(Exception):
        pass

    depth = 3
    kinds = ["pool", "ckpt_a", "ckpt_b", "ckpt_a2"]
    for nest in itertools.product(kinds, repeat=depth) if tier == "thorough" else itertools.product(kinds, repeat=2):
        for exc_at in [None] + list(range(len(nest))):
            for close_pool in (True, False):
                a = Aspire(log_likelihood=ll, log_prior=lp, dims=1)
                a._checkpoint_defaults = {"path": "/tmp/a.h5", "every": 1, "save_config": False, "save_flow": False, "saved_config": False, "saved_flow": False} if "ckpt_a2" in nest[:1] else None
                if a._checkpoint_defaults is None:
                    del a._checkpoint_defaults
                entry = {"ll": a.log_likelihood, "lp": a.log_prior, "had": hasattr(a, "_checkpoint_defaults"), "obj": getattr(a, "_checkpoint_defaults", None),
                         "val": copy.deepcopy(getattr(a, "_checkpoint_defaults", None))}
                pools = []
                cases += 1

                def enter(level):
                    if level == len(nest):
                        return
                    k = nest[level]
                    snap = {"ll": a.log_likelihood, "lp": a.log_prior, "had": hasattr(a, "_checkpoint_defaults"), "obj": getattr(a, "_checkpoint_defaults", None),
                            "val": copy.deepcopy(getattr(a, "_checkpoint_defaults", None))}
                    if k == "pool":
                        pool = FakePool()
                        pools.append((pool, close_pool))
                        cm = a.enable_pool(pool, close_pool=close_pool, parallelize_prior=bool(level % 2))
                    else:
                        cm = a.auto_checkpoint("/tmp/a.h5" if k != "ckpt_b" else "/tmp/b.h5", every=2 + level, save_config=bool(level % 2), save_flow=not bool(level % 2))
                    try:
                        with cm:
                            if k == "pool":
                                rows = [3.0, 1.0, 2.0]
                                got_rows = a.log_likelihood(rows)
                                if list(got_rows) != rows:
                                    fails.append({"id": f"C19-pool-order-L{level}", "obligation": "results in the order of its inputs",
                                                  "what": f"inside the pool context the per-row likelihood values come back as {list(got_rows)} for rows {rows}",
                                                  "input": {"nesting": list(nest), "rows": rows}})
                            if k != "pool":
                                a._checkpoint_defaults["saved_config"] = True
                            if exc_at == level:
                                raise Boom()
                            enter(level + 1)
                    finally:
                        bad = []
                        if a.log_likelihood is not snap["ll"] or a.log_prior is not snap["lp"]:
                            bad.append("likelihood/prior not restored")
                        if hasattr(a, "_checkpoint_defaults") != snap["had"]:
                            bad.append("checkpoint defaults attribute presence changed")
                        elif snap["had"] and (a._checkpoint_defaults is not snap["obj"] or a._checkpoint_defaults != snap["val"]):
                            bad.append(f"checkpoint defaults not restored by value: {a._checkpoint_defaults} vs {snap['val']}")
                        for b in bad:
                            fails.append({"id": f"C19-{'-'.join(nest)}-exc{exc_at}-close{close_pool}-L{level}", "obligation": "restored", "what": f"leaving level {level} ({k}): {b}",
                                          "input": {"nesting": list(nest), "exception_at_level": exc_at, "close_pool": close_pool}})
                try:
                    enter(0)
                except Boom:
                    pass
                for pool, cp in pools:
                    entered = True
                    if pool.closed != cp or pool.joined != cp:
                        fails.append({"id": f"C19-pool-{'-'.join(nest)}-exc{exc_at}-close{close_pool}", "obligation": "pool closed", "what": f"pool.closed={pool.closed}, expected {cp}",
                                      "input": {"nesting": list(nest), "exception_at_level": exc_at, "close_pool": close_pool}})
                # pool=None is accepted
        # end for
    a = Aspire(log_likelihood=ll, log_prior=lp, dims=1)
    try:
        with a.enable_pool(None):
            pass
        cases += 1
    except Exception as e:  # noqa: BLE001
        fails.append({"id": "C19-pool-none", "obligation": "no pool", "what": f"enable_pool(None) raised {type(e).__name__}: {e}", "input": {"pool": None}})
    return {"what": "real Aspire.enable_pool / auto_checkpoint: every nesting of {pool, checkpoint file a, file b, file a over pre-existing defaults} with an exception at each level and both close_pool settings; restoration compared by identity and by value",
            "bound": f"nesting depth {depth if tier == 'thorough' else 2}", "cases": cases, "failures": fails}


# ------------------------------------------------------------------------------------------ C15
def _width(dtype):
    s = str(dtype)
    return 32 if "32" in s else 64 if "64" in s else None


def native_C15(tier, seed):
    import torch
    from aspire.samples import BaseSamples, Samples, SMCSamples
    rng = np.random.default_rng(seed)
    fails, cases = [], 0
    NS = namespaces()
    spellings = {"numpy": [None, "float32", "float64", np.dtype("float32"), np.dtype("float64")], "torch": [None, "float32", "float64", torch.float32, torch.float64],
                 "jax": [None, "float32", np.dtype("float32")]}
    default_w = {"numpy": 64, "torch": 32, "jax": 32}
    subsets = [(), ("log_q",), ("log_likelihood",), ("log_likelihood", "log_prior"), ("log_likelihood", "log_prior", "log_q")]
    for cls in (BaseSamples, Samples, SMCSamples):
        for sname, sxp, _ in NS:
            for spec in spellings[sname]:
                for present in subsets:
                    n = 5
                    kw = {k: rng.normal(size=n) for k in present}
                    if cls is SMCSamples:
                        kw.update(beta=0.4, log_evidence=1.5, log_evidence_error=0.1)
                    try:
                        s = cls(rng.normal(size=(n, 2)), xp=sxp, dtype=spec, parameters=["a", "b"], **kw)
                    except Exception as e:  # noqa: BLE001
                        fails.append({"id": f"C15-build-{cls.__name__}-{sname}-{spec}", "obligation": "C15", "what": f"{type(e).__name__}: {e}", "input": {"class": cls.__name__, "ns": sname, "dtype": str(spec)}})
                        continue
                    w = _width(spec) if spec is not None else default_w[sname]
                    if _width(s.x.dtype) != w:
                        fails.append({"id": f"C15-requested-{cls.__name__}-{sname}-{spec}", "obligation": "keeps the requested width", "what": f"requested {spec}, got {s.x.dtype}", "input": {"class": cls.__name__, "ns": sname, "dtype": str(spec)}})
                    ref = {k: np.asarray(getattr(s, k), dtype=np.float64) if getattr(s, k) is not None else None for k in ("x", "log_likelihood", "log_prior", "log_q")}
                    for tname, txp, _ in NS:
                        if tname == "jax" and w == 64:
                            continue        # needs the jax x64 switch: library configuration
                        for how in ("to_namespace", "to_numpy", "from_samples"):
                            if how == "to_numpy" and tname != "numpy":
                                continue
                            cases += 1
                            inp = {"class": cls.__name__, "source": sname, "target": tname, "dtype": str(spec), "present": list(present), "via": how}
                            try:
                                if how == "to_namespace":
                                    t = s.to_namespace(txp)
                                elif how == "to_numpy":
                                    t = s.to_numpy()
                                else:
                                    t = cls.from_samples(s, xp=txp, **({"beta": 0.4} if cls is SMCSamples else {}))
                            except Exception as e:  # noqa: BLE001
                                fails.append({"id": f"C15-{how}-raise-{cls.__name__}-{sname}-{tname}-{spec}-{len(present)}", "obligation": "conversion succeeds", "what": f"{how}: {type(e).__name__}: {str(e)[:150]}", "input": inp})
                                continue
                            for k, v in ref.items():
                                g = getattr(t, k)
                                if (v is None) != (g is None):
                                    fails.append({"id": f"C15-{how}-field-{cls.__name__}-{sname}-{tname}-{spec}-{k}", "obligation": f"absent field {k}", "what": f"{how}: optional field {k} {'appeared' if v is None else 'was dropped'}", "input": inp})
                                elif v is not None:
                                    ga = np.asarray(g.detach() if hasattr(g, "detach") else g, dtype=np.float64)
                                    if not np.array_equal(ga, v):
                                        fails.append({"id": f"C15-{how}-values-{cls.__name__}-{sname}-{tname}-{spec}-{k}", "obligation": f"values of {k} preserved", "what": f"{how}: values of {k} changed", "input": inp})
                                    if _width(g.dtype) != w:
                                        fails.append({"id": f"C15-{how}-width-{cls.__name__}-{sname}-{tname}-{spec}-{k}", "obligation": f"{k} keeps the floating-point width", "what": f"{how}: {k} has dtype {g.dtype}, source width {w}", "input": inp})
                            want_ns = "array_api_compat." + tname if tname != "jax" else "jax.numpy"
                            if t.xp.__name__ != want_ns:
                                fails.append({"id": f"C15-{how}-ns-{cls.__name__}-{sname}-{tname}-{spec}", "obligation": "target namespace", "what": f"{how}: namespace {t.xp.__name__}", "input": inp})
                            if cls is SMCSamples and how != "from_samples" and (t.beta != 0.4 or t.log_evidence is None or float(t.log_evidence) != 1.5):
                                fails.append({"id": f"C15-{how}-smcfields-{sname}-{tname}-{spec}", "obligation": "beta carried", "what": f"{how}: beta={t.beta} log_evidence={t.log_evidence}", "input": inp})
    # merging keeps the precision of the parts
    for cls in (BaseSamples, Samples):
        for sname, sxp, dts in NS:
            for dtn, d in dts.items():
                cases += 1
                parts = [cls(rng.normal(size=(3, 2)), log_q=rng.normal(size=3), xp=sxp, dtype=d, parameters=["a", "b"]) for _ in range(3)]
                try:
                    j = cls.concatenate(parts)
                    if _width(j.x.dtype) != _width(dtn) or _width(j.dtype) != _width(dtn):
                        fails.append({"id": f"C15-concat-width-{cls.__name__}-{sname}-{dtn}", "obligation": "merged set is built with the dtype of the parts", "what": f"concatenate: parts {dtn}, merged x {j.x.dtype}, dtype {j.dtype}", "input": {"class": cls.__name__, "ns": sname, "dtype": dtn}})
                    j2 = cls.concatenate([j, parts[0]])
                except Exception as e:  # noqa: BLE001
                    fails.append({"id": f"C15-concat-raise-{cls.__name__}-{sname}-{dtn}", "obligation": "merged set is built with the dtype of the parts", "what": f"concatenate of {dtn} parts: {type(e).__name__}: {e}", "input": {"class": cls.__name__, "ns": sname, "dtype": dtn}})
    # proposal outputs consumed in any sample namespace
    from aspire.flows.torch.flows import ZukoFlow
    zf = ZukoFlow(dims=2, hidden_features=[8], transforms=1)
    x, lq = zf.sample_and_log_prob(6)
    lp2 = zf.log_prob(x)
    for tname, txp, _ in NS:
        cases += 1
        try:
            smp = Samples(x, log_q=lp2, xp=txp)
            if not np.allclose(np.asarray(smp.log_q.detach() if hasattr(smp.log_q, "detach") else smp.log_q, dtype=float), np.asarray(lp2.detach(), dtype=float)):
                fails.append({"id": f"C15-proposal-values-{tname}", "obligation": "C15", "what": "proposal log-density changed when consumed", "input": {"target": tname}})
        except Exception as e:  # noqa: BLE001
            fails.append({"id": f"C15-proposal-{tname}", "obligation": "proposal outputs", "what": f"zuko log_prob output cannot be consumed in {tname} samples: {type(e).__name__}: {str(e)[:120]}", "input": {"target": tname}})
    return {"what": "exhaustive grid: sample class x source namespace x target namespace x dtype spelling (default, strings, native objects) x optional-field subset through to_namespace / to_numpy / from_samples; zuko proposal outputs consumed in each namespace",
            "bound": f"{cases} conversions (complete grid; jax float64 excluded: needs the x64 switch)", "cases": cases, "failures": fails, "exhaustive": True}


# ------------------------------------------------------------------------------------------ C13
def native_C13(tier, seed):
    import io
    import h5py
    import torch
    from aspire.samples import BaseSamples, Samples, SMCSamples
    from aspire.history import SMCHistory, FlowHistory
    from aspire.transforms import (AffineTransform, BaseTransform, CompositeTransform, FlowTransform, IdentityTransform, LogitTransform, PeriodicTransform, ProbitTransform)
    from aspire.utils import load_from_h5_file, recursively_save_to_h5_file
    rng = np.random.default_rng(seed)
    fails, cases = [], 0
    NS = namespaces()

    def mem():
        return h5py.File(io.BytesIO(), "w")

    # ---- sample sets: class x namespace x dtype x optional-field subset x layout x parameter names (not alphabetical!)
    names_sets = [["a", "b"], ["mass", "distance", "chi"], [f"x_{i}" for i in range(11)]]
    subsets = [(), ("log_q",), ("log_likelihood", "log_prior"), ("log_likelihood", "log_prior", "log_q")]
    for cls in (BaseSamples, Samples, SMCSamples):
        for sname, sxp, dts in NS:
            for dtn, d in dts.items():
                for present in subsets:
                    for flat in (True, False):
                        for names in (names_sets if (tier == "thorough" or (sname == "numpy" and dtn == "float64")) else names_sets[:2]):
                            n = 4
                            kw = {k: rng.normal(size=n) for k in present}
                            if cls is SMCSamples:
                                kw.update(beta=0.25, log_evidence=-3.5, log_evidence_error=0.125)
                            s = cls(rng.normal(size=(n, len(names))), xp=sxp, dtype=d, parameters=list(names), **kw)
                            cases += 1
                            inp = {"class": cls.__name__, "ns": sname, "dtype": dtn, "present": list(present), "flat": flat, "parameters": names}
                            try:
                                with mem() as f:
                                    s.save(f, "s", flat=flat)
                                    t = cls.load(f, "s")
                            except Exception as e:  # noqa: BLE001
                                fails.append({"id": f"C13-samples-raise-{cls.__name__}-{sname}-{dtn}-{len(present)}-{flat}-{len(names)}", "obligation": "samples save/load", "what": f"{type(e).__name__}: {str(e)[:150]}", "input": inp})
                                continue
                            bad = []
                            if list(t.parameters) != list(names):
                                bad.append(f"parameters {t.parameters}")
                            if t.xp.__name__ != s.xp.__name__:
                                bad.append(f"namespace {t.xp.__name__}")
                            if str(t.dtype) != str(s.dtype):
                                bad.append(f"dtype {t.dtype} vs {s.dtype}")
                            for k in ("x", "log_likelihood", "log_prior", "log_q"):
                                a, b = getattr(s, k), getattr(t, k)
                                if (a is None) != (b is None) or (a is not None and not np.array_equal(np.asarray(a), np.asarray(b))):
                                    bad.append(f"field {k}")
                            if cls is SMCSamples and (t.beta != s.beta or float(t.log_evidence) != float(s.log_evidence)):
                                bad.append("beta/log_evidence")
                            if bad:
                                fails.append({"id": f"C13-samples-{cls.__name__}-{sname}-{dtn}-{len(present)}-{flat}-{len(names)}", "obligation": "samples save/load", "what": "reloaded sample set differs: " + ", ".join(bad), "input": inp})
    # ---- generic dictionaries through the flattening codec
    dicts = [{"a": None, "b": {}, "c": {"d": 1, "e": {"f": 2.5, "g": None}}, "names": ["u", "v"], "s": "text", "n": np.int64(3), "arr": np.arange(4.0), "t": True},
             {"empty_list_of_str": [], "nested": {"deep": {"deeper": {"x": "y"}}}, "flt": np.float32(0.5)},
             {"only_none": None}, {"bounds": {"p": np.array([0.0, 1.0]), "q": np.array([-np.inf, np.inf])}}]

    def same(a, b):
        if isinstance(a, dict):
            return isinstance(b, dict) and set(a) == set(b) and all(same(a[k], b[k]) for k in a)
        if isinstance(a, np.ndarray):
            return isinstance(b, np.ndarray) and a.shape == b.shape and np.array_equal(a, b)
        if isinstance(a, (list, tuple)):
            return list(a) == list(b) if not isinstance(b, np.ndarray) else list(a) == b.tolist()
        if a is None or isinstance(a, (str, bool)):
            return a == b and (a is None) == (b is None)
        return a == b
    for j, d in enumerate(dicts):
        cases += 1
        with mem() as f:
            recursively_save_to_h5_file(f, "cfg", d)
            back = load_from_h5_file(f, "cfg")
        exp = {k: v for k, v in d.items()}
        if not same(exp, back):
            fails.append({"id": f"C13-codec-{j}", "obligation": "decode(encode(v))", "what": f"dictionary {j} reloads as {str(back)[:200]}", "input": {"dict": str(d)[:200]}})
    # ---- transforms: every class, fitted and not
    import array_api_compat.numpy as xnp
    X = rng.uniform(0.1, 0.9, size=(30, 2))
    for sname, sxp, dts in NS:
        for dtn, d in dts.items():
            A = lambda v: sxp.asarray(np.asarray(v), dtype=d)  # noqa: E731
            trs = {
                "Identity": lambda: IdentityTransform(xp=sxp, dtype=d), "Periodic": lambda: PeriodicTransform(lower=A([0.0, 0.0]), upper=A([1.0, 2.0]), xp=sxp, dtype=d),
                "Logit": lambda: LogitTransform(lower=A([0.0, 0.0]), upper=A([1.0, 2.0]), xp=sxp, dtype=d), "Probit": lambda: ProbitTransform(lower=A([0.0, 0.0]), upper=A([1.0, 2.0]), xp=sxp, dtype=d),
                "Affine": lambda: AffineTransform(xp=sxp, dtype=d),
                "Composite": lambda: CompositeTransform(parameters=["mass", "chi"], periodic_parameters=["chi"], prior_bounds={"mass": [0.0, 1.0], "chi": [0.0, 2.0]}, xp=sxp, dtype=d),
                "FlowTransform": lambda: FlowTransform(parameters=["mass", "chi"], prior_bounds={"mass": [0.0, 1.0], "chi": [0.0, 2.0]}, xp=sxp, dtype=d),
            }
            for nm, mk in trs.items():
                cases += 1
                try:
                    t = mk()
                    t.fit(A(X))
                    with mem() as f:
                        t.save(f, "t")
                        u = BaseTransform.load(f, "t")
                    y1, l1 = t.forward(A(X))
                    y2, l2 = u.forward(A(X))
                    if type(u) is not type(t) or not np.array_equal(np.asarray(y1), np.asarray(y2)) or not np.array_equal(np.asarray(l1), np.asarray(l2)):
                        fails.append({"id": f"C13-transform-{nm}-{sname}-{dtn}", "obligation": "transform save/load", "what": f"reloaded {nm} does not reproduce the same map", "input": {"class": nm, "ns": sname, "dtype": dtn}})
                except Exception as e:  # noqa: BLE001
                    fails.append({"id": f"C13-transform-raise-{nm}-{sname}-{dtn}", "obligation": "transform save/load", "what": f"{nm}: {type(e).__name__}: {str(e)[:150]}", "input": {"class": nm, "ns": sname, "dtype": dtn}})
    # ---- flows (both back ends) incl. non-default options, and history
    from aspire.flows.torch.flows import ZukoFlow
    xs = torch.tensor(X, dtype=torch.float32)
    for kw in (dict(), dict(hidden_features=[8, 8], transforms=2), dict(flow_class="NSF", hidden_features=(8,))):
        cases += 1
        try:
            fl = ZukoFlow(dims=2, **kw)
            with mem() as f:
                fl.save(f, "flow")
                g = ZukoFlow.load(f, "flow")
            if not torch.allclose(fl.log_prob(xs), g.log_prob(xs)):
                fails.append({"id": f"C13-zuko-{len(kw)}", "obligation": "flow save/load", "what": "reloaded zuko flow has a different density", "input": {"kwargs": str(kw)}})
        except Exception as e:  # noqa: BLE001
            fails.append({"id": f"C13-zuko-raise-{len(kw)}", "obligation": "flow save/load", "what": f"zuko {kw}: {type(e).__name__}: {str(e)[:150]}", "input": {"kwargs": str(kw)}})
    # the same flow object saved more than once (second snapshot / overwrite / another file): every copy reloads to the same density
    cases += 1
    try:
        tr = CompositeTransform(parameters=["mass", "chi"], prior_bounds={"mass": [0.0, 1.0], "chi": [0.0, 2.0]}, xp=torch, dtype=torch.float32)
        fl = ZukoFlow(dims=2, data_transform=tr, hidden_features=[8])
        fl.fit(xs, n_epochs=1) if hasattr(fl, "fit") else None
        ref = fl.log_prob(xs)
        for k in range(3):
            with mem() as f:
                fl.save(f, "flow")
                g = ZukoFlow.load(f, "flow")
            if not torch.allclose(ref, g.log_prob(xs), atol=1e-6):
                fails.append({"id": f"C13-zuko-save-{k + 1}", "obligation": "flow save/load", "what": f"copy #{k + 1} of the same zuko flow object reloads to a different density", "input": {"save_number": k + 1}})
                break
    except Exception as e:  # noqa: BLE001
        fails.append({"id": "C13-zuko-resave-raise", "obligation": "flow save/load", "what": f"saving the same zuko flow object repeatedly: {type(e).__name__}: {str(e)[:150]}", "input": {}})
    if True:
        from aspire.flows.jax.flows import FlowJax
        import jax
        for dims in ((3,) if tier == "quick" else (2, 3, 5)):
            cases += 1
            try:
                Xd = rng.normal(size=(20, dims))
                fl = FlowJax(dims=dims, key=jax.random.key(3))
                with mem() as f:
                    fl.save(f, "flow")
                    g = FlowJax.load(f, "flow")
                if not np.allclose(np.asarray(fl.log_prob(Xd)), np.asarray(g.log_prob(Xd)), atol=1e-5):
                    fails.append({"id": f"C13-flowjax-dims{dims}", "obligation": "flow save/load", "what": f"reloaded flowjax flow (dims={dims}: permutations between layers) has a different density", "input": {"dims": dims}})
            except Exception as e:  # noqa: BLE001
                fails.append({"id": f"C13-flowjax-raise-dims{dims}", "obligation": "flow save/load", "what": f"{type(e).__name__}: {str(e)[:150]}", "input": {"dims": dims}})
    if tier == "thorough":
        from aspire.flows.jax.flows import FlowJax
        import jax
        cases += 1
        try:
            fl = FlowJax(dims=2, key=jax.random.key(3))
            with mem() as f:
                fl.save(f, "flow")
                g = FlowJax.load(f, "flow")
            if not np.allclose(np.asarray(fl.log_prob(X)), np.asarray(g.log_prob(X)), atol=1e-5):
                fails.append({"id": "C13-flowjax", "obligation": "flow save/load", "what": "reloaded flowjax flow has a different density", "input": {}})
        except Exception as e:  # noqa: BLE001
            fails.append({"id": "C13-flowjax-raise", "obligation": "flow save/load", "what": f"{type(e).__name__}: {str(e)[:150]}", "input": {}})
    # stored populations: counts on both sides of every change in the number of digits of the index (1, 10, 11, 100, 101 groups)
    for npop in (0, 1, 3, 10, 11, 12, 25, 101):
        betas = [i / max(npop - 1, 1) for i in range(npop)]
        h = SMCHistory(log_norm_ratio=[0.1 * i for i in range(npop)], beta=list(betas), ess=[10.0 + i for i in range(npop)],
                       sample_history=[SMCSamples(rng.normal(size=(3, 2)), log_q=rng.normal(size=3), beta=b, parameters=["mass", "chi"]) for b in betas])
        cases += 1
        with mem() as f:
            h.save(f, "h")
            h2 = SMCHistory.load(f, "h")
        def _series(v):
            # a series reloaded as a scalar (or anything that is not a sequence) is a difference, not a reason to stop the check
            try:
                return list(v)
            except TypeError:
                return ["<not a sequence>", repr(v)[:60]]
        if _series(h2.beta) != h.beta or _series(h2.ess) != h.ess or len(h2.sample_history) != npop or not all(np.array_equal(np.asarray(a.x), np.asarray(b.x)) and a.beta == b.beta for a, b in zip(h.sample_history, h2.sample_history)):
            fails.append({"id": f"C13-history-{npop}", "obligation": "history save/load", "what": f"reloaded SMCHistory with {npop} stored populations differs (series, or stored populations out of order)", "input": {"stored_populations": npop}})
    # ---- configuration: an instance rebuilt from the saved configuration has the same settings
    from aspire import Aspire
    from aspire.utils import resolve_xp
    for sname, sxp, _ in NS:
        cases += 1
        if resolve_xp(sxp.__name__) is not sxp:
            fails.append({"id": f"C13-resolve-xp-{sname}", "obligation": "namespace of the rebuilt instance", "what": f"resolve_xp('{sxp.__name__}') is {getattr(resolve_xp(sxp.__name__), '__name__', None)}", "input": {"namespace": sxp.__name__}})
    return {"what": "save -> load -> compare on real HDF5 files: every sample class x namespace x dtype x optional-field subset x flat/nested layout x parameter names that are not alphabetically sorted; configuration dictionaries with None, {}, nested dicts, string lists, numpy scalars and arrays; every transform class; zuko (default and non-default options) and flowjax flows; SMCHistory with stored populations; namespace names",
            "bound": f"{cases} round trips", "cases": cases, "failures": fails}


# ------------------------------------------------------------------------------------------ C03
def native_C03(tier, seed):
    import io
    import h5py
    import torch
    from aspire.flows.torch.flows import ZukoFlow
    from aspire.transforms import FlowTransform
    import array_api_compat.torch as xt
    rng = np.random.default_rng(seed)
    fails, cases = [], 0

    def quad2(flow, lo, hi, npts=260, as_np=lambda v: np.asarray(v.detach() if hasattr(v, "detach") else v, dtype=float)):
        """integral of exp(log_prob) over the box by a change of variables that is independent of the code under test: x_i = lo_i + w_i * sigma(z_i),
        z on a uniform grid (nodes pile up towards the bounds, where the density of a bounded flow may have an integrable spike that a uniform grid
        in x misses)"""
        z = np.linspace(-12.0, 12.0, npts)
        sg = 1.0 / (1.0 + np.exp(-z))
        w = np.asarray(hi, dtype=float) - np.asarray(lo, dtype=float)
        gx, gy = lo[0] + w[0] * sg, lo[1] + w[1] * sg
        jx, jy = w[0] * sg * (1 - sg), w[1] * sg * (1 - sg)
        G = np.stack(np.meshgrid(gx, gy, indexing="ij"), -1).reshape(-1, 2)
        J = (jx[:, None] * jy[None, :]).reshape(-1)
        lp = as_np(flow.log_prob(G))
        with np.errstate(all="ignore"):
            f = np.where(np.isfinite(lp), np.exp(lp) * J, 0.0)
        dz = z[1] - z[0]
        return float(f.sum() * dz * dz)

    backends = ["zuko"] + (["flowjax"] if tier == "thorough" else [])
    for backend in backends:
        for bt in ("logit", "probit", None):
            for dt_name in ("float32", "float64"):
                if backend == "flowjax" and dt_name == "float64":
                    continue
                lo, hi = np.array([-1.0, 0.0]), np.array([3.0, 5.0])
                bounds = {"a": [lo[0], hi[0]], "b": [lo[1], hi[1]]} if bt else None
                inp = {"backend": backend, "bounded_transform": bt, "dtype": dt_name, "seed": seed}

                def mkflow():
                    if backend == "zuko":
                        tr = FlowTransform(parameters=["a", "b"], prior_bounds=bounds, bounded_to_unbounded=bool(bt), bounded_transform=bt or "logit", xp=xt, dtype=dt_name)
                        return ZukoFlow(dims=2, data_transform=tr, hidden_features=[16], transforms=2, dtype=dt_name, seed=seed + 1)
                    import jax
                    import jax.numpy as jnp
                    from aspire.flows.jax.flows import FlowJax
                    tr = FlowTransform(parameters=["a", "b"], prior_bounds=bounds, bounded_to_unbounded=bool(bt), bounded_transform=bt or "logit", xp=jnp, dtype=dt_name)
                    return FlowJax(dims=2, key=jax.random.key(seed), data_transform=tr, dtype=dt_name)
                as_np = lambda v: np.asarray(v.detach() if hasattr(v, "detach") else v, dtype=float)  # noqa: E731
                try:
                    fl = mkflow()
                    X1 = np.column_stack([rng.uniform(-0.5, 2.5, 300), rng.uniform(0.5, 4.5, 300)])
                    X2 = np.column_stack([rng.normal(1.0, 0.2, 300).clip(-0.9, 2.9), rng.normal(2.5, 0.1, 300).clip(0.1, 4.9)])
                    stages = [("untrained", None), ("fit", X1), ("refit on data with another spread", X2)]
                    for stage, data in stages:
                        if data is not None:
                            fl.fit(data, **(dict(n_epochs=2) if backend == "zuko" else dict(max_epochs=2)))
                        cases += 1
                        x, lq = fl.sample_and_log_prob(400)
                        x_np, lq_np = as_np(x), as_np(lq)
                        lp_np = as_np(fl.log_prob(x))
                        if bt:
                            if not ((x_np >= lo).all() and (x_np <= hi).all()):
                                fails.append({"id": f"C03-bounds-{backend}-{bt}-{dt_name}-{stage}", "obligation": "logitT_inv_mem", "what": f"{stage}: draws outside the declared bounds", "input": inp})
                            u = (x_np - lo) / (hi - lo)
                            interior = ((u > 1e-3) & (u < 1 - 1e-3)).all(-1)
                        else:
                            interior = np.ones(len(x_np), bool)
                        tol = 5e-3 if dt_name == "float32" else 1e-6
                        if interior.any() and np.abs(lq_np - lp_np)[interior].max() > tol * max(1.0, np.abs(lp_np[interior]).max()):
                            fails.append({"id": f"C03-agree-{backend}-{bt}-{dt_name}-{stage}", "obligation": "the log-density returned with the draws equals log_prob", "what": f"{stage}: max |log_q - log_prob(x)| = {np.abs(lq_np - lp_np)[interior].max():.3g}", "input": inp})
                        if bt and stage != "untrained":
                            Z = quad2(fl, lo, hi, as_np=as_np)
                            if abs(Z - 1) > 0.03:
                                fails.append({"id": f"C03-normalised-{backend}-{bt}-{dt_name}-{stage}", "obligation": "normalised", "what": f"{stage}: the density integrates to {Z:.4f} over the declared box", "input": inp})
                    # save / load
                    cases += 1
                    with h5py.File(io.BytesIO(), "w") as f:
                        fl.save(f, "flow")
                        g = type(fl).load(f, "flow")
                    xq = X1[:50]
                    d = np.abs(as_np(fl.log_prob(xq)) - as_np(g.log_prob(xq))).max()
                    if d > (1e-4 if dt_name == "float32" else 1e-9):
                        fails.append({"id": f"C03-reload-{backend}-{bt}-{dt_name}", "obligation": "save/load", "what": f"log_prob changes by {d:.3g} across save/load", "input": inp})
                except Exception as e:  # noqa: BLE001
                    fails.append({"id": f"C03-raise-{backend}-{bt}-{dt_name}", "obligation": "C03", "what": f"{type(e).__name__}: {str(e)[:160]}", "input": inp})
    # bounds given in another order than the parameters (dict order must not matter)
    cases += 1
    try:
        tr = FlowTransform(parameters=["a", "b"], prior_bounds={"b": [10.0, 20.0], "a": [0.0, 1.0]}, bounded_to_unbounded=True, bounded_transform="logit", xp=xt)
        fl = ZukoFlow(dims=2, data_transform=tr, hidden_features=[8], transforms=1)
        x = np.asarray(fl.sample(300))
        if not ((x[:, 0] >= 0).all() and (x[:, 0] <= 1).all() and (x[:, 1] >= 10).all() and (x[:, 1] <= 20).all()):
            fails.append({"id": "C03-bounds-dict-order", "obligation": "bounds attached to the right columns", "what": f"draws of a in [{x[:,0].min():.3g},{x[:,0].max():.3g}] (declared [0,1]), b in [{x[:,1].min():.3g},{x[:,1].max():.3g}] (declared [10,20])", "input": {"prior_bounds_order": ["b", "a"]}})
    except Exception as e:  # noqa: BLE001
        fails.append({"id": "C03-bounds-dict-order-raise", "obligation": "C03", "what": f"{type(e).__name__}: {e}", "input": {}})
    # continuous (flow-matching) zuko flow: the density returned with the draws is the density evaluated at the draws, and evaluation is deterministic
    try:
        import torch
        from aspire.flows.torch.flows import ZukoFlowMatching
        for dims in (1, 2):
            cases += 1
            fm = ZukoFlowMatching(dims=dims, seed=seed)
            xs, lqs = fm.sample_and_log_prob(16)
            lp1 = np.asarray(torch.as_tensor(fm.log_prob(xs)).detach(), dtype=float)
            lp2 = np.asarray(torch.as_tensor(fm.log_prob(xs)).detach(), dtype=float)
            lqn = np.asarray(torch.as_tensor(lqs).detach(), dtype=float)
            inp = {"backend": "zuko flow matching", "dims": dims, "seed": seed}
            if np.abs(lqn - lp1).max() > 5e-3:
                fails.append({"id": f"C03-agree-flowmatching-{dims}", "obligation": "the log-density returned with the draws equals log_prob",
                              "what": f"flow matching: max |log_q - log_prob(x)| = {np.abs(lqn - lp1).max():.3g}", "input": inp})
            if not np.array_equal(lp1, lp2):
                fails.append({"id": f"C03-deterministic-flowmatching-{dims}", "obligation": "log_prob is a function of x",
                              "what": f"flow matching: two evaluations of log_prob at the same points differ by {np.abs(lp1 - lp2).max():.3g}", "input": inp})
    except ImportError:
        pass
    return {"what": "real zuko (quick) and flowjax (thorough) flows x {logit, probit, no bounded transform} x float32/float64: pointwise agreement of the log-density returned with draws and log_prob at those draws (outside a 1e-3 margin), draws inside the bounds, 2-D quadrature of exp(log_prob) over the box, untrained / after a 2-epoch fit / after a refit on data with another spread, save/load; bounds given in another order than the parameters",
            "bound": f"{cases} flow states", "cases": cases, "failures": fails}
