#!/bin/bash
# Builds the overlay venv used by every check: python 3.12 of /venv (so that the
# repository's third-party dependencies import) + verification tooling from the
# offline wheelhouse.  Idempotent; offline (PIP_NO_INDEX=1 is fine).
set -e
cd "$(dirname "$0")"
VENV=.venv
if [ ! -x $VENV/bin/python ] || ! $VENV/bin/python -c "import z3, cvc5, jsonschema, mpmath" 2>/dev/null; then
  rm -rf $VENV
  /venv/bin/python -m venv $VENV
  SP=$($VENV/bin/python -c "import sysconfig; print(sysconfig.get_paths()['purelib'])")
  echo "import site; site.addsitedir('/venv/lib/python3.12/site-packages')" > $SP/zz_overlay.pth
  $VENV/bin/python -m pip install -q --no-index --find-links /opt/veriftools/wheels \
      z3-solver cvc5 mpmath jsonschema deal icontract crosshair-tool hypothesis >/dev/null
fi
$VENV/bin/python -c "import z3, cvc5, jsonschema, mpmath, numpy, torch, jax; import sys; sys.path.insert(0,'/repo/src'); import aspire; print('overlay venv ok: z3', z3.get_version_string())"
# warm the Lean/Mathlib file cache (first import of Mathlib pays minutes otherwise)
if [ -f lean/Warm.lean ]; then (cd lean && timeout 900 lean Warm.lean >/dev/null 2>&1 || true); fi
