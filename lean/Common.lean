/- Shared sidecar lemmas about generated definitions (compiled after Gen on every run). -/
open Finset Real Spec Gen
set_option linter.unusedVariables false
variable {n : ℕ} [NeZero n]

theorem logsumexp_eq_LSE (x : Fin n → ℝ) : logsumexp x = LSE x := by
  unfold logsumexp
  have := lse_shift x (vmax x)
  linarith

theorem range_sub_logsumexp (x : Fin n → ℝ) (i : Fin n) : x i - logsumexp x ≤ 0 := by
  rw [logsumexp_eq_LSE]; exact sub_nonpos.mpr (le_lse x i)

theorem ess_arg_le (a : Fin n → ℝ) : LSE a * 2 - LSE (fun i => a i * 2) ≤ Real.log n := by
  have h := ess_eq_exp a
  have hle := ess_le a
  have hpos : (0:ℝ) < n := by exact_mod_cast Nat.pos_of_ne_zero (NeZero.ne n)
  rw [← h] at hle
  calc LSE a * 2 - LSE (fun i => a i * 2) = Real.log (Real.exp (LSE a * 2 - LSE (fun i => a i * 2))) := (Real.log_exp _).symm
    _ ≤ Real.log n := Real.log_le_log (Real.exp_pos _) hle

theorem range_ess_arg (a : Fin n → ℝ) : (2:ℝ) * logsumexp a - logsumexp (fun k => (2:ℝ) * a k) ≤ Real.log n := by
  rw [logsumexp_eq_LSE, logsumexp_eq_LSE]
  have e : (fun k => (2:ℝ) * a k) = (fun i => a i * 2) := by funext i; ring
  rw [e]; have := ess_arg_le a; linarith

theorem range_ess_arg' (a : Fin n → ℝ) : (2:ℝ) * logsumexp a - logsumexp (fun k => a k * (2:ℝ)) ≤ Real.log n := by
  rw [logsumexp_eq_LSE, logsumexp_eq_LSE]
  have := ess_arg_le a; linarith

theorem iw_eq (ll lp lq : Fin n → ℝ) (b0 b : ℝ) : unnormalized_log_weights ll lp lq b0 b = IW ll lp lq b0 b := by
  funext i; unfold unnormalized_log_weights IW; ring

theorem range_sub_vmax (x : Fin n → ℝ) (i : Fin n) (a : ℝ) (h : a = x i) : a - vmax x ≤ 0 := by
  rw [h]; exact sub_nonpos.mpr (vmax_ge x i)
