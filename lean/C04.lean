/- C04: parameter transforms are bijections with exact log-Jacobians (scalar element view; definitions generated
   from src/aspire/utils.py and src/aspire/transforms.py on every run). -/
open Finset Real Spec Gen
set_option linter.unusedVariables false

-- C03 C04 sigmoid maps into (0,1): draws of a bounded parameter stay strictly inside the unit interval
theorem sigmoid_mem (y : ℝ) : 0 < sigmoid_x y ∧ sigmoid_x y < 1 := by
  unfold sigmoid_x; have := Real.exp_pos (-y)
  constructor
  · positivity
  · rw [div_lt_one (by positivity)]; linarith

-- C04 inverse(forward(x)) = x for the logit/sigmoid pair on (0,1)
theorem sigmoid_logit (x : ℝ) (h0 : 0 < x) (h1 : x < 1) : sigmoid_x (logit_y x) = x := by
  unfold sigmoid_x logit_y
  have h1x : 0 < 1 + -x := by linarith
  rw [neg_sub, Real.exp_sub, Real.exp_log h1x, Real.exp_log h0]
  field_simp; ring

-- C04 forward(inverse(y)) = y
theorem logit_sigmoid (y : ℝ) : logit_y (sigmoid_x y) = y := by
  have hm := sigmoid_mem y
  unfold logit_y sigmoid_x at *
  have he := Real.exp_pos (-y)
  have h1 : (1:ℝ) + -(1 / (1 + Real.exp (-y))) = Real.exp (-y) / (1 + Real.exp (-y)) := by field_simp; ring
  rw [h1, Real.log_div (by positivity) (by positivity), Real.log_div (by positivity) (by positivity), Real.log_exp, Real.log_one]
  ring

-- C04 the forward log-Jacobian of logit is the log of its true derivative
theorem logit_deriv (x : ℝ) (h0 : 0 < x) (h1 : x < 1) : HasDerivAt logit_y (Real.exp (logit_lj x)) x := by
  have h1x : 0 < 1 + -x := by linarith
  have hd : HasDerivAt logit_y (x⁻¹ - (-1) / (1 + -x)) x := by
    unfold logit_y
    exact (Real.hasDerivAt_log h0.ne').sub (((hasDerivAt_id x).neg.const_add 1).log h1x.ne')
  have e : Real.exp (logit_lj x) = x⁻¹ - (-1) / (1 + -x) := by
    unfold logit_lj
    rw [Real.exp_sub, Real.exp_neg, Real.exp_log h0, Real.exp_log h1x]
    field_simp; ring
  rw [e]; exact hd

-- C04 the inverse log-Jacobian is the negative of the forward one at the corresponding point
theorem sigmoid_lj_neg (x : ℝ) (h0 : 0 < x) (h1 : x < 1) : sigmoid_lj (logit_y x) = -logit_lj x := by
  have hs := sigmoid_logit x h0 h1
  unfold sigmoid_lj; unfold sigmoid_x at hs; rw [hs]; unfold logit_lj; ring

-- C04 linear map to the unit interval and back
theorem from_to_unit (l u x : ℝ) (h : l < u) : from_unit_x l u (to_unit_y l u x) = x := by
  unfold from_unit_x to_unit_y
  have : u - l ≠ 0 := by linarith
  field_simp; ring

theorem to_unit_mem (l u x : ℝ) (h : l < u) (hx0 : l < x) (hx1 : x < u) : 0 < to_unit_y l u x ∧ to_unit_y l u x < 1 := by
  unfold to_unit_y
  have hd : 0 < u - l := by linarith
  constructor
  · exact div_pos (by linarith) hd
  · rw [div_lt_one hd]; linarith

theorem to_unit_deriv (l u x : ℝ) (h : l < u) : HasDerivAt (to_unit_y l u) (Real.exp (to_unit_lj l u x)) x := by
  have hd : 0 < u - l := by linarith
  have e : Real.exp (to_unit_lj l u x) = 1 / (u - l) := by
    unfold to_unit_lj; rw [Real.exp_neg, Real.exp_log hd]; field_simp
  rw [e]
  have : to_unit_y l u = fun x => (x - l) / (u - l) := by funext x; unfold to_unit_y; ring
  rw [this]
  exact ((hasDerivAt_id x).sub_const l).div_const (u - l)

theorem from_unit_lj_neg (l u x y : ℝ) : from_unit_lj l u y = -to_unit_lj l u x := by
  unfold from_unit_lj to_unit_lj; ring

-- C03 C04 LogitTransform: inverse(forward(x)) = x for every x strictly inside the bounds (outside the clipping margin)
theorem logitT_roundtrip (l u x : ℝ) (h : l < u) (hx0 : l < x) (hx1 : x < u) : logitT_inv l u (logitT_fwd l u x) = x := by
  have hm := to_unit_mem l u x h hx0 hx1
  have hs := sigmoid_logit (to_unit_y l u x) hm.1 hm.2
  unfold to_unit_y sigmoid_x logit_y at hs
  unfold logitT_inv logitT_fwd
  rw [hs]
  have : u - l ≠ 0 := by linarith
  field_simp; ring

-- C03 C04 LogitTransform: draws respect the declared bounds
theorem logitT_inv_mem (l u y : ℝ) (h : l < u) : l < logitT_inv l u y ∧ logitT_inv l u y < u := by
  have hm := sigmoid_mem y
  unfold sigmoid_x at hm
  unfold logitT_inv
  have hd : 0 < u - l := by linarith
  constructor
  · nlinarith [mul_pos hm.1 hd]
  · nlinarith [mul_pos (sub_pos.mpr hm.2) hd]

-- C03 C04 LogitTransform: forward log-Jacobian = log of the true derivative
theorem logitT_deriv (l u x : ℝ) (h : l < u) (hx0 : l < x) (hx1 : x < u) :
    HasDerivAt (logitT_fwd l u) (Real.exp (logitT_fwd_lj l u x)) x := by
  have hm := to_unit_mem l u x h hx0 hx1
  have h1 := logit_deriv (to_unit_y l u x) hm.1 hm.2
  have h2 := to_unit_deriv l u x h
  have hc := HasDerivAt.comp x h1 h2
  have e : Real.exp (logitT_fwd_lj l u x) = Real.exp (logit_lj (to_unit_y l u x)) * Real.exp (to_unit_lj l u x) := by
    rw [← Real.exp_add]; unfold logitT_fwd_lj logit_lj to_unit_y to_unit_lj; ring_nf
  rw [e]
  have : logitT_fwd l u = logit_y ∘ to_unit_y l u := by
    funext x; unfold logitT_fwd logit_y to_unit_y; simp [Function.comp]
  rw [this]; exact hc

-- C03 C04 LogitTransform: inverse log-Jacobian is the negative of the forward one at the corresponding point
theorem logitT_lj_inv_neg (l u x : ℝ) (h : l < u) (hx0 : l < x) (hx1 : x < u) :
    logitT_inv_lj l u (logitT_fwd l u x) = -logitT_fwd_lj l u x := by
  have hm := to_unit_mem l u x h hx0 hx1
  have hs := sigmoid_logit (to_unit_y l u x) hm.1 hm.2
  unfold to_unit_y sigmoid_x logit_y at hs
  unfold logitT_inv_lj logitT_fwd logitT_fwd_lj
  rw [hs]; ring

-- C04 periodic parameters are always wrapped into [lower, upper), for any real input
theorem periodic_mem (l u x : ℝ) (h : l < u) : l ≤ periodic_fwd l u x ∧ periodic_fwd l u x < u := by
  unfold periodic_fwd
  have hw : 0 < u - l := by linarith
  have h1 := Int.floor_le ((x - l) / (u - l))
  have h2 := Int.lt_floor_add_one ((x - l) / (u - l))
  rw [le_div_iff₀ hw] at h1
  rw [div_lt_iff₀ hw] at h2
  constructor <;> nlinarith

-- C04 ... modulo the period
theorem periodic_congr (l u x : ℝ) : ∃ k : ℤ, periodic_fwd l u x = x - k * (u - l) := by
  refine ⟨⌊(x - l) / (u - l)⌋, ?_⟩
  unfold periodic_fwd; ring

-- C04 ... with zero log-Jacobian in both directions
theorem periodic_lj_zero (l u x : ℝ) : periodic_fwd_lj l u x = 0 ∧ periodic_inv_lj l u x = 0 := by
  unfold periodic_fwd_lj periodic_inv_lj; exact ⟨rfl, rfl⟩

-- C04 wrapping is the identity inside the bounds, hence inverse(forward(x)) = x there
theorem periodic_roundtrip (l u x : ℝ) (h : l < u) (hx0 : l ≤ x) (hx1 : x < u) : periodic_inv l u (periodic_fwd l u x) = x := by
  have hw : 0 < u - l := by linarith
  have hf : ⌊(x - l) / (u - l)⌋ = 0 := by
    rw [Int.floor_eq_zero_iff]
    constructor
    · exact div_nonneg (by linarith) hw.le
    · rw [div_lt_one hw]; linarith
  have e : periodic_fwd l u x = x := by unfold periodic_fwd; rw [hf]; simp
  rw [e]; unfold periodic_inv; rw [hf]; simp

-- C03 C04 affine whitening: inverse(forward(x)) = x whenever the fitted scale is non-zero
theorem affine_roundtrip (m s x : ℝ) (hs : s ≠ 0) : affine_inv m s (affine_fwd m s x) = x := by
  unfold affine_inv affine_fwd; field_simp; ring

theorem affine_deriv (m s x : ℝ) (hs : s ≠ 0) : HasDerivAt (affine_fwd m s) (1 / s) x ∧ Real.exp (affine_fwd_lj m s x) = |1 / s| := by
  constructor
  · have : affine_fwd m s = fun x => (x - m) / s := by funext x; unfold affine_fwd; ring
    rw [this]; exact ((hasDerivAt_id x).sub_const m).div_const s
  · unfold affine_fwd_lj
    rw [Real.exp_neg, Real.exp_log (abs_pos.mpr hs), abs_div, abs_one, one_div]

theorem affine_lj_inv_neg (m s x y : ℝ) : affine_inv_lj m s y = -affine_fwd_lj m s x := by
  unfold affine_inv_lj affine_fwd_lj; ring

-- C03 C04 ProbitTransform (with the three erf axioms): inverse(forward(x)) = x strictly inside the bounds
theorem probitT_roundtrip (l u x : ℝ) (h : l < u) (hx0 : l < x) (hx1 : x < u) : probitT_inv l u (probitT_fwd l u x) = x := by
  have hm := to_unit_mem l u x h hx0 hx1
  unfold to_unit_y at hm
  unfold probitT_inv probitT_fwd
  have h2 : Real.sqrt 2 ≠ 0 := by positivity
  have e : Real.sqrt 2 * Spec.erfinv ((x - l) / (u - l) * 2 - 1) / Real.sqrt 2 = Spec.erfinv ((x - l) / (u - l) * 2 - 1) := by
    field_simp
  rw [e, Spec.erf_erfinv _ (by linarith [hm.1]) (by linarith [hm.2])]
  have : u - l ≠ 0 := by linarith
  field_simp; ring

-- C03 C04 ProbitTransform: inverse log-Jacobian is the negative of the forward one at the corresponding point
theorem probitT_lj_inv_neg (l u x : ℝ) : probitT_inv_lj l u (probitT_fwd l u x) = -probitT_fwd_lj l u x := by
  unfold probitT_inv_lj probitT_fwd_lj probitT_fwd; ring

-- C03 C04 ProbitTransform: the inverse log-Jacobian is the log of the true derivative of the inverse map
theorem probitT_inv_deriv (l u y : ℝ) (h : l < u) : HasDerivAt (probitT_inv l u) (Real.exp (probitT_inv_lj l u y)) y := by
  have hd : 0 < u - l := by linarith
  have h2 : (0:ℝ) < Real.sqrt 2 := by positivity
  have hpi : (0:ℝ) < Real.pi := Real.pi_pos
  have he := Spec.hasDerivAt_erf (y / Real.sqrt 2)
  have hin : HasDerivAt (fun y : ℝ => y / Real.sqrt 2) (1 / Real.sqrt 2) y := (hasDerivAt_id y).div_const _
  have hc := HasDerivAt.comp y he hin
  have hf : HasDerivAt (probitT_inv l u)
      ((2 / Real.sqrt Real.pi * Real.exp (-((y / Real.sqrt 2) ^ 2)) * (1 / Real.sqrt 2)) * (1 / 2) * (u - l)) y := by
    have hh := (((hc.const_add 1).mul_const (1 / 2)).mul_const (u - l)).add_const l
    have : probitT_inv l u = fun y => (1 + (Spec.erf ∘ fun y : ℝ => y / Real.sqrt 2) y) * (1 / 2) * (u - l) + l := by
      funext y; unfold probitT_inv; simp [Function.comp]
    rw [this]; convert hh using 1
  convert hf using 1
  unfold probitT_inv_lj
  have e1 : (y / Real.sqrt 2) ^ 2 = y ^ 2 / 2 := by
    rw [div_pow, Real.sq_sqrt (by norm_num : (0:ℝ) ≤ 2)]
  rw [e1]
  have e2 : Real.exp (-(1 / 2 * (Real.log (2 * Real.pi) + y ^ 2)) + - -Real.log (u - l))
      = (u - l) * Real.exp (-(y ^ 2 / 2)) / Real.sqrt (2 * Real.pi) := by
    rw [show -(1 / 2 * (Real.log (2 * Real.pi) + y ^ 2)) + - -Real.log (u - l)
          = Real.log (u - l) + (-(y ^ 2 / 2)) - (1 / 2) * Real.log (2 * Real.pi) by ring]
    rw [Real.exp_sub, Real.exp_add, Real.exp_log hd]
    congr 1
    rw [Real.sqrt_eq_rpow, Real.rpow_def_of_pos (by positivity)]
    ring_nf
  rw [e2]
  have e3 : Real.sqrt (2 * Real.pi) = Real.sqrt 2 * Real.sqrt Real.pi := Real.sqrt_mul (by norm_num) _
  rw [e3]
  have hsp : Real.sqrt Real.pi ≠ 0 := by positivity
  field_simp
