/- C05/C07/C08/C09: analytic halves for the SMC weight functions of src/aspire/samples.py (generated defs). -/
open Finset Real Spec Gen
set_option linter.unusedVariables false
variable {n : ℕ} [NeZero n]

-- C05 tempered target: log_p_t(beta)_i = (1 - beta) log q_i + beta (log L_i + log pi_i)
theorem log_p_t_spec (ll lp lq : Fin n → ℝ) (beta : ℝ) (i : Fin n) :
    log_p_t ll lp lq beta i = (1 - beta) * lq i + beta * (ll i + lp i) := by
  unfold log_p_t; ring

-- C07 C08 C09 incremental log-weights: unnormalized_log_weights(beta) = (beta - self.beta) (log L + log pi - log q)
theorem iw_spec (ll lp lq : Fin n → ℝ) (b0 b : ℝ) (i : Fin n) :
    unnormalized_log_weights ll lp lq b0 b i = (b - b0) * (ll i + lp i - lq i) := by
  unfold unnormalized_log_weights; ring

-- C08 log_evidence_ratio(beta) = log of the mean incremental weight
theorem log_evidence_ratio_spec (ll lp lq : Fin n → ℝ) (b0 b : ℝ) :
    log_evidence_ratio ll lp lq b0 b = Real.log ((∑ i, Real.exp (IW ll lp lq b0 b i)) / n) := by
  unfold log_evidence_ratio
  rw [logsumexp_eq_LSE, iw_eq]; unfold LSE
  have hn : (n:ℝ) ≠ 0 := by exact_mod_cast NeZero.ne n
  rw [Real.log_div (sum_exp_pos _).ne' hn]

-- C07 C09 log_weights(beta) = IW + const (the constant is the log evidence ratio)
theorem log_weights_spec (ll lp lq : Fin n → ℝ) (b0 b : ℝ) (i : Fin n) :
    log_weights ll lp lq b0 b i = IW ll lp lq b0 b i + (LSE (IW ll lp lq b0 b) - Real.log n) := by
  unfold log_weights; rw [logsumexp_eq_LSE, iw_eq]; ring

-- C07 the ESS that determine_beta evaluates, ESS(log_weights(beta)), is ESS(IW): the additive constant drops out
theorem ess_log_weights (ll lp lq : Fin n → ℝ) (b0 b : ℝ) :
    effective_sample_size (log_weights ll lp lq b0 b) = ESS (IW ll lp lq b0 b) := by
  have h : log_weights ll lp lq b0 b = fun i => IW ll lp lq b0 b i + (LSE (IW ll lp lq b0 b) - Real.log n) := by
    funext i; exact log_weights_spec ll lp lq b0 b i
  unfold effective_sample_size
  rw [logsumexp_eq_LSE, logsumexp_eq_LSE, h]
  have e := ess_eq_exp (fun i => IW ll lp lq b0 b i + (LSE (IW ll lp lq b0 b) - Real.log n))
  have e2 : (fun k => (2:ℝ) * (IW ll lp lq b0 b k + (LSE (IW ll lp lq b0 b) - Real.log n)))
      = (fun i => (IW ll lp lq b0 b i + (LSE (IW ll lp lq b0 b) - Real.log n)) * 2) := by funext i; ring
  rw [e2, ← ess_shift (IW ll lp lq b0 b) (LSE (IW ll lp lq b0 b) - Real.log n), ← e]
  congr 1; ring

-- C07 at the current temperature the incremental weights are constant, so the efficiency is 1 (ESS = n)
theorem ess_iw_same_beta (ll lp lq : Fin n → ℝ) (b0 : ℝ) : ESS (IW ll lp lq b0 b0) = n := by
  have : IW ll lp lq b0 b0 = fun _ => (0:ℝ) := by funext i; unfold IW; ring
  rw [this]; exact ess_const 0

-- C09 the vector handed to the generator is SOFTMAX(IW): selection probability proportional to the incremental weight
theorem resample_p_spec (ll lp lq : Fin n → ℝ) (b0 b : ℝ) (i : Fin n) :
    resample_p ll lp lq b0 b i = SOFTMAX (IW ll lp lq b0 b) i := by
  unfold resample_p
  rw [logsumexp_eq_LSE]
  have h : log_weights ll lp lq b0 b = fun i => IW ll lp lq b0 b i + (LSE (IW ll lp lq b0 b) - Real.log n) := by
    funext i; exact log_weights_spec ll lp lq b0 b i
  rw [h]
  have := exp_sub_lse (fun i => IW ll lp lq b0 b i + (LSE (IW ll lp lq b0 b) - Real.log n)) i
  simp only [] at this ⊢
  rw [this, softmax_shift]

-- C09 ... and sums to one
theorem resample_p_sum (ll lp lq : Fin n → ℝ) (b0 b : ℝ) : ∑ i, resample_p ll lp lq b0 b i = 1 := by
  simp only [resample_p_spec]; exact softmax_sum _

-- C08 log_evidence_ratio_variance = Var(w) / (n mean(w)^2) for the *unshifted* incremental weights w = exp(IW) (scale invariance of the max-shifted form)
theorem log_evidence_ratio_variance_spec (ll lp lq : Fin n → ℝ) (b0 b : ℝ) :
    log_evidence_ratio_variance ll lp lq b0 b =
      ((∑ i, (Real.exp (IW ll lp lq b0 b i) - (∑ j, Real.exp (IW ll lp lq b0 b j)) / n) ^ 2) / n)
        / ((n:ℝ) * ((∑ j, Real.exp (IW ll lp lq b0 b j)) / n) ^ 2) := by
  unfold log_evidence_ratio_variance
  rw [iw_eq]
  set w := IW ll lp lq b0 b with hw
  set m := vmax (fun j => w j) with hm
  have hM : 0 < Real.exp m := Real.exp_pos m
  have e1 : ∀ i, Real.exp (w i - m) = Real.exp (w i) / Real.exp m := fun i => Real.exp_sub _ _
  simp only [e1]
  have hsum : (∑ j : Fin n, Real.exp (w j) / Real.exp m) = (∑ j : Fin n, Real.exp (w j)) / Real.exp m := by rw [Finset.sum_div]
  rw [hsum]
  set S := ∑ j : Fin n, Real.exp (w j) with hS
  have hSpos : 0 < S := sum_exp_pos _
  have hnpos : (0:ℝ) < n := by exact_mod_cast Nat.pos_of_ne_zero (NeZero.ne n)
  have e2 : ∀ i, (Real.exp (w i) / Real.exp m - S / Real.exp m / (n:ℝ)) ^ 2 = (Real.exp (w i) - S / n) ^ 2 / (Real.exp m) ^ 2 := by
    intro i; field_simp
  simp only [e2]
  rw [← Finset.sum_div]
  field_simp
  apply Finset.sum_congr rfl; intro i _; ring
