/-
Spec functions and lemma library for the aspire contracts (static, hand-written, checked by Lean on
every setup).  The *definitions under proof* are never here: they are generated from the real Python
source into `Gen.lean` on every run.
-/
import Mathlib.Analysis.SpecialFunctions.Log.Basic
import Mathlib.Analysis.SpecialFunctions.Log.Deriv
import Mathlib.Analysis.SpecialFunctions.Exp
import Mathlib.Analysis.SpecialFunctions.Pow.Real
import Mathlib.Analysis.SpecialFunctions.Sqrt
import Mathlib.Algebra.Order.Chebyshev
import Mathlib.Algebra.BigOperators.Fin
import Mathlib.Algebra.Order.Floor.Ring
import Mathlib.Tactic

open Finset Real
set_option linter.style.haveILetI false
set_option linter.unusedVariables false

namespace Spec
variable {n : ℕ}

noncomputable def LSE (x : Fin n → ℝ) : ℝ := Real.log (∑ i, Real.exp (x i))
noncomputable def ESS (x : Fin n → ℝ) : ℝ := (∑ i, Real.exp (x i)) ^ 2 / ∑ i, Real.exp (x i) ^ 2
noncomputable def SOFTMAX (x : Fin n → ℝ) (i : Fin n) : ℝ := Real.exp (x i) / ∑ j, Real.exp (x j)
noncomputable def vmax [NeZero n] (x : Fin n → ℝ) : ℝ := Finset.univ.sup' Finset.univ_nonempty x
/-- incremental log-weights of a population (ll, lp, lq) at temperature b0 moved to b -/
noncomputable def IW (ll lp lq : Fin n → ℝ) (b0 b : ℝ) : Fin n → ℝ := fun i => (b - b0) * (ll i + lp i - lq i)

/-- Mathlib has no error function: the three facts used by the probit map are axioms (listed as trusted). -/
axiom erf : ℝ → ℝ
axiom erfinv : ℝ → ℝ
axiom erf_erfinv (y : ℝ) (h0 : -1 < y) (h1 : y < 1) : erf (erfinv y) = y
axiom erfinv_erf (x : ℝ) : erfinv (erf x) = x
axiom erf_mem (x : ℝ) : -1 < erf x ∧ erf x < 1
axiom hasDerivAt_erf (x : ℝ) : HasDerivAt erf (2 / Real.sqrt Real.pi * Real.exp (-(x ^ 2))) x

lemma sum_exp_pos [NeZero n] (x : Fin n → ℝ) : 0 < ∑ i, Real.exp (x i) :=
  Finset.sum_pos (fun i _ => Real.exp_pos _) Finset.univ_nonempty

lemma vmax_ge [NeZero n] (x : Fin n → ℝ) (i : Fin n) : x i ≤ vmax x := by
  unfold vmax; exact Finset.le_sup' x (Finset.mem_univ i)

lemma lse_shift [NeZero n] (x : Fin n → ℝ) (c : ℝ) :
    c + Real.log (∑ i, Real.exp (x i - c)) = LSE x := by
  unfold LSE
  have hpos := sum_exp_pos (fun i => x i - c)
  have h : ∑ i : Fin n, Real.exp (x i) = Real.exp c * ∑ i : Fin n, Real.exp (x i - c) := by
    rw [Finset.mul_sum]; apply Finset.sum_congr rfl; intro i _
    rw [← Real.exp_add]; congr 1; ring
  rw [h, Real.log_mul (Real.exp_pos c).ne' hpos.ne', Real.log_exp]

lemma lse_add_const [NeZero n] (x : Fin n → ℝ) (c : ℝ) : LSE (fun i => x i + c) = LSE x + c := by
  have := lse_shift (fun i => x i + c) c
  simp only [add_sub_cancel_right] at this
  unfold LSE at *; linarith

lemma ess_eq_exp [NeZero n] (a : Fin n → ℝ) :
    Real.exp (LSE a * 2 - LSE (fun i => a i * 2)) = ESS a := by
  have h1 := sum_exp_pos a
  have h2 := sum_exp_pos (fun i => a i * 2)
  unfold LSE ESS
  rw [Real.exp_sub, Real.exp_log h2]
  congr 1
  · rw [show Real.log (∑ i, Real.exp (a i)) * 2 = Real.log (∑ i, Real.exp (a i)) + Real.log (∑ i, Real.exp (a i)) by ring,
      Real.exp_add, Real.exp_log h1]; ring
  · apply Finset.sum_congr rfl; intro i _
    rw [← Real.exp_nat_mul]; congr 1; push_cast; ring

lemma ess_shift [NeZero n] (a : Fin n → ℝ) (c : ℝ) : ESS (fun i => a i + c) = ESS a := by
  unfold ESS
  have e1 : ∀ i, Real.exp (a i + c) = Real.exp (a i) * Real.exp c := fun i => Real.exp_add _ _
  simp only [e1, mul_pow, ← Finset.sum_mul]
  have hc : Real.exp c ^ 2 ≠ 0 := by positivity
  have h2 : (∑ i : Fin n, Real.exp (a i) ^ 2) ≠ 0 :=
    (Finset.sum_pos (fun i _ => by positivity) Finset.univ_nonempty).ne'
  field_simp

lemma ess_le [NeZero n] (a : Fin n → ℝ) : ESS a ≤ n := by
  unfold ESS
  have h2 : 0 < ∑ i : Fin n, Real.exp (a i) ^ 2 :=
    Finset.sum_pos (fun i _ => by positivity) Finset.univ_nonempty
  rw [div_le_iff₀ h2]
  have := sq_sum_le_card_mul_sum_sq (s := (Finset.univ : Finset (Fin n))) (f := fun i => Real.exp (a i))
  simpa using this

lemma one_le_ess [NeZero n] (a : Fin n → ℝ) : 1 ≤ ESS a := by
  unfold ESS
  have h2 : 0 < ∑ i : Fin n, Real.exp (a i) ^ 2 :=
    Finset.sum_pos (fun i _ => by positivity) Finset.univ_nonempty
  rw [le_div_iff₀ h2, one_mul]
  exact Finset.sum_sq_le_sq_sum_of_nonneg (fun i _ => (Real.exp_pos _).le)

lemma ess_const [NeZero n] (c : ℝ) : ESS (fun _ : Fin n => c) = n := by
  unfold ESS
  simp only [Finset.sum_const, Finset.card_univ, Fintype.card_fin, nsmul_eq_mul]
  have hc : Real.exp c ≠ 0 := (Real.exp_pos c).ne'
  have hn : (n:ℝ) ≠ 0 := by exact_mod_cast NeZero.ne n
  field_simp

lemma ess_perm (a : Fin n → ℝ) (σ : Equiv.Perm (Fin n)) : ESS (a ∘ σ) = ESS a := by
  unfold ESS
  simp only [Function.comp]
  rw [Equiv.sum_comp σ (fun i => Real.exp (a i)), Equiv.sum_comp σ (fun i => Real.exp (a i) ^ 2)]

lemma lse_perm (a : Fin n → ℝ) (σ : Equiv.Perm (Fin n)) : LSE (a ∘ σ) = LSE a := by
  unfold LSE
  simp only [Function.comp]
  rw [Equiv.sum_comp σ (fun i => Real.exp (a i))]

lemma le_lse [NeZero n] (a : Fin n → ℝ) (i : Fin n) : a i ≤ LSE a := by
  unfold LSE
  rw [← Real.log_exp (a i)]
  apply Real.log_le_log (Real.exp_pos _)
  exact Finset.single_le_sum (f := fun j => Real.exp (a j)) (fun j _ => (Real.exp_pos _).le) (Finset.mem_univ i)

lemma softmax_sum [NeZero n] (a : Fin n → ℝ) : ∑ i, SOFTMAX a i = 1 := by
  unfold SOFTMAX
  rw [← Finset.sum_div]
  exact div_self (sum_exp_pos a).ne'

lemma softmax_shift [NeZero n] (a : Fin n → ℝ) (c : ℝ) (i : Fin n) : SOFTMAX (fun j => a j + c) i = SOFTMAX a i := by
  unfold SOFTMAX
  have e1 : ∀ j, Real.exp (a j + c) = Real.exp (a j) * Real.exp c := fun j => Real.exp_add _ _
  simp only [e1, ← Finset.sum_mul]
  have hc : Real.exp c ≠ 0 := (Real.exp_pos c).ne'
  have hs : (∑ j : Fin n, Real.exp (a j)) ≠ 0 := (sum_exp_pos a).ne'
  field_simp

lemma exp_sub_lse [NeZero n] (a : Fin n → ℝ) (i : Fin n) : Real.exp (a i - LSE a) = SOFTMAX a i := by
  unfold LSE SOFTMAX
  rw [Real.exp_sub, Real.exp_log (sum_exp_pos a)]

lemma rpow_unit (a r : ℝ) (h0 : 0 ≤ a) (h1 : a ≤ 1) (hr : 0 < r) : 0 ≤ a ^ r ∧ a ^ r ≤ 1 :=
  ⟨Real.rpow_nonneg h0 r, Real.rpow_le_one h0 h1 hr.le⟩

lemma wrap_mem (lower w x : ℝ) (hw : 0 < w) :
    lower ≤ lower + (x - lower - w * ⌊(x - lower) / w⌋) ∧ lower + (x - lower - w * ⌊(x - lower) / w⌋) < lower + w := by
  have h1 := Int.floor_le ((x - lower) / w)
  have h2 := Int.lt_floor_add_one ((x - lower) / w)
  rw [le_div_iff₀ hw] at h1
  rw [div_lt_iff₀ hw] at h2
  constructor <;> nlinarith

end Spec
