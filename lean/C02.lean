/- C02: weights, evidence and ESS are exact functionals.  Definitions in namespace Gen are generated from
   src/aspire/utils.py and src/aspire/samples.py on every run; only these proof scripts are stored. -/
open Finset Real Spec Gen
set_option linter.unusedVariables false
variable {n : ℕ} [NeZero n]

-- C02 logsumexp(x) = log sum exp x
theorem logsumexp_spec (x : Fin n → ℝ) : logsumexp x = LSE x := logsumexp_eq_LSE x

-- C02 stability: the only exp() in logsumexp is applied to non-positive arguments (no overflow for any finite input)
theorem logsumexp_exp_arg_nonpos (x : Fin n → ℝ) (i : Fin n) : x i - vmax x ≤ 0 := by
  have := vmax_ge x i; linarith

-- C02 effective_sample_size(log_w) = (sum w)^2 / sum w^2
theorem ess_spec (a : Fin n → ℝ) : effective_sample_size a = ESS a := by
  unfold effective_sample_size
  rw [logsumexp_spec, logsumexp_spec]
  have h := ess_eq_exp a
  have e : (fun k => (2:ℝ) * a k) = (fun i => a i * 2) := by funext i; ring
  rw [e, ← h]; congr 1; ring

-- C02 the ESS lies in [1, N]
theorem ess_bounds (a : Fin n → ℝ) : 1 ≤ effective_sample_size a ∧ effective_sample_size a ≤ n := by
  rw [ess_spec]; exact ⟨one_le_ess a, ess_le a⟩

-- C02 each log-weight is log-likelihood + log-prior - log-proposal of the same sample
theorem cw_log_w_spec (ll lp lq : Fin n → ℝ) (i : Fin n) : cw_log_w ll lp lq i = ll i + lp i - lq i := by
  unfold cw_log_w; ring

-- C02 log-evidence is the log of the mean weight
theorem cw_log_evidence_spec (ll lp lq : Fin n → ℝ) :
    cw_log_evidence ll lp lq = Real.log ((∑ i, Real.exp (ll i + lp i - lq i)) / n) := by
  unfold cw_log_evidence; rw [logsumexp_spec]; unfold LSE
  have hn : (n:ℝ) ≠ 0 := by exact_mod_cast NeZero.ne n
  rw [Real.log_div (sum_exp_pos _).ne' hn]

-- C02 the ESS computed by compute_weights (through the max-shifted form) is ESS(log_w)
theorem cw_ess_spec (ll lp lq : Fin n → ℝ) :
    cw_effective_sample_size ll lp lq = ESS (fun i => ll i + lp i - lq i) := by
  unfold cw_effective_sample_size
  rw [logsumexp_spec, logsumexp_spec]
  have h := ess_eq_exp (fun k => ll k + lp k - lq k - vmax (fun j => ll j + lp j - lq j))
  have hs := ess_shift (fun i => ll i + lp i - lq i) (-(vmax (fun j => ll j + lp j - lq j)))
  simp only [← sub_eq_add_neg] at hs
  rw [← hs, ← h]; congr 1; ring

theorem cw_ess_bounds (ll lp lq : Fin n → ℝ) :
    1 ≤ cw_effective_sample_size ll lp lq ∧ cw_effective_sample_size ll lp lq ≤ n := by
  rw [cw_ess_spec]; exact ⟨one_le_ess _, ess_le _⟩

-- C02 adding a constant c to every log-likelihood shifts the log-evidence by c
theorem cw_log_evidence_shift (ll lp lq : Fin n → ℝ) (c : ℝ) :
    cw_log_evidence (fun i => ll i + c) lp lq = cw_log_evidence ll lp lq + c := by
  unfold cw_log_evidence; rw [logsumexp_spec, logsumexp_spec]
  have : (fun k => ll k + c + lp k - lq k) = fun i => (ll i + lp i - lq i) + c := by funext i; ring
  rw [this, lse_add_const]; ring

-- C02 ... and leaves the ESS unchanged
theorem cw_ess_shift (ll lp lq : Fin n → ℝ) (c : ℝ) :
    cw_effective_sample_size (fun i => ll i + c) lp lq = cw_effective_sample_size ll lp lq := by
  rw [cw_ess_spec, cw_ess_spec]
  have : (fun i => ll i + c + lp i - lq i) = fun i => (ll i + lp i - lq i) + c := by funext i; ring
  rw [this, ess_shift]

-- C02 permutation invariance of the evidence and the ESS
theorem cw_log_evidence_perm (ll lp lq : Fin n → ℝ) (σ : Equiv.Perm (Fin n)) :
    cw_log_evidence (ll ∘ σ) (lp ∘ σ) (lq ∘ σ) = cw_log_evidence ll lp lq := by
  unfold cw_log_evidence; rw [logsumexp_spec, logsumexp_spec]
  have e : (fun k => (ll ∘ σ) k + (lp ∘ σ) k - (lq ∘ σ) k) = (fun i => ll i + lp i - lq i) ∘ σ := rfl
  rw [e, lse_perm]

theorem cw_ess_perm (ll lp lq : Fin n → ℝ) (σ : Equiv.Perm (Fin n)) :
    cw_effective_sample_size (ll ∘ σ) (lp ∘ σ) (lq ∘ σ) = cw_effective_sample_size ll lp lq := by
  rw [cw_ess_spec, cw_ess_spec]
  have e : (fun i => (ll ∘ σ) i + (lp ∘ σ) i - (lq ∘ σ) i) = (fun i => ll i + lp i - lq i) ∘ σ := rfl
  rw [e, ess_perm]

-- C02 stability: every exp() feeding log_evidence_error is applied to a non-positive argument
theorem cw_error_exp_arg_nonpos (ll lp lq : Fin n → ℝ) (i : Fin n) :
    (ll i + lp i - lq i) - vmax (fun j => ll j + lp j - lq j) ≤ 0 := by
  exact sub_nonpos.mpr (vmax_ge (fun j => ll j + lp j - lq j) i)

-- C02 stability: the divisor of the relative error (mean shifted weight) is at least 1/n, never underflows
theorem cw_error_divisor_pos (ll lp lq : Fin n → ℝ) :
    0 < (∑ j, Real.exp ((ll j + lp j - lq j) - vmax (fun k => ll k + lp k - lq k))) / (n : ℝ) := by
  have hn : (0:ℝ) < n := by exact_mod_cast Nat.pos_of_ne_zero (NeZero.ne n)
  exact div_pos (sum_exp_pos _) hn

-- C02 the relative evidence error equals |sqrt(sum (w_i - Z)^2 / (n (n-1))) / Z| for the *unshifted* weights w = exp(log_w), Z = mean w
theorem cw_log_evidence_error_spec (ll lp lq : Fin n → ℝ) (hn : 2 ≤ n) :
    cw_log_evidence_error ll lp lq =
      |Real.sqrt ((∑ i, (Real.exp (ll i + lp i - lq i) - (∑ j, Real.exp (ll j + lp j - lq j)) / n) ^ 2) / ((n:ℝ) * ((n:ℝ) - 1)))
        / ((∑ j, Real.exp (ll j + lp j - lq j)) / n)| := by
  unfold cw_log_evidence_error
  set m := vmax (fun j => ll j + lp j - lq j) with hm
  have hM : 0 < Real.exp m := Real.exp_pos m
  have e1 : ∀ i, Real.exp (ll i + lp i - lq i - m) = Real.exp (ll i + lp i - lq i) / Real.exp m := fun i => Real.exp_sub _ _
  simp only [e1]
  have hsum : (∑ j : Fin n, Real.exp (ll j + lp j - lq j) / Real.exp m) = (∑ j : Fin n, Real.exp (ll j + lp j - lq j)) / Real.exp m := by
    rw [Finset.sum_div]
  rw [hsum]
  set S := ∑ j : Fin n, Real.exp (ll j + lp j - lq j) with hS
  have hSpos : 0 < S := sum_exp_pos _
  have hnpos : (0:ℝ) < n := by exact_mod_cast Nat.pos_of_ne_zero (NeZero.ne n)
  have hn1 : (0:ℝ) < (n:ℝ) - 1 := by
    have : (2:ℝ) ≤ n := by exact_mod_cast hn
    linarith
  have e2 : ∀ i, (Real.exp (ll i + lp i - lq i) / Real.exp m - S / Real.exp m / (n:ℝ)) ^ 2
      = (Real.exp (ll i + lp i - lq i) - S / n) ^ 2 / (Real.exp m) ^ 2 := by
    intro i; field_simp
  simp only [e2]
  rw [← Finset.sum_div]
  have hden : ((n:ℝ) - 1) * (n:ℝ) = (n:ℝ) * ((n:ℝ) - 1) := by ring
  rw [hden]
  set A := ∑ i : Fin n, (Real.exp (ll i + lp i - lq i) - S / n) ^ 2 with hA
  have hApos : 0 ≤ A := Finset.sum_nonneg (fun i _ => sq_nonneg _)
  have : A / Real.exp m ^ 2 / ((n:ℝ) * ((n:ℝ) - 1)) = (A / ((n:ℝ) * ((n:ℝ) - 1))) / Real.exp m ^ 2 := by
    field_simp
  rw [this, Real.sqrt_div' _ (by positivity), Real.sqrt_sq hM.le]
  congr 1
  field_simp

-- C02 scaled weights are the weights divided by the largest weight
theorem scaled_weights_spec (log_w : Fin n → ℝ) (i : Fin n) :
    scaled_weights log_w i = Real.exp (log_w i) / Real.exp (vmax log_w) := by
  unfold scaled_weights; rw [Real.exp_sub]

-- C02 efficiency = ESS / N
theorem efficiency_spec (ess : ℝ) : efficiency (n := n) ess = ess / n := by
  unfold efficiency; rfl

-- C02 rejection sampling keeps sample i exactly when its uniform draw falls below its weight divided by the largest weight
theorem rejection_accept_iff (log_w u : Fin n → ℝ) (hu : ∀ i, 0 < u i) (i : Fin n) :
    rs_accept log_w (fun j => Real.log (u j)) i ↔ u i < Real.exp (log_w i) / Real.exp (vmax log_w) := by
  unfold rs_accept
  rw [← Real.exp_sub, gt_iff_lt, Real.log_lt_iff_lt_exp (hu i)]

-- C02 the stored weights are exp(log_w) and the stored evidence is the mean weight
theorem cw_weights_spec (ll lp lq : Fin n → ℝ) (i : Fin n) : cw_weights ll lp lq i = Real.exp (ll i + lp i - lq i) := by
  unfold cw_weights; rfl

theorem cw_evidence_spec (ll lp lq : Fin n → ℝ) :
    cw_evidence ll lp lq = (∑ i, Real.exp (ll i + lp i - lq i)) / n := by
  have h := cw_log_evidence_spec ll lp lq
  unfold cw_log_evidence at h
  unfold cw_evidence
  rw [h]
  have hn : (0:ℝ) < n := by exact_mod_cast Nat.pos_of_ne_zero (NeZero.ne n)
  exact Real.exp_log (div_pos (sum_exp_pos _) hn)

-- C02 the (absolute) evidence error is the standard error of the mean weight: sqrt( sum (w_i - Z)^2 / (n (n-1)) )
theorem cw_evidence_error_spec (ll lp lq : Fin n → ℝ) :
    cw_evidence_error ll lp lq =
      Real.sqrt ((∑ i, (Real.exp (ll i + lp i - lq i) - (∑ j, Real.exp (ll j + lp j - lq j)) / n) ^ 2) / ((n:ℝ) * ((n:ℝ) - 1))) := by
  have hz := cw_evidence_spec ll lp lq
  unfold cw_evidence at hz
  unfold cw_evidence_error
  rw [hz]
  congr 2
  ring
