import numpy as np
CREATED=[]
class ArrayRNG:
    """replay stub: deterministic (seed 0) and exposing a bit_generator so its state is checkpointable"""
    def __init__(self, backend=None, seed=0):
        self._g=np.random.default_rng(seed); CREATED.append(self)
    @property
    def bit_generator(self): return self._g.bit_generator
    def normal(self,*a,**k): return self._g.normal(*a,**k)
    def uniform(self,*a,**k): return self._g.uniform(*a,**k)
    def choice(self,*a,**k): return self._g.choice(*a,**k)
