import numpy as np, math
import array_api_compat.numpy as xnp
from aspire.flows.base import Flow
from aspire.samplers.smc.base import SMCSampler
from aspire.samples import SMCSamples
from aspire.transforms import IdentityTransform

class GaussFlow(Flow):
    xp = xnp
    def __init__(self, dims, device=None, data_transform=None, mu=0.0, sigma=2.0, seed=0):
        super().__init__(dims, device, data_transform)
        self.mu, self.sigma = mu, sigma
        self.rng = np.random.default_rng(seed)
    def log_prob(self, x, xp=xnp):
        x = np.asarray(x)
        return (-0.5*((x-self.mu)/self.sigma)**2 - math.log(self.sigma*math.sqrt(2*math.pi))).sum(-1)
    def sample_and_log_prob(self, n, xp=xnp):
        x = self.rng.normal(self.mu, self.sigma, size=(n, self.dims))
        return x, self.log_prob(x)

class StubSMC(SMCSampler):
    """real SMCSampler.sample loop with a trivial RW-Metropolis kernel using the real log_prob"""
    def sample(self, n_samples, sampler_kwargs=None, **kw):
        self.sampler_kwargs = sampler_kwargs or {}
        return super().sample(n_samples, **kw)
    def mutate(self, particles, beta, n_steps=None):
        z = np.asarray(self.fit_preconditioning_transform(particles.x))
        lp = np.asarray(self.log_prob(z, beta))
        for _ in range(n_steps or 3):
            zp = z + 0.3*self.rng.normal(size=z.shape)
            lpp = np.asarray(self.log_prob(zp, beta))
            acc = np.log(self.rng.uniform(size=len(z))) < lpp - lp
            z = np.where(acc[:,None], zp, z); lp = np.where(acc, lpp, lp)
        x = self.preconditioning_transform.inverse(z)[0]
        s = SMCSamples(x, xp=self.xp, beta=beta, dtype=self.dtype, parameters=self.parameters)
        s.log_q = s.array_to_namespace(self.prior_flow.log_prob(s.x))
        s.log_prior = s.array_to_namespace(self.log_prior(s))
        s.log_likelihood = s.array_to_namespace(self.log_likelihood(s))
        return s

def make(dims=2, scale=1.0, seed=1, nlike=None):
    def log_prior(s):
        x=np.asarray(s.x); return np.where((np.abs(x)<=10).all(-1), -dims*math.log(20.0), -np.inf)
    def log_like(s):
        if nlike is not None: nlike.append(len(s.x))
        assert s.log_prior is not None
        x=np.asarray(s.x); return -0.5*scale*((x-1.0)**2).sum(-1)
    flow = GaussFlow(dims, seed=seed)
    return StubSMC(log_like, log_prior, dims, flow, xnp, rng=np.random.default_rng(seed), parameters=[f"x_{i}" for i in range(dims)])
