import numpy as np
class _H:
    def __init__(self): self.acceptance_rate=[]
class Sampler:
    def __init__(self, log_prob_fn, step_fn=None, rng=None, dims=None, target_acceptance_rate=0.234, xp=None):
        self.f=log_prob_fn; self.rng=rng; self.dims=dims
    def sample(self, z, n_steps=1):
        z=np.asarray(z, dtype=float); lp=np.asarray(self.f(z)); h=_H(); chain=[]
        for _ in range(n_steps):
            zp=z+0.3*np.asarray(self.rng.normal(size=z.shape)); lpp=np.asarray(self.f(zp))
            acc=np.log(np.asarray(self.rng.uniform(size=len(z))))<lpp-lp
            z=np.where(acc[:,None],zp,z); lp=np.where(acc,lpp,lp); chain.append(z.copy()); h.acceptance_rate.append(acc.mean())
        return np.stack(chain), h
