"""HDF5 / pickle model (assumed contracts of h5py and pickle) and the checkpoint-writing contracts (C12, C11, C13)."""
from __future__ import annotations

import z3

from pyvc.contracts import Contract, Pre
from pyvc.engine import PathEnd, RaiseSig, Unsupported
from pyvc.lib import Misc, RS, IS, BS, assumed
from pyvc.values import (NONE, Arr, B, ClassRef, Fn, I as IV, NoneV, Obj, PyDict, PyList, R, Str, Sym, SymList, Tup, Z, base_arr, fresh, skey,
                         to_int, to_real, uf)
from contracts.samples import arr_eq_goal

PICKLE = uf("pickle_bytes", Misc, Misc)          # bytes object produced by pickling a state (identity of the payload)


def fs(I):
    return I.path.ghost.setdefault("fs", {})


def mk_group(name="/"):
    return Obj("H5Group", {"members": PyDict({}), "name": Str(name), "attrs": PyDict({}), "open": B(True)})


def group_path(I, g, path, create=False, node=None):
    cur = g
    for part in [p for p in path.split("/") if p]:
        mem = cur.f["members"].d
        if part not in mem:
            if not create:
                I.implicit_exception(False, "KeyError", node)
                raise PathEnd()
            mem[part] = mk_group(part)
        cur = mem[part]
    return cur


def install(reg):
    H = reg.register

    def open_file(I, a, k, n):
        assumed(I, "h5py.File(path, mode): the same path names the same file contents across opens; mode 'a' creates if missing, 'r' requires existence")
        path, mode = a[0], (a[1] if len(a) > 1 else k.get("mode", Str("r")))
        key = skey(path)
        files = fs(I)
        if key not in files:
            if mode.v == "r":
                raise RaiseSig("OSError", n)
            files[key] = mk_group("/")
        root = files[key]
        h = Obj("H5File", {"root": root, "mode": mode, "closed": B(False), "path": path})
        I.path.event("h5.open", key, mode.v, h)
        return h

    reg.handlers["AspireFile.__new__"] = open_file
    reg.handlers["h5py.File"] = open_file

    @H("H5File.__enter__")
    def f_enter(I, a, k, n):
        return a[0]

    @H("H5File.__exit__")
    def f_exit(I, a, k, n):
        a[0].f["closed"] = B(True)
        I.path.event("h5.close", skey(a[0].f["path"]), a[0])
        return NONE

    def as_group(o):
        return o.f["root"] if o.cls == "H5File" else o

    for cls in ("H5File", "H5Group"):
        @H(f"{cls}.require_group")
        def require_group(I, a, k, n):
            return group_path(I, as_group(a[0]), a[1].v, create=True, node=n)

        @H(f"{cls}.create_group")
        def create_group(I, a, k, n):
            g = as_group(a[0])
            parts = [p for p in a[1].v.split("/") if p]
            parent = group_path(I, g, "/".join(parts[:-1]), create=True, node=n)
            if parts[-1] in parent.f["members"].d:
                I.implicit_exception(False, "ValueError", n)     # name already exists
                raise PathEnd()
            ng = mk_group(parts[-1])
            parent.f["members"].d[parts[-1]] = ng
            return ng

        @H(f"{cls}.__contains__")
        def contains(I, a, k, n):
            g = as_group(a[0])
            cur = g
            for part in [p for p in a[1].v.split("/") if p]:
                if cur.cls != "H5Group" or part not in cur.f["members"].d:
                    return B(False)
                cur = cur.f["members"].d[part]
            return B(True)

        @H(f"{cls}.__getitem__")
        def getitem(I, a, k, n):
            g = as_group(a[0])
            cur = g
            for part in [p for p in a[1].v.split("/") if p]:
                if cur.cls != "H5Group" or part not in cur.f["members"].d:
                    I.implicit_exception(False, "KeyError", n)
                    raise PathEnd()
                cur = cur.f["members"].d[part]
            return cur

        @H(f"{cls}.__delitem__")
        def delitem(I, a, k, n):
            g = as_group(a[0])
            parts = [p for p in a[1].v.split("/") if p]
            parent = group_path(I, g, "/".join(parts[:-1]), node=n)
            if parts[-1] not in parent.f["members"].d:
                I.implicit_exception(False, "KeyError", n)
                raise PathEnd()
            del parent.f["members"].d[parts[-1]]
            I.path.event("h5.delete", a[1].v)
            return NONE

        @H(f"{cls}.create_dataset")
        def create_dataset(I, a, k, n):
            assumed(I, "h5py create_dataset(name, shape|data, maxshape, dtype): fails if the name exists; a new dataset has the given shape")
            g = as_group(a[0])
            name = a[1].v
            if name in g.f["members"].d:
                I.implicit_exception(False, "ValueError", n)
                raise PathEnd()
            if "data" in k:
                d = k["data"]
                ds = Obj("H5Dataset", {"shape0": IV(d.n) if isinstance(d, Arr) else IV(0), "data": d, "name": Str(name), "resizable": B(False)})
            else:
                sh = k["shape"]
                n0 = to_int(sh.items[0])
                ds = Obj("H5Dataset", {"shape0": IV(n0), "data": base_arr(fresh("uninit"), "int", n0), "name": Str(name),
                                       "resizable": B(not isinstance(k.get("maxshape", NONE), NoneV))})
            g.f["members"].d[name] = ds
            I.path.event("h5.create_dataset", name, ds)
            return ds

        @H(f"{cls}.items")
        def items(I, a, k, n):
            g = as_group(a[0])
            return PyList([Tup([Str(nm), v]) for nm, v in g.f["members"].d.items()])

        @H(f"{cls}.keys")
        def keys(I, a, k, n):
            return PyList([Str(nm) for nm in as_group(a[0]).f["members"].d])

    @H("H5Dataset.resize")
    def ds_resize(I, a, k, n):
        assumed(I, "Dataset.resize((n,)): allowed for resizable datasets; keeps the common prefix")
        ds, sh = a[0], a[1]
        I.implicit_exception(I.truth(ds.f["resizable"]), "TypeError", n)
        n1 = to_int(sh.items[0])
        old = ds.f["data"]
        ds.f["shape0"] = IV(n1)
        ds.f["data"] = Arr(n1, old.elem, old.at, f"resized({old.key},{z3.simplify(n1).sexpr()})")
        I.path.event("h5.resize", ds)
        return NONE

    @H("H5Dataset.__setitem__")
    def ds_setitem(I, a, k, n):
        assumed(I, "Dataset[:] = b requires len(b) == shape[0] (otherwise h5py raises: cannot broadcast)")
        ds, idx, v = a
        if not (isinstance(idx, tuple) and idx[0] == "slice" and isinstance(idx[1], NoneV) and isinstance(idx[3], NoneV)):
            raise Unsupported("dataset assignment other than [:] / [:k]")
        if isinstance(idx[2], NoneV):
            I.implicit_exception(v.n == to_int(ds.f["shape0"]), "TypeError[h5py cannot broadcast: length mismatch]", n)
            ds.f["data"] = v
        else:
            kk = to_int(idx[2])
            n0 = to_int(ds.f["shape0"])
            eff = z3.If(kk <= n0, kk, n0)
            I.implicit_exception(v.n == eff, "TypeError[h5py cannot broadcast: length mismatch]", n)
            old = ds.f["data"]
            ds.f["data"] = Arr(n0, old.elem, lambda i, _v=v.at, _o=old.at, _e=eff: z3.If(i < _e, _v(i), _o(i)), f"prefix({v.key},{old.key})")
        I.path.event("h5.write", ds, v)
        return NONE

    @H("H5Dataset.__getitem__")
    def ds_getitem(I, a, k, n):
        ds = a[0]
        d = ds.f["data"]
        if isinstance(d, Arr):
            return Arr(to_int(ds.f["shape0"]), d.elem, d.at, d.key, dict(d.meta, is_bytes_array=True))
        return d

    reg.obj_props["H5Dataset.shape"] = lambda I, o, n: Tup([o.f["shape0"]])
    reg.obj_props["H5Dataset.size"] = lambda I, o, n: o.f["shape0"]
    reg.obj_props["H5File.attrs"] = lambda I, o, n: o.f["root"].f["attrs"]
    reg.obj_props["Path.name"] = lambda I, o, n: o.f["name"]

    @H("arr.tobytes")
    def arr_tobytes(I, a, k, n):
        assumed(I, "ndarray.tobytes(): the bytes of the array in order")
        return a[0]

    # ---- BytesIO / pickle (assumed)
    def bytesio(I, a, k, n):
        return Obj("BytesIO", {"content": NONE, "pos": IV(0)})

    reg.handlers["BytesIO"] = bytesio
    reg.handlers["io.BytesIO"] = bytesio

    @H("BytesIO.seek")
    def bio_seek(I, a, k, n):
        assumed(I, "BytesIO: seek(k) moves the stream position; read() returns the bytes from the position to the end; writes advance the position")
        a[0].f["pos"] = a[1]
        return a[1]

    @H("BytesIO.read")
    def bio_read(I, a, k, n):
        c = a[0].f["content"]
        if isinstance(c, NoneV):
            raise Unsupported("read of empty BytesIO")
        pos = z3.simplify(to_int(a[0].f.get("pos", IV(0))))
        a[0].f["pos"] = IV(c.n)
        if z3.is_int_value(pos) and pos.as_long() == 0:
            return c
        # the bytes from the current position on (nothing when the position is at the end, as it is right after a write)
        rest = z3.If(c.n - pos >= 0, c.n - pos, 0)
        return Arr(rest, c.elem, lambda kk, _at=c.at, _p=pos: _at(kk + _p), f"tail({c.key},{pos})", dict(c.meta))

    def pickle_dump(I, a, k, n):
        assumed(I, "pickle.dump(state, fp): fp then holds pickle_bytes(state), a function of the state's value at the time of the call")
        state, fp = a[0], a[1]
        ident = Sym(PICKLE(z3.Const(f"state<{skey(state)}>", Misc)), "bytes", {"of": state})
        nb = z3.Int(fresh("nbytes"))
        I.path.assume(nb >= 1, check=False)
        arr = base_arr(fresh("pickled"), "int", nb, {"bytes_of": state, "ident": ident})
        fp.f["content"] = arr
        fp.f["pos"] = IV(nb)                       # the write leaves the position at the end of the stream
        I.path.event("pickle.dump", state, arr)
        return NONE

    reg.handlers["pickle.dump"] = pickle_dump

    def pickle_dumps(I, a, k, n):
        assumed(I, "pickle.dumps(state): pickle_bytes(state)")
        state = a[0]
        nb = z3.Int(fresh("nbytes"))
        I.path.assume(nb >= 1, check=False)
        arr = base_arr(fresh("pickled"), "int", nb, {"bytes_of": state})
        I.path.event("pickle.dumps", state, arr)
        return arr

    reg.handlers["pickle.dumps"] = pickle_dumps
    reg.consts["pickle.HIGHEST_PROTOCOL"] = IV(5)

    def frombuffer(I, a, k, n):
        assumed(I, "np.frombuffer(b, dtype='S1'): one array element per byte, same order")
        return a[0]

    reg.handlers["xp.frombuffer"] = frombuffer

    def path_ctor(I, a, k, n):
        p = a[0]
        if isinstance(p, Obj) and p.cls == "Path":
            return p
        return Obj("Path", {"s": p, "name": p if isinstance(p, Str) else Sym(z3.Const(f"name<{skey(p)}>", Misc), "str", {"of": p})})

    reg.handlers["Path"] = path_ctor
    reg.handlers["pathlib.Path"] = path_ctor

    # ---- plain files: open(path, mode) as a context manager; pickle.load of a file that is an HDF5 container is not a pickle stream
    def py_open(I, a, k, n):
        return Obj("PyFile", {"path": a[0], "mode": a[1] if len(a) > 1 else k.get("mode", Str("r"))})
    reg.handlers["open"] = py_open
    reg.handlers["PyFile.__enter__"] = lambda I, a, k, n: a[0]
    reg.handlers["PyFile.__exit__"] = lambda I, a, k, n: NONE

    def pyfile_read(I, a, k, n):
        f = a[0]
        pth = f.f["path"]
        key = skey(pth.f["s"]) if isinstance(pth, Obj) and pth.cls == "Path" else skey(pth)
        if key in fs(I):
            return Sym(z3.Const(fresh("raw_bytes_of_hdf5_file"), Misc), "bytes", {"hdf5_container": True})
        raise Unsupported(f"read() of a plain file whose contents are not modelled ({key})")
    reg.handlers["PyFile.read"] = pyfile_read

    def pickle_load(I, a, k, n):
        f = a[0]
        if isinstance(f, Obj) and f.cls == "PyFile":
            pth = f.f["path"]
            key = skey(pth.f["s"]) if isinstance(pth, Obj) and pth.cls == "Path" else skey(pth)
            if key in fs(I):
                assumed(I, "pickle.load of an HDF5 container raises UnpicklingError (an HDF5 file does not start with a pickle opcode)")
                raise RaiseSig("UnpicklingError", n)
        raise Unsupported(f"pickle.load from {f!r}")
    reg.handlers["pickle.load"] = pickle_load

    def path_suffix(I, o, n):
        nm = o.f.get("name")
        if isinstance(nm, Str):
            import pathlib
            return Str(pathlib.PurePosixPath(nm.v).suffix)        # exact for a concrete name (case preserved, as pathlib does)
        raise Unsupported("suffix of a path with a symbolic name")
    reg.obj_props["Path.suffix"] = path_suffix


class DumpPickleToHdf(Contract):
    qual = "utils:dump_pickle_to_hdf"
    properties = ("C12",)
    doc = ("after the call the dataset exists, its length is exactly len(bytes) and data[i] == bytes[i] for every i - whatever was "
           "stored before (absent, same length, shorter, longer): never truncated, never a stale suffix")

    def shapes(self):
        return [{"path": p, "exists": e} for p in (0, 1) for e in (0, 1)]

    def setup(self, I, shape):
        root = mk_group("/")
        tgt = root
        if shape["path"]:
            tgt = mk_group("checkpoint")
            root.f["members"].d["checkpoint"] = tgt
        old_n = z3.Int("old_len")
        I.path.assume(old_n >= 0)
        if shape["exists"]:
            tgt.f["members"].d["state"] = Obj("H5Dataset", {"shape0": IV(old_n), "data": base_arr("old_bytes", "int", old_n), "name": Str("state"), "resizable": B(True)})
        nb = z3.Int("n_bytes")
        I.path.assume(nb >= 0)
        payload = base_arr("payload_bytes", "int", nb)
        memfp = Obj("BytesIO", {"content": payload, "pos": IV(nb)})       # as handed over by dump_state: just written, position at the end
        fp = Obj("H5File", {"root": root, "mode": Str("a"), "closed": B(False), "path": Str("f.h5")})
        kw = {"path": Str("checkpoint") if shape["path"] else NONE, "dsetname": Str("state")}
        return Pre(None, [memfp, fp], kw, ghost={"tgt": tgt, "payload": payload, "nb": nb})

    def post(self, I, pre, r):
        p, g = I.path, pre.ghost
        q = self.qual
        ds = g["tgt"].f["members"].d.get("state")
        p.prove(z3.BoolVal(ds is not None and ds.cls == "H5Dataset"), f"{q}:C12:dataset exists after the call")
        if ds is None:
            return
        p.prove(to_int(ds.f["shape0"]) == g["nb"], f"{q}:C12:stored length is exactly the payload length (no truncation, no stale suffix)")
        d = ds.f["data"]
        stored = Arr(to_int(ds.f["shape0"]), d.elem, d.at, d.key)
        p.prove(arr_eq_goal(stored, g["payload"]), f"{q}:C12:stored bytes are byte-for-byte the payload")

    def canaries(self, I, pre, r):
        g = pre.ghost
        return [("payload empty (must be refutable)", g["nb"] == 0)]


from contracts.smc_base import DefaultFileCheckpointCallbackModel  # noqa: E402


class FileCheckpointCallback(DefaultFileCheckpointCallbackModel):
    qual = "samplers.base:Sampler.default_file_checkpoint_callback"
    properties = ("C12", "C11")
    raises = {"ValueError": "file name does not end in .h5/.hdf5"}
    doc = ("file_path None -> the in-memory callback.  Otherwise the returned callback, called with a state: opens the file in append mode, "
           "stores pickle(state) byte-for-byte under checkpoint/state, closes the file (also on error), then records state and bytes in memory")

    def shapes(self):
        return [{"path": "none"}, {"path": "h5", "exists": 0}, {"path": "h5", "exists": 1}, {"path": "txt"}]

    def setup(self, I, shape):
        s = Obj("Sampler", {"_last_checkpoint_state": NONE, "_last_checkpoint_bytes": NONE})
        if shape["path"] == "none":
            fp = NONE
        else:
            fp = Str("run.h5" if shape["path"] == "h5" else "run.txt")
        if shape.get("exists"):
            root = mk_group("/")
            ck = mk_group("checkpoint")
            old_n = z3.Int("old_len")
            I.path.assume(old_n >= 0)
            ck.f["members"].d["state"] = Obj("H5Dataset", {"shape0": IV(old_n), "data": base_arr("old_bytes", "int", old_n), "name": Str("state"), "resizable": B(True)})
            root.f["members"].d["checkpoint"] = ck
            root.f["members"].d["flow"] = mk_group("flow")
            fs(I)[skey(Obj("Path", {}))] = root
            I.path.ghost["preexisting_root"] = root
        return Pre(s, [fp], ghost={"s": s, "shape": shape, "fp": fp})

    def post(self, I, pre, cb):
        p, g = I.path, pre.ghost
        q = self.qual
        s = g["s"]
        sh = g["shape"]
        if sh["path"] == "txt":
            p.prove(z3.BoolVal(False), f"{q}:C12:a non-HDF5 file name must be rejected")
            return
        state = Obj("ckstate", {"iteration": IV(z3.Int("it")), "tag": Str("payload")})
        # pre-existing file content lives under the key of the Path object the code builds: bind lazily
        if "preexisting_root" in p.ghost:
            files = fs(I)
            files.clear()
            files["__pre__"] = p.ghost["preexisting_root"]
            orig_open = I.reg.handlers["AspireFile.__new__"]

            def open_pre(I2, a, k, n, _o=orig_open):
                key = skey(a[0])
                f = fs(I2)
                if key not in f and "__pre__" in f:
                    f[key] = f.pop("__pre__")
                return _o(I2, a, k, n)
            I.reg.handlers["AspireFile.__new__"] = open_pre
        ev0 = len(p.events)
        try:
            I.call(cb, [state], {}, None)
        finally:
            if "preexisting_root" in p.ghost:
                I.reg.handlers["AspireFile.__new__"] = orig_open
        ev = p.events[ev0:]
        p.prove(z3.BoolVal(s.f["_last_checkpoint_state"] is state), f"{q}:C11:the latest state is kept in memory")
        p.prove(z3.BoolVal(isinstance(s.f["_last_checkpoint_bytes"], Arr) and s.f["_last_checkpoint_bytes"].meta.get("bytes_of") is state),
                f"{q}:C11:the in-memory bytes are the pickle of that state")
        if sh["path"] == "none":
            p.prove(z3.BoolVal(not any(e[0] == "h5.open" for e in ev)), f"{q}:C12:no file is touched without a file path")
            return
        opens = [e for e in ev if e[0] == "h5.open"]
        closes = [e for e in ev if e[0] == "h5.close"]
        p.prove(z3.BoolVal(len(opens) == 1 and opens[0][2] == "a"), f"{q}:C12:the file is opened once, in append mode (existing config and flow are kept)")
        p.prove(z3.BoolVal(len(closes) == 1), f"{q}:C12:the file is closed after the write")
        if len(opens) != 1:
            return
        root = opens[0][3].f["root"]
        ck = root.f["members"].d.get("checkpoint")
        ok = ck is not None and "state" in ck.f["members"].d
        p.prove(z3.BoolVal(ok), f"{q}:C12:payload stored under checkpoint/state (the names the resume route reads)")
        if ok:
            ds = ck.f["members"].d["state"]
            d = ds.f["data"]
            dumped = [e for e in ev if e[0] == "pickle.dump"]
            p.prove(z3.BoolVal(len(dumped) == 1 and dumped[0][1] is state), f"{q}:C12:exactly the state handed to the callback is pickled")
            if dumped:
                stored = Arr(to_int(ds.f["shape0"]), d.elem, d.at, d.key)
                p.prove(arr_eq_goal(stored, dumped[0][2]), f"{q}:C12:file holds byte-for-byte the pickled payload (right length, right bytes)")
        if sh.get("exists"):
            p.prove(z3.BoolVal("flow" in root.f["members"].d), f"{q}:C12:other groups of the file (flow, config) are left in place")
