"""C04 / C03 structural half: CompositeTransform wires bounds, masks and sub-transforms consistently (z3 over literal arrays)."""
from __future__ import annotations

import itertools

import z3

from pyvc.contracts import Contract, Pre
from pyvc.engine import PathEnd, RaiseSig, Unsupported
from pyvc.lib import Misc, RS, assumed
from pyvc.values import (NONE, Arr, B, ClassRef, Fn, I as IV, Mod, NoneV, Obj, PyDict, PyList, R, Str, Sym, Tup, Z, base_arr, fresh, skey, to_int, to_real, uf)

PARAMS = ["p0", "p1", "p2"]


class CompositeInit(Contract):
    qual = "transforms:CompositeTransform.__init__"
    properties = ("C04", "C03")
    raises = {"ValueError": "periodic parameters without prior bounds / unknown bounded transform / zero-width interval"}
    doc = ("for every parameter (in `parameters` order) the sub-transform that handles its column is built with that parameter's own bounds: the periodic "
           "transform's lower/upper are the bounds of the periodic columns in column order, the bounded transform's those of the bounded columns; the two masks "
           "are disjoint and follow `parameters`; independent of the order of `periodic_parameters` and of the prior_bounds mapping")
    inline_depth = 8

    def shapes(self):
        out = []
        for per in ([], ["p0"], ["p1"], ["p2", "p0"], ["p0", "p2"]):
            for order in ("same", "reversed"):
                for b2u in (1, 0):
                    for bt in ("logit", "probit"):
                        if not b2u and bt == "probit":
                            continue
                        out.append({"periodic": per, "bounds_order": order, "b2u": b2u, "bt": bt, "affine": 1 if per == [] else 0})
        return out

    def setup(self, I, shape):
        p = I.path
        lo = {nm: z3.Real(f"lo_{nm}") for nm in PARAMS}
        hi = {nm: z3.Real(f"hi_{nm}") for nm in PARAMS}
        for nm in PARAMS:
            p.assume(lo[nm] < hi[nm])
        keys = PARAMS if shape["bounds_order"] == "same" else list(reversed(PARAMS))
        bounds = PyDict({nm: PyList([R(lo[nm]), R(hi[nm])]) for nm in keys})
        # all bounds finite (isfinite of a finite real): assumed fact about the uninterpreted predicate
        from pyvc.lib import ISFINITE
        for nm in PARAMS:
            p.assume(z3.And(ISFINITE(lo[nm]), ISFINITE(hi[nm])), check=False)
        o = Obj("CompositeTransform", {})
        kw = {"parameters": PyList([Str(x) for x in PARAMS]), "periodic_parameters": PyList([Str(x) for x in shape["periodic"]]), "prior_bounds": bounds,
              "bounded_to_unbounded": B(bool(shape["b2u"])), "bounded_transform": Str(shape["bt"]), "affine_transform": B(bool(shape["affine"])),
              "xp": Mod("xp"), "dtype": NONE}
        return Pre(o, [], kw, ghost={"o": o, "lo": lo, "hi": hi, "shape": shape})

    def post(self, I, pre, r):
        p, g = I.path, pre.ghost
        q = self.qual
        o, sh = g["o"], g["shape"]
        lo, hi = g["lo"], g["hi"]
        tag = f"[periodic={sh['periodic']}, bounds given in {sh['bounds_order']} order, bounded_to_unbounded={bool(sh['b2u'])}]"
        per_cols = [nm for nm in PARAMS if nm in sh["periodic"]]
        bnd_cols = [nm for nm in PARAMS if nm not in sh["periodic"]] if sh["b2u"] else []

        def lit(v):
            return v.meta.get("lit") if isinstance(v, Arr) else None

        def check_sub(attr, cols, what):
            t = o.f.get(attr)
            if not cols:
                return
            ok = isinstance(t, Obj)
            p.prove(z3.BoolVal(ok), f"{q}:C04:{what} transform built {tag}")
            if not ok:
                return
            L, U = lit(t.f.get("lower")), lit(t.f.get("upper"))
            okl = L is not None and U is not None and len(L) == len(cols) == len(U)
            p.prove(z3.BoolVal(okl), f"{q}:C04:{what} transform has one (lower, upper) pair per {what} column {tag}")
            if okl:
                for j, nm in enumerate(cols):
                    p.prove(z3.And(L[j] == lo[nm], U[j] == hi[nm]), f"{q}:C04:C03:{what} column #{j} ('{nm}' in parameter order) is handled with the bounds of '{nm}' {tag}")
        check_sub("_periodic_transform", per_cols, "periodic")
        check_sub("_bounded_transform", bnd_cols, "bounded")
        for attr, cols in (("periodic_mask", per_cols), ("bounded_mask", bnd_cols)):
            if not cols:
                continue
            m = lit(o.f.get(attr))
            ok = m is not None and len(m) == len(PARAMS)
            p.prove(z3.BoolVal(ok), f"{q}:C04:{attr} has one entry per parameter {tag}")
            if ok:
                p.prove(z3.And([mm == z3.BoolVal(nm in cols) for mm, nm in zip(m, PARAMS)]), f"{q}:C04:{attr} marks exactly the {attr.split('_')[0]} columns, in parameter order {tag}")
        if per_cols and bnd_cols:
            p.prove(z3.BoolVal(not (set(per_cols) & set(bnd_cols))), f"{q}:C04:periodic and bounded columns are disjoint {tag}")
            bp = o.f.get("bounded_parameters")
            p.prove(z3.BoolVal(isinstance(bp, PyList) and [v.v for v in bp.items] == bnd_cols), f"{q}:C04:bounded parameters exclude the periodic ones {tag}")
        if sh["bt"] == "probit" and bnd_cols:
            p.prove(z3.BoolVal(o.f["_bounded_transform"].cls == "ProbitTransform"), f"{q}:C04:requested bounded transform class {tag}")
        if sh["bt"] == "logit" and bnd_cols:
            p.prove(z3.BoolVal(o.f["_bounded_transform"].cls == "LogitTransform"), f"{q}:C04:requested bounded transform class {tag}")
