"""C04 / C03 structural half: CompositeTransform wires bounds, masks and sub-transforms consistently (z3 over literal arrays)."""
from __future__ import annotations

import itertools

import z3

from pyvc.contracts import Contract, Pre
from pyvc.engine import PathEnd, RaiseSig, Unsupported
from pyvc.lib import Misc, RS, assumed
from pyvc.values import (NONE, Arr, B, ClassRef, Fn, I as IV, Mod, NoneV, Obj, PyDict, PyList, R, Str, Sym, Tup, Z, base_arr, fresh, skey, to_int, to_real, uf)

PARAMS = ["p0", "p1", "p2"]


class CompositeInit(Contract):
    def must_return(self, shape):
        return True

    qual = "transforms:CompositeTransform.__init__"
    properties = ("C04", "C03")
    raises = {"ValueError": "periodic parameters without prior bounds / unknown bounded transform / zero-width interval"}
    doc = ("for every parameter (in `parameters` order) the sub-transform that handles its column is built with that parameter's own bounds: the periodic "
           "transform's lower/upper are the bounds of the periodic columns in column order, the bounded transform's those of the bounded columns; the two masks "
           "are disjoint and follow `parameters`; independent of the order of `periodic_parameters` and of the prior_bounds mapping")
    inline_depth = 8

    def shapes(self):
        out = []
        for per in ([], ["p0"], ["p1"], ["p2", "p0"], ["p0", "p2"]):
            for order in ("same", "reversed"):
                for b2u in (1, 0):
                    for bt in ("logit", "probit"):
                        if not b2u and bt == "probit":
                            continue
                        out.append({"periodic": per, "bounds_order": order, "b2u": b2u, "bt": bt, "affine": 1 if per == [] else 0})
        # no prior bounds at all: nothing periodic, nothing bounded; affine on / off
        for affine in (1, 0):
            out.append({"periodic": [], "bounds_order": "none", "b2u": 1, "bt": "logit", "affine": affine})
        out.append({"periodic": ["p1"], "bounds_order": "same", "b2u": 1, "bt": "probit", "affine": 1})
        return out

    def post_raise(self, I, pre, sig):
        # every shape is a valid combination of arguments: nothing may be raised for it
        sh = pre.ghost["shape"]
        I.path.prove(z3.BoolVal(False), f"{self.qual}:C04:a valid combination of arguments is accepted [{sig.exc}; periodic={sh['periodic']}, bounds {sh['bounds_order']}, {sh['bt']}]", assume_after=False)

    def setup(self, I, shape):
        p = I.path
        lo = {nm: z3.Real(f"lo_{nm}") for nm in PARAMS}
        hi = {nm: z3.Real(f"hi_{nm}") for nm in PARAMS}
        for nm in PARAMS:
            p.assume(lo[nm] < hi[nm])
        keys = PARAMS if shape["bounds_order"] in ("same", "none") else list(reversed(PARAMS))
        bounds = PyDict({nm: PyList([R(lo[nm]), R(hi[nm])]) for nm in keys}) if shape["bounds_order"] != "none" else NONE
        # all bounds finite (isfinite of a finite real): assumed fact about the uninterpreted predicate
        from pyvc.lib import ISFINITE
        for nm in PARAMS:
            p.assume(z3.And(ISFINITE(lo[nm]), ISFINITE(hi[nm])), check=False)
        o = Obj("CompositeTransform", {})
        kw = {"parameters": PyList([Str(x) for x in PARAMS]), "periodic_parameters": PyList([Str(x) for x in shape["periodic"]]), "prior_bounds": bounds,
              "bounded_to_unbounded": B(bool(shape["b2u"])), "bounded_transform": Str(shape["bt"]), "affine_transform": B(bool(shape["affine"])),
              "xp": Mod("xp"), "dtype": NONE}
        return Pre(o, [], kw, ghost={"o": o, "lo": lo, "hi": hi, "shape": shape})

    def post(self, I, pre, r):
        p, g = I.path, pre.ghost
        q = self.qual
        o, sh = g["o"], g["shape"]
        lo, hi = g["lo"], g["hi"]
        tag = f"[periodic={sh['periodic']}, bounds given in {sh['bounds_order']} order, bounded_to_unbounded={bool(sh['b2u'])}]"
        per_cols = [nm for nm in PARAMS if nm in sh["periodic"]]
        bnd_cols = [nm for nm in PARAMS if nm not in sh["periodic"]] if (sh["b2u"] and sh["bounds_order"] != "none") else []
        # the settings the other methods (and config_dict / new_instance) read are stored as given
        for attr, want in (("parameters", pre.kwargs["parameters"]), ("bounded_to_unbounded", pre.kwargs["bounded_to_unbounded"]), ("bounded_transform", pre.kwargs["bounded_transform"]),
                           ("affine_transform", pre.kwargs["affine_transform"])):
            got = o.f.get(attr)
            p.prove(z3.BoolVal(got is want) if not isinstance(want, (Z, Str)) else I.equal(got, want) if got is not None else z3.BoolVal(False),
                    f"{q}:C04:C13:attribute {attr} holds the constructor argument {tag}")
        p.prove(z3.BoolVal("device" in o.f and "eps" in o.f), f"{q}:C04:C13:device and eps are stored {tag}")
        pp = o.f.get("periodic_parameters")
        p.prove(z3.BoolVal(isinstance(pp, PyList) and [v.v for v in pp.items] == list(sh["periodic"])), f"{q}:C04:periodic_parameters is the list given (empty list when none) {tag}")
        at = o.f.get("_affine_transform")
        p.prove(z3.BoolVal((isinstance(at, Obj) and at.cls == "AffineTransform") if sh["affine"] else isinstance(at, NoneV)),
                f"{q}:C04:an AffineTransform is created exactly when affine_transform is requested {tag}")
        if not per_cols:
            p.prove(z3.BoolVal("_periodic_transform" not in o.f or isinstance(o.f["_periodic_transform"], NoneV)), f"{q}:C04:no periodic transform without periodic parameters {tag}")
        if not bnd_cols:
            bp = o.f.get("bounded_parameters")
            p.prove(z3.BoolVal(isinstance(bp, NoneV) or (isinstance(bp, PyList) and not bp.items)), f"{q}:C04:no bounded parameters without bounds / when not requested {tag}")

        def lit(v):
            return v.meta.get("lit") if isinstance(v, Arr) else None

        def check_sub(attr, cols, what):
            t = o.f.get(attr)
            if not cols:
                return
            ok = isinstance(t, Obj)
            p.prove(z3.BoolVal(ok), f"{q}:C04:{what} transform built {tag}")
            if not ok:
                return
            L, U = lit(t.f.get("lower")), lit(t.f.get("upper"))
            okl = L is not None and U is not None and len(L) == len(cols) == len(U)
            p.prove(z3.BoolVal(okl), f"{q}:C04:{what} transform has one (lower, upper) pair per {what} column {tag}")
            if okl:
                for j, nm in enumerate(cols):
                    p.prove(z3.And(L[j] == lo[nm], U[j] == hi[nm]), f"{q}:C04:C03:{what} column #{j} ('{nm}' in parameter order) is handled with the bounds of '{nm}' {tag}")
        check_sub("_periodic_transform", per_cols, "periodic")
        check_sub("_bounded_transform", bnd_cols, "bounded")
        for attr, cols in (("periodic_mask", per_cols), ("bounded_mask", bnd_cols)):
            if not cols:
                continue
            m = lit(o.f.get(attr))
            ok = m is not None and len(m) == len(PARAMS)
            p.prove(z3.BoolVal(ok), f"{q}:C04:{attr} has one entry per parameter {tag}")
            if ok:
                p.prove(z3.And([mm == z3.BoolVal(nm in cols) for mm, nm in zip(m, PARAMS)]), f"{q}:C04:{attr} marks exactly the {attr.split('_')[0]} columns, in parameter order {tag}")
        if per_cols and bnd_cols:
            p.prove(z3.BoolVal(not (set(per_cols) & set(bnd_cols))), f"{q}:C04:periodic and bounded columns are disjoint {tag}")
            bp = o.f.get("bounded_parameters")
            p.prove(z3.BoolVal(isinstance(bp, PyList) and [v.v for v in bp.items] == bnd_cols), f"{q}:C04:bounded parameters exclude the periodic ones {tag}")
        if sh["bt"] == "probit" and bnd_cols:
            p.prove(z3.BoolVal(o.f["_bounded_transform"].cls == "ProbitTransform"), f"{q}:C04:requested bounded transform class {tag}")
        if sh["bt"] == "logit" and bnd_cols:
            p.prove(z3.BoolVal(o.f["_bounded_transform"].cls == "LogitTransform"), f"{q}:C04:requested bounded transform class {tag}")


# ------------------------------------------------------------------------------------------------------------------
# CompositeTransform.forward / inverse / fit against spec compositions, and the round-trip lemma over the spec
# ------------------------------------------------------------------------------------------------------------------
from pyvc.values import Row  # noqa: E402

RSORT = z3.RealSort()
COLSEL = uf("colsel", Row, Misc, Row)                 # same symbols as pyvc.lib (x[..., mask], update_at_indices(x, (slice(None), mask), y))
SETCOLS = uf("setcols", Row, Misc, Row, Row)
PART = {}
for _p in ("P", "B", "A"):
    PART[_p] = {"fwd": uf(f"part{_p}_forward", Row, Row), "inv": uf(f"part{_p}_inverse", Row, Row),
                "ljf": uf(f"part{_p}_forward_logj", Row, RSORT), "lji": uf(f"part{_p}_inverse_logj", Row, RSORT)}


def _mask(name):
    return Sym(z3.Const(name, Misc), "mask")


def _mask_const(m):
    return z3.Const(f"mask<{skey(m)}>", Misc)


def spec_forward(r, on, pm, bm):
    """periodic -> bounded -> affine on the masked columns; log-Jacobian = sum of the parts'"""
    lj = z3.RealVal(0)
    if on["P"]:
        c = COLSEL(r, pm)
        lj = lj + PART["P"]["ljf"](c)
        r = SETCOLS(r, pm, PART["P"]["fwd"](c))
    if on["B"]:
        c = COLSEL(r, bm)
        lj = lj + PART["B"]["ljf"](c)
        r = SETCOLS(r, bm, PART["B"]["fwd"](c))
    if on["A"]:
        lj = lj + PART["A"]["ljf"](r)
        r = PART["A"]["fwd"](r)
    return r, lj


def spec_inverse(r, on, pm, bm):
    """the inverses in the reverse order: affine -> bounded -> periodic"""
    lj = z3.RealVal(0)
    if on["A"]:
        lj = lj + PART["A"]["lji"](r)
        r = PART["A"]["inv"](r)
    if on["B"]:
        c = COLSEL(r, bm)
        lj = lj + PART["B"]["lji"](c)
        r = SETCOLS(r, bm, PART["B"]["inv"](c))
    if on["P"]:
        c = COLSEL(r, pm)
        lj = lj + PART["P"]["lji"](c)
        r = SETCOLS(r, pm, PART["P"]["inv"](c))
    return r, lj


def _install_parts(I):
    def mk(pn, which):
        def h(I2, a, k, n):
            x = a[1] if isinstance(a[0], Obj) else a[0]
            if not (isinstance(x, Arr) and x.elem == "row"):
                raise Unsupported(f"part transform applied to {x!r}")
            I2.path.event(f"part.{which}", pn, x)
            f = PART[pn]["fwd" if which in ("forward", "fit") else "inv"]
            rows = Arr(x.n, "row", lambda kk, _at=x.at, _f=f: _f(_at(kk)), f"part{pn}.{which}({x.key})", x.meta)
            if which == "fit":
                return rows
            g = PART[pn]["ljf" if which == "forward" else "lji"]
            return Tup([rows, Arr(x.n, "real", lambda kk, _at=x.at, _g=g: _g(_at(kk)), f"part{pn}.{which}.logj({x.key})")])
        return h
    for pn in ("P", "B", "A"):
        for which in ("forward", "inverse", "fit"):
            I.reg.handlers[f"PartStub{pn}.{which}"] = mk(pn, which)


class _CompositeApply(Contract):
    def must_return(self, shape):
        return True

    properties = ("C04", "C03")
    which = "forward"
    inline_depth = 8

    def shapes(self):
        out = [{"P": p, "B": b, "A": a} for p in (0, 1) for b in (0, 1) for a in (0, 1)]
        # a single un-batched point of shape (D,) (what flow.log_prob / a kernel hands over for one state): treated as a batch of one row
        out += [{"P": 1, "B": 1, "A": a, "point": 1} for a in (0, 1)]
        return out

    def setup(self, I, shape):
        _install_parts(I)
        if shape.get("point") and self.which == "fit":
            shape = dict(shape, point=0)
        assumed(I, "part transforms (periodic / bounded / affine) are row-wise maps: forward -> (FWD(row), LJF(row)), inverse -> (INV(row), LJI(row)), fit(x) = forward(x)[0] "
                   "(their own bodies are the subject of the Lean theorems and of the PartFit contracts)")
        n = z3.Int("n_rows")
        I.path.assume(n >= 1)
        xdt = Sym(z3.Const("dtype_of_x", Misc), "dtype")
        x = base_arr("x_in", "row", n, {"dtype": xdt})
        if shape.get("point"):
            D = z3.Int("n_dims")
            I.path.assume(D >= 2)
            x = base_arr("x_point", "real", D, {"dtype": xdt, "single_point": True})
        pm, bm = _mask("periodic_mask"), _mask("bounded_mask")
        o = Obj("CompositeTransform", {
            "xp": Mod("xp"), "device": NONE, "dtype": NONE,
            "periodic_parameters": PyList([Str("p0")] if shape["P"] else []),
            "bounded_parameters": (PyList([Str("p1")]) if shape["B"] else (NONE if I.path.choose(2, "bounded-none-or-empty") == 0 else PyList([]))),
            "affine_transform": B(bool(shape["A"])),
            "periodic_mask": pm, "bounded_mask": bm,
            "_periodic_transform": Obj("PartStubP", {}) if shape["P"] else NONE,
            "_bounded_transform": Obj("PartStubB", {}) if shape["B"] else NONE,
            "_affine_transform": Obj("PartStubA", {}) if shape["A"] else NONE,
        })
        if not shape["P"]:
            o.absent.update({"periodic_mask", "_periodic_transform"})
            o.f.pop("periodic_mask"), o.f.pop("_periodic_transform")
        if not shape["B"]:
            o.absent.update({"bounded_mask", "_bounded_transform"})
            o.f.pop("bounded_mask"), o.f.pop("_bounded_transform")
        if shape.get("point"):
            row = z3.Const(f"row_of<{x.key}>", Row)
            return Pre(o, [x], {}, ghost={"x": x, "x_at": (lambda kk, _r=row: _r), "pm": _mask_const(pm), "bm": _mask_const(bm), "shape": shape, "n": z3.IntVal(1), "xdt": xdt, "point": True})
        return Pre(o, [x], {}, ghost={"x": x, "x_at": x.at, "pm": _mask_const(pm), "bm": _mask_const(bm), "shape": shape, "n": n, "xdt": xdt})

    def post(self, I, pre, r):
        p, g = I.path, pre.ghost
        q, sh = self.qual, g["shape"]
        tag = f"[periodic {'on' if sh['P'] else 'off'}, bounded {'on' if sh['B'] else 'off'}, affine {'on' if sh['A'] else 'off'}{', a single un-batched point' if g.get('point') else ''}]"
        i = z3.Int(fresh("row"))
        p.assume(z3.And(i >= 0, i < g["n"]), check=False)
        spec = spec_forward if self.which in ("forward", "fit") else spec_inverse
        want_r, want_lj = spec(g["x_at"](i), sh, g["pm"], g["bm"])
        if self.which == "fit":
            ok = isinstance(r, Arr) and r.elem == "row"
            p.prove(z3.BoolVal(ok), f"{q}:C04:returns the transformed rows {tag}")
            if ok:
                p.prove(r.n == g["n"], f"{q}:C04:one output row per input row {tag}")
                p.prove(r.at(i) == want_r, f"{q}:C04:fit(x) is forward(x)[0]: periodic, then bounded, then affine on their own columns {tag}")
            p.prove(g["x"].at(i) == g["x_at"](i), f"{q}:C04:C10:C11:the input array is left unchanged (fitting the preconditioning must not move the population it is fitted to - a resumed run fits it on the restored population) {tag}")
            return
        ok = isinstance(r, Tup) and len(r.items) == 2 and isinstance(r.items[0], Arr) and r.items[0].elem == "row" and isinstance(r.items[1], Arr)
        p.prove(z3.BoolVal(ok), f"{q}:C04:returns (rows, log|det J| per row) {tag}")
        if not ok:
            return
        y, lj = r.items
        order = "periodic, then bounded, then affine" if self.which == "forward" else "affine^-1, then bounded^-1, then periodic^-1"
        p.prove(z3.And(y.n == g["n"], lj.n == g["n"]), f"{q}:C04:one output row and one log-Jacobian per input row {tag}")
        p.prove(y.at(i) == want_r, f"{q}:C04:C03:{self.which} applies {order}, each on its own columns {tag}")
        p.prove(lj.at(i) == want_lj, f"{q}:C04:C03:log-Jacobian of {self.which} is the sum of the applied parts' log-Jacobians, each evaluated where that part was applied {tag}")
        # frame: the caller's array is not modified (the method works on a copy)
        if not g.get("point"):
            p.prove(g["x"].at(i) == g["x_at"](i), f"{q}:C04:C05:the input array is left unchanged (a kernel that holds z next to the log-density it was given must still hold that z) {tag}")
        allocs = [e for e in p.events if e[0] == "alloc"]
        p.prove(z3.BoolVal(all(isinstance(e[2], Sym) and e[2].e.eq(g["xdt"].e) for e in allocs)),
                f"{q}:C04:C15:the accumulator of the log-Jacobian is allocated in the floating-point width of the data (not the namespace default) {tag}")


class CompositeForward(_CompositeApply):
    qual = "transforms:CompositeTransform.forward"
    which = "forward"
    doc = "forward(x) = affine(bounded^(periodic^(x))) with ^ = applied on the masked columns only; log-Jacobian = sum of the parts'; x itself untouched"


class CompositeInverse(_CompositeApply):
    qual = "transforms:CompositeTransform.inverse"
    which = "inverse"
    doc = "inverse(z) applies the parts' inverses in the reverse order on the same columns; log-Jacobian = sum of the parts' inverse log-Jacobians"


class CompositeFit(_CompositeApply):
    qual = "transforms:CompositeTransform.fit"
    which = "fit"
    doc = "fit(x) returns the rows forward(x) returns"


def composite_roundtrip_lemma():
    """Lemma over the *spec* compositions only (no code): under the parts' round-trip contracts and the column-selection laws,
    spec_inverse(spec_forward(r)) = r, its log-Jacobian is the negative of the forward one, and symmetrically for forward after inverse.
    Quantified axioms are used here and only here: the lemma is expected `unsat`; anything else is reported as undecided, never as a violation."""
    out = []
    r, y, y2 = z3.Consts("r y y2", Row)
    pm, bm = z3.Consts("lemma_pm lemma_bm", Misc)
    ax = []
    for m in (pm, bm):
        ax += [z3.ForAll([r, y], COLSEL(SETCOLS(r, m, y), m) == y), z3.ForAll([r, y, y2], SETCOLS(SETCOLS(r, m, y), m, y2) == SETCOLS(r, m, y2)),
               z3.ForAll([r], SETCOLS(r, m, COLSEL(r, m)) == r)]
    # disjoint masks (proved for __init__: bounded parameters exclude the periodic ones)
    for m, m2 in ((pm, bm), (bm, pm)):
        ax.append(z3.ForAll([r, y], COLSEL(SETCOLS(r, m, y), m2) == COLSEL(r, m2)))
    for pn in ("P", "B", "A"):
        f = PART[pn]
        ax += [z3.ForAll([r], f["inv"](f["fwd"](r)) == r), z3.ForAll([r], f["fwd"](f["inv"](r)) == r),
               z3.ForAll([r], f["lji"](f["fwd"](r)) == -f["ljf"](r)), z3.ForAll([r], f["ljf"](f["inv"](r)) == -f["lji"](r))]
    x = z3.Const("lemma_x", Row)
    for P_ in (0, 1):
        for B_ in (0, 1):
            for A_ in (0, 1):
                on = {"P": P_, "B": B_, "A": A_}
                tag = f"[periodic {'on' if P_ else 'off'}, bounded {'on' if B_ else 'off'}, affine {'on' if A_ else 'off'}]"
                fr, fl = spec_forward(x, on, pm, bm)
                br, bl = spec_inverse(fr, on, pm, bm)
                ir, il = spec_inverse(x, on, pm, bm)
                jr, jl = spec_forward(ir, on, pm, bm)
                for nm, goal in ((f"inverse(forward(x)) = x {tag}", br == x), (f"log-Jacobian of inverse at forward(x) = -log-Jacobian of forward at x {tag}", bl == -fl),
                                 (f"forward(inverse(z)) = z {tag}", jr == x), (f"log-Jacobian of forward at inverse(z) = -log-Jacobian of inverse at z {tag}", jl == -il)):
                    s = z3.Solver()
                    s.set("timeout", 20000)
                    s.add(ax)
                    s.add(z3.Not(goal))
                    t0 = __import__("time").time()
                    res = s.check()
                    out.append({"name": f"lemma:C04:C03:composition of the verified parts: {nm}", "verdict": "proved" if res == z3.unsat else "unknown",
                                "backend": "z3 (quantified lemma over spec functions)", "ms": 1000 * (__import__("time").time() - t0), "kind": "lemma",
                                "function": "spec_forward/spec_inverse (contracts/transforms.py)"})
    return out


class _PartFit(Contract):
    """fit(x) of an element-wise part returns what forward(x) returns as rows (the assumption the composition contracts make about parts)"""
    properties = ("C04",)
    cls = ""
    doc = "fit(x) == forward(x)[0]; forward called once, on x"

    def setup(self, I, shape):
        _install_parts(I)
        n = z3.Int("n_rows")
        I.path.assume(n >= 1)
        x = base_arr("x_in", "row", n)
        o = Obj(self.cls, {"xp": Mod("xp")})
        o.f["forward"] = Fn(lambda I2, a, k, nn, _h=I.reg.handlers["PartStubP.forward"]: _h(I2, [o] + list(a), k, nn), f"{self.cls}.forward(stub)")
        return Pre(o, [x], {}, ghost={"x": x, "n": n})

    def post(self, I, pre, r):
        p, g = I.path, pre.ghost
        q = self.qual
        calls = [e for e in p.events if e[0] == "part.forward"]
        p.prove(z3.BoolVal(len(calls) == 1 and calls[0][2] is g["x"]), f"{q}:C04:fit evaluates forward exactly once, on its argument")
        ok = isinstance(r, Arr) and r.elem == "row"
        p.prove(z3.BoolVal(ok), f"{q}:C04:fit returns rows")
        if ok:
            i = z3.Int(fresh("row"))
            p.assume(z3.And(i >= 0, i < g["n"]), check=False)
            p.prove(z3.And(r.n == g["n"], r.at(i) == PART["P"]["fwd"](g["x"].at(i))), f"{q}:C04:fit(x) is forward(x)[0]")


def _mk_partfit(cls):
    return type(f"PartFit{cls}", (_PartFit,), {"qual": f"transforms:{cls}.fit", "cls": cls})


PartFitPeriodic = _mk_partfit("PeriodicTransform")
PartFitBounded = _mk_partfit("BoundedTransform")
PartFitProbit = _mk_partfit("ProbitTransform")
PartFitLogit = _mk_partfit("LogitTransform")


def composite_roundtrip_lemma_static(tier):
    return composite_roundtrip_lemma()



# ------------------------------------------------------------------------------------------ constant log-Jacobians are broadcast in the width of the data
class ToUnitInterval(Contract):
    """the affine rescaling of a bounded parameter to [0, 1]: its log-Jacobian is a constant broadcast over the rows"""
    qual = "transforms:BoundedTransform.to_unit_interval"
    properties = ("C04", "C15", "C03")
    direction = "to"
    doc = ("returns one log-Jacobian per row, equal to (minus, for the inverse direction) the stored scale log-Jacobian; the array it is broadcast over is "
           "allocated with the dtype of the data: under torch, `float64 scalar * ones(n)` with the namespace-default float32 `ones` rounds the constant to "
           "float32 (the C04 maps themselves are the subject of the Lean theorems)")

    def must_return(self, shape):
        return True

    def setup(self, I, shape):
        n = z3.Int("n_rows")
        I.path.assume(n >= 1)
        xdt = Sym(z3.Const("dtype_of_x", Misc), "dtype")
        x = base_arr("x_in", "row", n, {"dtype": xdt})
        # the transform is built by its real constructor (whatever it caches for later use is then present, computed from the bounds)
        nd = z3.Int("n_dims")
        I.path.assume(nd >= 1)
        lo, hi = base_arr("lower", "real", nd, {"dtype": xdt}), base_arr("upper", "real", nd, {"dtype": xdt})
        I.depth += 1
        try:
            o = I.construct(ClassRef("BoundedTransform"), [], {"lower": lo, "upper": hi, "xp": Mod("xp"), "dtype": xdt}, None)
        except RaiseSig:
            raise PathEnd()           # bounds the constructor rejects (an interval of width zero): no transform, nothing to show
        finally:
            I.depth -= 1
        sc = o.f.get("_scale_log_abs_det_jacobian")
        if not isinstance(sc, Z):
            from pyvc.engine import ContractOutOfDate
            raise ContractOutOfDate("BoundedTransform no longer stores _scale_log_abs_det_jacobian as a scalar")
        I.path.events[:] = [e for e in I.path.events if e[0] != "alloc"]          # allocations of the constructor are not the subject here
        return Pre(o, [x], {}, ghost={"n": n, "xdt": xdt, "scale": to_real(sc)})

    def post(self, I, pre, r):
        p, g = I.path, pre.ghost
        q = self.qual
        ok = isinstance(r, Tup) and len(r.items) == 2 and isinstance(r.items[1], Arr)
        p.prove(z3.BoolVal(ok), f"{q}:C04:returns (rows, log|det J| per row)")
        if not ok:
            return
        lj = r.items[1]
        i = z3.Int(fresh("row"))
        sign = 1 if self.direction == "to" else -1
        p.prove(z3.And(lj.n == g["n"], z3.Implies(z3.And(i >= 0, i < g["n"]), lj.at(i) == sign * g["scale"])),
                f"{q}:C04:C03:one log-Jacobian per row, equal to {'' if sign == 1 else 'minus '}the scale log-Jacobian -sum(log(upper - lower))")
        allocs = [e for e in p.events if e[0] == "alloc" and e[1] == "ones"]
        p.prove(z3.BoolVal(bool(allocs) and all(isinstance(e[2], Sym) and e[2].e.eq(g["xdt"].e) for e in allocs)),
                f"{q}:C04:C15:C03:the constant log-Jacobian is broadcast over an array of the data's floating-point width in both directions (else sampling and evaluation of a float64 flow disagree by the float32 rounding);  (a namespace-default float32 `ones` rounds a float64 constant to float32 under torch)")


class FromUnitInterval(ToUnitInterval):
    qual = "transforms:BoundedTransform.from_unit_interval"
    direction = "from"
