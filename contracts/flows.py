"""C03: the flow wrappers - sampling and evaluation agree, data-transform Jacobians enter with the right sign."""
from __future__ import annotations

import z3

from pyvc.contracts import Contract, Pre
from pyvc.engine import PathEnd, RaiseSig, Unsupported
from pyvc.lib import Misc, RS, assumed
from pyvc.values import (NONE, Arr, B, ClassRef, Fn, I as IV, Mod, NoneV, Obj, PyDict, PyList, R, Row, Str, Sym, Tup, Z, base_arr, fresh, skey, to_int, to_real, uf)
from contracts.samples import arr_eq_goal

BASE_LP = uf("base_flow_log_prob_row", Row, RS)     # the neural flow's density in the transformed space (external, assumed normalised and self-consistent)
TFWD = uf("data_transform_forward_row", Row, Row)
TINV = uf("data_transform_inverse_row", Row, Row)
LJFWD = uf("data_transform_forward_logJ_row", Row, RS)
LJINV = uf("data_transform_inverse_logJ_row", Row, RS)
NETFWD = uf("network_bijection_forward_row", Row, Row)        # zuko: dist.transform (x' -> z)
NETINV = uf("network_bijection_inverse_row", Row, Row)
NETLJFWD = uf("network_bijection_forward_logdet_row", Row, RS)
NETLJINV = uf("network_bijection_inverse_logdet_row", Row, RS)


def rw(name, f, x, elem):
    return Arr(x.n, elem, lambda k, _at=x.at: f(_at(k)), f"{name}({x.key})", x.meta, x.facts)


def install(reg):
    H = reg.register

    @H("DataTransformStub.forward")
    def dt_forward(I, a, k, n):
        x = a[1]
        return Tup([rw("TFWD", TFWD, x, "row"), rw("LJFWD", LJFWD, x, "real")])

    @H("DataTransformStub.inverse")
    def dt_inverse(I, a, k, n):
        x = a[1]
        return Tup([rw("TINV", TINV, x, "row"), rw("LJINV", LJINV, x, "real")])

    # zuko: self.flow() -> distribution
    @H("ZukoDist.rsample_and_log_prob")
    def z_rs_lp(I, a, k, n):
        assumed(I, "zuko: rsample_and_log_prob returns draws together with the flow's own log-density at those draws")
        nn = to_int(a[1].items[0])
        xp_ = base_arr(fresh("xprime"), "row", nn)
        I.path.event("flow.draw", xp_)
        I.path.event("zuko.call", "rsample_and_log_prob", I.path.ghost.get("no_grad_depth", 0) > 0)
        return Tup([xp_, rw("BASELP", BASE_LP, xp_, "real")])

    @H("ZukoDist.rsample")
    def z_rs(I, a, k, n):
        nn = to_int(a[1].items[0])
        xp_ = base_arr(fresh("xprime"), "row", nn)
        I.path.event("flow.draw", xp_)
        I.path.event("zuko.call", "rsample", I.path.ghost.get("no_grad_depth", 0) > 0)
        return xp_

    @H("ZukoDist.log_prob")
    def z_lp(I, a, k, n):
        I.path.event("zuko.call", "log_prob", I.path.ghost.get("no_grad_depth", 0) > 0)
        return rw("BASELP", BASE_LP, a[1], "real")

    # zuko: the network's bijection dist.transform (x' -> z) and its inverse, each with its log|det|
    reg.obj_props["ZukoDist.transform"] = lambda I, o, n: Obj("ZukoBijection", {"inverse": B(False)})
    reg.obj_props["ZukoBijection.inv"] = lambda I, o, n: Obj("ZukoBijection", {"inverse": B(not I.is_true(o.f["inverse"]))})

    @H("ZukoBijection.call_and_ladj")
    def z_call_and_ladj(I, a, k, n):
        assumed(I, "zuko: transform.call_and_ladj(x') returns (z, log|det dz/dx'|) row by row; transform.inv is the inverse bijection with the negated log-determinant at the image")
        inv = I.is_true(a[0].f["inverse"])
        I.path.event("zuko.call", "inv.call_and_ladj" if inv else "call_and_ladj", I.path.ghost.get("no_grad_depth", 0) > 0)
        x = a[1]
        return Tup([rw("NETINV" if inv else "NETFWD", NETINV if inv else NETFWD, x, "row"), rw("NETLJINV" if inv else "NETLJFWD", NETLJINV if inv else NETLJFWD, x, "real")])

    # flowjax distribution
    @H("FlowJaxDist.sample")
    def fj_sample(I, a, k, n):
        nn = to_int(a[2].items[0])
        xp_ = base_arr(fresh("xprime"), "row", nn)
        I.path.event("flow.draw", xp_, a[1])
        return xp_

    @H("FlowJaxDist.log_prob")
    def fj_lp(I, a, k, n):
        return rw("BASELP", BASE_LP, a[1], "real")

    # torch.no_grad(): results computed inside do not require grad (and can be exported / saved); the nesting depth is ghost state of the path
    reg.handlers["xp.torch.no_grad"] = lambda I, a, k, n: Obj("NoGradCtx", {})
    reg.handlers["xp.no_grad"] = reg.handlers["xp.torch.no_grad"]

    def ng_enter(I, a, k, n):
        I.path.ghost["no_grad_depth"] = I.path.ghost.get("no_grad_depth", 0) + 1
        return a[0]

    def ng_exit(I, a, k, n):
        I.path.ghost["no_grad_depth"] = I.path.ghost.get("no_grad_depth", 0) - 1
        return NONE
    reg.handlers["NoGradCtx.__enter__"] = ng_enter
    reg.handlers["NoGradCtx.__exit__"] = ng_exit
    reg.handlers["xp.torch.as_tensor"] = lambda I, a, k, n: a[0]
    reg.handlers["xp.as_tensor"] = reg.handlers["xp.torch.as_tensor"]

    def jsplit(I, a, k, n):
        assumed(I, "jax.random.split(key): two new keys, a deterministic function of key")
        key = a[0]
        f1 = uf("jax_split_0", Misc, Misc)
        f2 = uf("jax_split_1", Misc, Misc)
        return Tup([Sym(f1(key.e), "key"), Sym(f2(key.e), "key")])
    reg.handlers["jax.random.split"] = jsplit
    reg.handlers["jrandom.split"] = jsplit


def mk_flow(I, cls):
    dt = Obj("DataTransformStub", {})
    f = {"data_transform": dt, "dtype": Sym(z3.Const("flow_dtype", Misc), "dtype"), "device": Sym(z3.Const("flow_device", Misc), "device"), "dims": IV(z3.Int("dims"))}
    if cls == "ZukoFlow":
        dist = Obj("ZukoDist", {})
        f["_flow"] = Fn(lambda I2, a, k, n: dist, "zuko_flow_module")
    else:
        f["_flow"] = Obj("FlowJaxDist", {})
        f["key"] = Sym(z3.Const("flow_key", Misc), "key")
    return Obj(cls, f)


def lemma_instances(I, xprime: Arr, i):
    """C04 contracts of the data transform, instantiated at the row the goal talks about"""
    r = xprime.at(i)
    I.path.assume(z3.And(TFWD(TINV(r)) == r, LJFWD(TINV(r)) == -LJINV(r)), check=False)
    I.path.ex.assumed.add("C04 contract of the data transform (proved per map in lean/C04.lean, composed in CompositeTransform): forward(inverse(x')) = x' and logJ_forward(inverse(x')) = -logJ_inverse(x')")


class FlowSampleAndLogProb(Contract):
    cls = "ZukoFlow"
    module = "flows.torch.flows"
    properties = ("C03",)
    doc = ("returns (x, lq) with x = T^-1(x') for one batch of draws x' of the flow and lq = base_log_prob(x') - logJ_{T^-1}(x'); by the data transform's "
           "contract this equals log_prob(x) evaluated afterwards: sampling and evaluation agree")

    @property
    def qual(self):
        return f"{self.module}:{self.cls}.sample_and_log_prob"

    def setup(self, I, shape):
        fl = mk_flow(I, self.cls)
        n = z3.Int("n_samples")
        I.path.assume(n >= 1)
        return Pre(fl, [IV(n)], ghost={"fl": fl, "n": n})

    def post(self, I, pre, r):
        p, g = I.path, pre.ghost
        q = self.qual
        draws = [e for e in p.events if e[0] == "flow.draw"]
        p.prove(z3.BoolVal(len(draws) == 1), f"{q}:C03:one batch of draws from the flow")
        if not (isinstance(r, Tup) and len(r.items) == 2 and draws):
            p.prove(z3.BoolVal(False), f"{q}:C03:returns (x, log_q)")
            return
        x, lq = r.items
        xpr = draws[0][1]
        if self.cls == "ZukoFlow":
            calls = [e for e in p.events if e[0] == "zuko.call"]
            p.prove(z3.BoolVal(bool(calls) and all(e[2] for e in calls)),
                    f"{q}:C15:C03:draws and their log-density are computed under torch.no_grad(): the returned arrays do not require grad, so a sample set that keeps them in the torch namespace can still be exported (to_numpy, save)")
        i = z3.Int(fresh("row"))
        inb = z3.And(i >= 0, i < g["n"])
        p.prove(z3.And(x.n == g["n"], lq.n == g["n"]), f"{q}:C03:n_samples draws with one log-density each")
        p.prove(z3.Implies(inb, x.at(i) == TINV(xpr.at(i))), f"{q}:C03:returned coordinates are the data transform's inverse image of the flow's draws")
        p.prove(z3.Implies(inb, lq.at(i) == BASE_LP(xpr.at(i)) - LJINV(xpr.at(i))), f"{q}:C03:log_q = base log-density of the draw minus the inverse transform's log-Jacobian")
        # agreement with log_prob evaluated at the returned points (real log_prob body, executed afterwards)
        lemma_instances(I, xpr, i)
        lpinfo = I.front.find_method(self.cls, "log_prob")
        I.depth += 1
        try:
            lp = I.call_repo(lpinfo, g["fl"], [x], {}, None, force_inline=True)
        finally:
            I.depth -= 1
        p.prove(z3.Implies(inb, lp.at(i) == lq.at(i)), f"{q}:C03:the log-density returned with the draws equals log_prob evaluated at those draws (given the data transform's C04 contract)")


class FlowJaxSampleAndLogProb(FlowSampleAndLogProb):
    cls = "FlowJax"
    module = "flows.jax.flows"

    def post(self, I, pre, r):
        super().post(I, pre, r)
        p, g = I.path, pre.ghost
        fl = g["fl"]
        draws = [e for e in p.events if e[0] == "flow.draw"]
        k0 = z3.Const("flow_key", Misc)
        if draws:
            used = draws[0][2]
            p.prove(used.e == uf("jax_split_1", Misc, Misc)(k0) if isinstance(used, Sym) else z3.BoolVal(False), f"{self.qual}:C20:C03:draws use a sub-key split from the flow's key")
            p.prove(fl.f["key"].e == uf("jax_split_0", Misc, Misc)(k0), f"{self.qual}:C20:the flow's key advances deterministically")


class FlowLogProb(Contract):
    cls = "ZukoFlow"
    module = "flows.torch.flows"
    properties = ("C03",)
    doc = "log_prob(x) = base log-density of T(x) plus the forward transform's log-Jacobian at x (change of variables)"

    @property
    def qual(self):
        return f"{self.module}:{self.cls}.log_prob"

    def setup(self, I, shape):
        fl = mk_flow(I, self.cls)
        n = z3.Int("n_points")
        I.path.assume(n >= 1)
        x = base_arr("x_eval", "row", n)
        return Pre(fl, [x], ghost={"fl": fl, "n": n, "x": x})

    def post(self, I, pre, r):
        p, g = I.path, pre.ghost
        q = self.qual
        i = z3.Int(fresh("row"))
        inb = z3.And(i >= 0, i < g["n"])
        x = g["x"]
        p.prove(z3.Implies(inb, r.at(i) == BASE_LP(TFWD(x.at(i))) + LJFWD(x.at(i))), f"{q}:C03:log_prob(x) = base_log_prob(T(x)) + log|det dT/dx| (Jacobian enters with a plus sign)")


class FlowJaxLogProb(FlowLogProb):
    cls = "FlowJax"
    module = "flows.jax.flows"


class FlowSample(Contract):
    cls = "ZukoFlow"
    module = "flows.torch.flows"
    properties = ("C03",)
    doc = "sample() returns the same map of the flow's draws as sample_and_log_prob: x = T^-1(x')"

    @property
    def qual(self):
        return f"{self.module}:{self.cls}.sample"

    def setup(self, I, shape):
        fl = mk_flow(I, self.cls)
        n = z3.Int("n_samples")
        I.path.assume(n >= 1)
        return Pre(fl, [IV(n)], ghost={"fl": fl, "n": n})

    def post(self, I, pre, r):
        p, g = I.path, pre.ghost
        q = self.qual
        draws = [e for e in p.events if e[0] == "flow.draw"]
        p.prove(z3.BoolVal(len(draws) == 1 and isinstance(r, Arr)), f"{q}:C03:one batch of draws from the flow")
        if draws and isinstance(r, Arr):
            i = z3.Int(fresh("row"))
            p.prove(z3.Implies(z3.And(i >= 0, i < g["n"]), r.at(i) == TINV(draws[0][1].at(i))), f"{q}:C03:returned coordinates are the data transform's inverse image of the flow's draws")


class FlowJaxSample(FlowSample):
    cls = "FlowJax"
    module = "flows.jax.flows"


# ------------------------------------------------------------------------------------------------------------------
# C13: the saved torch flow records the precision it actually runs in (reload does not depend on the loading process' defaults)
# ------------------------------------------------------------------------------------------------------------------
class TorchFlowSaveDtype(Contract):
    qual = "flows.torch.flows:BaseTorchFlow.save"
    properties = ("C13", "C15")
    doc = ("the configuration written next to the weights names the floating-point width the flow actually uses: the constructor's dtype argument when one "
           "was given, the resolved default otherwise - never 'unspecified'")

    def must_return(self, shape):
        return True

    def shapes(self):
        return [{"cfg": c, "actual": w} for c in ("None", "float32", "float64", "torch.float64") for w in (32, 64)
                if not (c in ("float32",) and w == 64) and not (c in ("float64", "torch.float64") and w == 32)]

    def setup(self, I, shape):
        from contracts.dtypes import dt, ns
        from contracts.io import mk_group
        cfgd = {"None": NONE, "float32": Str("float32"), "float64": Str("float64"), "torch.float64": dt("torch", 64)}[shape["cfg"]]
        tr = self._transform_stub(I)
        cfg = PyDict({"dims": IV(z3.Int("dims")), "device": Str("cpu"), "dtype": cfgd, "data_transform": tr, "seed": IV(0)})
        fl = Obj("TorchModuleStub", {})
        I.reg.handlers["TorchModuleStub.state_dict"] = lambda I2, a, k, n: PyDict({})
        # the real Flow.config_dict runs: it hands out the *recorded constructor arguments themselves* (self._init_args), not a copy
        o = Obj("BaseTorchFlow", {"dtype": dt("torch", shape["actual"]), "device": Str("cpu"), "_flow": fl, "xp": ns("torch"), "_init_args": cfg})
        root = mk_group("/")
        h5 = Obj("H5File", {"root": root, "mode": Str("a"), "closed": B(False), "path": Str("f.h5")})
        return Pre(o, [h5], {}, ghost={"root": root, "shape": shape, "h5": h5, "cfg": cfg, "cfg0": dict(cfg.d), "o": o})

    @staticmethod
    def _transform_stub(I):
        tr = Obj("DataTransformStub", {})

        def tr_save(I2, a, k, n):
            from contracts.io import group_path
            grp, name = a[1], a[2]
            root = grp.f["root"] if grp.cls == "H5File" else grp
            g = group_path(I2, root, name.v, create=True, node=n)
            g.f["stored_transform"] = a[0]
            I2.path.event("transform.save", a[0], name.v)
            return NONE
        I.reg.handlers["DataTransformStub.save"] = tr_save
        return tr

    def recorded_config_unchanged(self, I, pre, tag):
        """saving is repeatable: the flow's recorded constructor arguments are what they were (same keys, same values), and the data transform went to the file"""
        p, g = I.path, pre.ghost
        q = self.qual
        now, was = g["cfg"].d, g["cfg0"]
        same = set(now) == set(was) and all(now[k] is was[k] for k in was)
        p.prove(z3.BoolVal(g["o"].f.get("_init_args") is g["cfg"] and same),
                f"{q}:C13:saving leaves the flow's recorded configuration as it was (the same flow object can be saved again: second snapshot, overwrite, another file) {tag}")
        grp = g["root"].f["members"].d.get("flow")
        dtg = grp.f["members"].d.get("data_transform") if grp is not None else None
        p.prove(z3.BoolVal(dtg is not None and dtg.f.get("stored_transform") is was["data_transform"]), f"{q}:C13:the flow's data transform is stored next to the weights {tag}")

    def post(self, I, pre, r):
        p, g = I.path, pre.ghost
        q, sh = self.qual, g["shape"]
        tag = f"[constructor dtype {sh['cfg']}, flow runs in float{sh['actual']}]"
        load = I.front.get("utils:load_from_h5_file")
        grp = g["root"].f["members"].d.get("flow")
        p.prove(z3.BoolVal(grp is not None), f"{q}:C13:group 'flow' written {tag}")
        if grp is None:
            return
        I.depth += 1
        try:
            back = I.call_repo(load, None, [grp, Str("config")], {}, None, force_inline=True)
        finally:
            I.depth -= 1
        enc = back.d.get("dtype") if isinstance(back, PyDict) else None
        ok = isinstance(enc, PyDict) and isinstance(enc.d.get("dtype"), Str) and enc.d["dtype"].v == f"float{sh['actual']}"
        p.prove(z3.BoolVal(ok), f"{q}:C13:C15:the stored configuration names the precision the flow actually uses (float{sh['actual']}), so a reload rebuilds it in that precision {tag}")
        self.recorded_config_unchanged(I, pre, tag)
        self.extra_post(I, pre, tag)

    def extra_post(self, I, pre, tag):
        pass


class JaxFlowSaveDtype(TorchFlowSaveDtype):
    qual = "flows.jax.flows:FlowJax.save"

    def shapes(self):
        return [{"cfg": c, "actual": w} for c in ("None", "float32", "float64") for w in (32, 64) if not (c == "float32" and w == 64) and not (c == "float64" and w == 32)]

    def setup(self, I, shape):
        from contracts.dtypes import dt, ns
        from contracts.io import mk_group
        cfgd = {"None": NONE, "float32": Str("float32"), "float64": Str("float64")}[shape["cfg"]]
        tr = self._transform_stub(I)
        cfg = PyDict({"dims": IV(z3.Int("dims")), "device": NONE, "dtype": cfgd, "data_transform": tr, "key": Sym(z3.Const("jax_key", Misc), "key")})
        assumed(I, "jax.random.key_data / equinox.partition / jax.tree_util.tree_flatten: opaque (the network parameters are outside this contract; none are written here)")
        I.reg.handlers["jax.random.key_data"] = lambda I2, a, k, n: base_arr("key_data", "int", z3.IntVal(2))
        def partition(I2, a, k, n):
            I2.path.event("eqx.partition", a[0], a[1])
            return Tup([Sym(z3.Const("flow_arrays", Misc), "pytree"), Sym(z3.Const("flow_static", Misc), "pytree")])
        I.reg.handlers["equinox.partition"] = partition
        I.reg.handlers["equinox.is_array"] = lambda I2, a, k, n: B(True)
        I.reg.consts["equinox.is_array"] = Sym(z3.Const("eqx_is_array", Misc), "fn")
        # other leaf filters exist (is_inexact_array: floating-point leaves only, is_array_like, ...): distinct from is_array
        I.reg.consts["equinox.is_inexact_array"] = Sym(z3.Const("eqx_is_inexact_array", Misc), "fn")
        I.reg.consts["equinox.is_array_like"] = Sym(z3.Const("eqx_is_array_like", Misc), "fn")
        I.reg.consts["equinox.is_inexact_array_like"] = Sym(z3.Const("eqx_is_inexact_array_like", Misc), "fn")
        I.reg.handlers["jax.tree_util.tree_flatten"] = lambda I2, a, k, n: Tup([PyList([]), Sym(z3.Const("treedef", Misc), "treedef")])
        o = Obj("FlowJax", {"dtype": dt("np", shape["actual"]), "device": NONE, "_flow": Sym(z3.Const("flowjax_model", Misc), "pytree"), "xp": ns("jax"),
                            "key": Sym(z3.Const("jax_key", Misc), "key")})
        o.f["_init_args"] = cfg
        root = mk_group("/")
        h5 = Obj("H5File", {"root": root, "mode": Str("a"), "closed": B(False), "path": Str("f.h5")})
        return Pre(o, [h5], {}, ghost={"root": root, "shape": shape, "h5": h5, "cfg": cfg, "cfg0": dict(cfg.d), "o": o})

    def extra_post(self, I, pre, tag):
        # every array leaf of the network is a parameter of the density: integer / Boolean leaves (permutations between layers, masks) included
        p = I.path
        parts = [e for e in p.events if e[0] == "eqx.partition"]
        def is_filter(v, name):
            return (isinstance(v, Sym) and v.e.eq(z3.Const(f"eqx_{name}", Misc))) or getattr(v, "name", None) in (f"equinox.{name}", f"eqx.{name}", name)
        ok = len(parts) == 1 and is_filter(parts[0][2], "is_array") and isinstance(parts[0][1], Sym) and parts[0][1].e.eq(z3.Const("flowjax_model", Misc))
        if not ok and parts:
            tag = f"{tag} (filter used: {parts[0][2]!r})"
        p.prove(z3.BoolVal(ok), f"{self.qual}:C13:all array leaves of the network are stored (filter equinox.is_array: the random permutations between layers are integer arrays), not only the floating-point ones {tag}")


class ZukoForward(Contract):
    """the flow as a map (used as a preconditioning transform): data transform, then the network's bijection"""
    qual = "flows.torch.flows:ZukoFlow.forward"
    properties = ("C05", "C04", "C03")
    which = "forward"
    doc = ("forward(x) = (N(T(x)), log|det dN/dx'|(T(x)) + log|det dT/dx|(x)); inverse(z) = (T^-1(N^-1(z)), log|det dN^-1/dz|(z) + log|det dT^-1/dx'|(N^-1(z))): "
           "the two log-Jacobians of the composition are *added*, each evaluated where its map is applied (a flow used for preconditioning hands this log-Jacobian "
           "to the tempered target)")

    def must_return(self, shape):
        return True

    def setup(self, I, shape):
        fl = mk_flow(I, "ZukoFlow")
        n = z3.Int("n_points")
        I.path.assume(n >= 1)
        x = base_arr("x_in", "row", n)
        return Pre(fl, [x], ghost={"n": n, "x": x})

    def post(self, I, pre, r):
        p, g = I.path, pre.ghost
        q = self.qual
        ok = isinstance(r, Tup) and len(r.items) == 2 and all(isinstance(t, Arr) for t in r.items)
        p.prove(z3.BoolVal(ok), f"{q}:C05:returns (points, log|det J| per point)")
        if not ok:
            return
        y, lj = r.items
        i = z3.Int(fresh("row"))
        inb = z3.And(i >= 0, i < g["n"])
        xi = g["x"].at(i)
        if self.which == "forward":
            p.prove(z3.Implies(inb, y.at(i) == NETFWD(TFWD(xi))), f"{q}:C05:C04:forward applies the data transform, then the network's bijection")
            p.prove(z3.Implies(inb, lj.at(i) == NETLJFWD(TFWD(xi)) + LJFWD(xi)), f"{q}:C05:C04:C03:log-Jacobian of forward = network log-determinant at T(x) + data-transform log-Jacobian at x (a sum)")
        else:
            p.prove(z3.Implies(inb, y.at(i) == TINV(NETINV(xi))), f"{q}:C05:C04:inverse applies the network's inverse bijection, then the inverse data transform")
            p.prove(z3.Implies(inb, lj.at(i) == NETLJINV(xi) + LJINV(NETINV(xi))), f"{q}:C05:C04:C03:log-Jacobian of inverse = network inverse log-determinant at z + inverse data-transform log-Jacobian at N^-1(z) (a sum, not a difference)")


class ZukoInverse(ZukoForward):
    qual = "flows.torch.flows:ZukoFlow.inverse"
    which = "inverse"
