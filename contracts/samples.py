"""Sidecar contracts for src/aspire/samples.py: structural obligations (which field flows where), z3.
Analytic halves (formulas) are in lean/*.lean over definitions generated from the same functions."""
from __future__ import annotations

import z3

from pyvc.contracts import Contract, Pre
from pyvc.engine import PathEnd, RaiseSig, Unsupported
from pyvc.lib import Misc, RS, IS, BS, assumed, red
from pyvc.spec import ESS_IW, LER, LERV, data_of, ess_of, iw_arr, lemma, lse_of, mk_samples
from pyvc.values import (NONE, Arr, B, ClassRef, Fn, I as IV, NoneV, Obj, PyDict, PyList, R, Row, Str, Sym, SymList, Tup, Z, base_arr, fresh,
                         skey, to_int, to_real, uf)

FIELDS = ("x", "log_likelihood", "log_prior", "log_q")


def conv(a, xp, dtype):
    """value-preserving conversion into namespace xp with dtype: same values, new meta"""
    if isinstance(a, Arr):
        return Arr(a.n, a.elem, a.at, a.key, dict(a.meta, ns=xp, dtype=dtype), a.facts)
    return a


_RESOLVED = {}


def resolved_dtype(dt, xp):
    """resolve_dtype(dt, xp) as a token; memoised so that the same request yields the same token object; resolving a dtype that
    was already resolved for the same namespace returns it unchanged (assumed contract of resolve_dtype: idempotent)"""
    if isinstance(dt, Sym) and dt.info.get("resolved_ns") is not None and dt.info["resolved_ns"].eq(xp.e):
        return dt
    key = (skey(dt), xp.e.sexpr())
    if key not in _RESOLVED:
        if isinstance(dt, NoneV):
            e = uf("default_dtype", Misc, Misc)(xp.e)
        elif isinstance(dt, Str):
            e = uf("resolve_dtype_name_" + dt.v, Misc, Misc)(xp.e)
        else:
            e = uf("resolve_dtype", Misc, Misc, Misc)(dt.e, xp.e)
        _RESOLVED[key] = Sym(e, "dtype", {"requested": dt, "resolved_ns": xp.e})
    return _RESOLVED[key]


def _same_token(a, b):
    if a is b:
        return True
    if isinstance(a, Sym) and isinstance(b, Sym):
        return a.e.eq(b.e)
    if isinstance(a, Str) and isinstance(b, Str):
        return a.v == b.v
    return isinstance(a, NoneV) and isinstance(b, NoneV)


def dtype_carried(dt, src):
    """the result's dtype token is the source's (directly, or as the dtype requested at construction)"""
    return isinstance(dt, Sym) and (_same_token(dt, src) or _same_token(dt.info.get("requested"), src))


def arr_eq_goal(a, b):
    """extensional equality of two arrays as a *goal* (skolemised index): lengths equal and equal at a fresh index"""
    if isinstance(a, NoneV) or isinstance(b, NoneV):
        return z3.BoolVal(isinstance(a, NoneV) and isinstance(b, NoneV))
    if not (isinstance(a, Arr) and isinstance(b, Arr)) or a.elem != b.elem:
        return z3.BoolVal(False)
    i = z3.Int(fresh("sk"))
    return z3.And(a.n == b.n, z3.Implies(z3.And(i >= 0, i < a.n, a.hyp(i), b.hyp(i)), a.at(i) == b.at(i)))


class PostInitModel(Contract):
    qual = "samples:BaseSamples.__post_init__"
    doc = ("xp defaults to the namespace of x; dtype := resolve(dtype, xp) or the namespace default; every non-None array field "
           "is converted value-preservingly into (xp, dtype); None fields stay None; parameters default to x_i names")

    def model(self, I, info, bound, args, kwargs, node):
        s = bound
        x = s.f["x"]
        if isinstance(s.f.get("xp"), NoneV):
            s.f["xp"] = x.meta.get("ns", Sym(z3.Const(f"ns<{skey(x)}>", Misc), "ns")) if isinstance(x, Arr) else Sym(z3.Const(fresh("ns"), Misc), "ns")
        xp = s.f["xp"]
        dt = resolved_dtype(s.f.get("dtype", NONE), xp)
        s.f["dtype"] = dt
        for k in FIELDS:
            v = s.f.get(k, NONE)
            s.f[k] = conv(v, xp, dt)
        if isinstance(s.f.get("device", NONE), NoneV):
            s.f["device"] = NONE
        if isinstance(s.f.get("parameters", NONE), NoneV):
            s.f["parameters"] = Sym(z3.Const(fresh("default_params"), Misc), "params")
        I.path.event("post_init", s)
        return NONE


class ComputeWeightsModel(Contract):
    qual = "samples:Samples.compute_weights"
    doc = "log_w = ll + lp - lq; log_evidence = LSE(log_w) - log n; effective_sample_size = ESS(log_w); (Lean: C02.lean)"

    def model(self, I, info, bound, args, kwargs, node):
        s = bound
        ll, lp, lq = s.f["log_likelihood"], s.f["log_prior"], s.f["log_q"]
        if any(isinstance(v, NoneV) for v in (ll, lp, lq)):
            I.implicit_exception(False, "TypeError", node)
            raise PathEnd()
        lw = Arr(ll.n, "real", lambda k: ll.at(k) + lp.at(k) - lq.at(k), f"(({ll.key}+{lp.key})-{lq.key})", ll.meta)
        s.f["log_w"] = lw
        s.f["log_evidence"] = R(red("LSE", lw) - uf("log", RS, RS)(z3.ToReal(ll.n)))
        s.f["weights"] = Arr(ll.n, "real", lambda k: uf("exp", RS, RS)(lw.at(k)), f"exp({lw.key})", ll.meta)
        s.f["evidence"] = R(z3.Real(f"evidence<{lw.key}>"))
        s.f["evidence_error"] = R(z3.Real(f"evidence_error<{lw.key}>"))
        s.f["log_evidence_error"] = R(z3.Real(f"log_evidence_error<{lw.key}>"))
        s.f["effective_sample_size"] = R(ess_of(I, lw))
        for k in ("log_w", "weights", "evidence", "evidence_error", "effective_sample_size"):
            s.absent.discard(k)
        return NONE


def mk_any_samples(I, cls, name, present, beta=True):
    """symbolic well-formed sample set of class cls whose optional fields in `present` are arrays"""
    n = z3.Int(f"N_{name}")
    I.path.assume(n >= 0)
    xp = Sym(z3.Const(f"xp_{name}", Misc), "ns")
    dt = Sym(z3.Const(f"dtype_{name}", Misc), "dtype")
    meta = {"ns": xp, "dtype": dt}
    f = {"x": base_arr(f"{name}_x", "row", n, meta)}
    for k in FIELDS[1:]:
        f[k] = base_arr(f"{name}_{k}", "real", n, meta) if k in present else NONE
    f.update({"parameters": Sym(z3.Const(f"params_{name}", Misc), "params"), "dtype": dt, "xp": xp, "device": NONE})
    if cls == "SMCSamples":
        f["beta"] = R(z3.Real(f"beta_{name}"))
    if cls in ("SMCSamples", "Samples"):
        f["log_evidence"] = R(z3.Real(f"logZ_{name}"))
        f["log_evidence_error"] = R(z3.Real(f"logZerr_{name}"))
    o = Obj(cls, f)
    if cls == "Samples":
        if all(k in present for k in FIELDS[1:]):
            o.f["log_w"] = base_arr(f"{name}_log_w", "real", n, meta)
            o.f["weights"] = base_arr(f"{name}_weights", "real", n, meta)
            o.f["effective_sample_size"] = R(z3.Real(f"ess_{name}"))
            o.f["evidence"] = R(z3.Real(f"Z_{name}"))
            o.f["evidence_error"] = R(z3.Real(f"Zerr_{name}"))
        else:
            for k in ("log_w", "weights", "effective_sample_size", "evidence", "evidence_error"):
                o.f[k] = NONE
    return o


SUBSETS = [(), ("log_q",), ("log_likelihood", "log_prior"), ("log_likelihood", "log_prior", "log_q")]


class GetItem(Contract):
    def must_return(self, shape):
        return True

    """C16/C10: any selection returns the same selection of every per-sample field; evidence carried"""
    cls = "BaseSamples"
    properties = ("C16", "C10")
    doc = ("result.F == (None if self.F is None else take(self.F, idx)) for every per-sample field incl. log_w and weights, with one idx; "
           "dtype, parameters carried; Samples/SMCSamples: log_evidence and log_evidence_error of the source carried on the final state; SMCSamples: beta carried")

    @property
    def qual(self):
        return f"samples:{self.cls}.__getitem__"

    def shapes(self):
        return [{"present": p} for p in SUBSETS]

    def setup(self, I, shape):
        s = mk_any_samples(I, self.cls, "s", shape["present"])
        idx = Sym(z3.Const("idx", Misc), "index")
        return Pre(s, [idx], ghost={"s": s, "idx": idx, "present": shape["present"], "snapshot": dict(s.f)})

    def post(self, I, pre, r):
        p = I.path
        s, idx, snap = pre.ghost["s"], pre.ghost["idx"], pre.ghost["snapshot"]
        q = self.qual
        if not isinstance(r, Obj):
            p.prove(z3.BoolVal(False), f"{q}:returns a sample set")
            return
        p.prove(z3.BoolVal(r.cls == self.cls), f"{q}:C16:result has the class of the source")
        from pyvc.lib import arr_getitem
        fields = list(FIELDS) + (["log_w", "weights"] if self.cls == "Samples" else [])
        for k in fields:
            src = snap.get(k, NONE)
            got = r.f.get(k, NONE)
            if isinstance(src, NoneV):
                p.prove(z3.BoolVal(isinstance(got, NoneV)), f"{q}:C16:{k} stays None")
            else:
                want = arr_getitem(I, src, idx, None)
                p.prove(arr_eq_goal(got, want), f"{q}:C16:C10:{k} == take(self.{k}, idx) with the same idx")
        p.prove(z3.BoolVal(r.f.get("parameters") is snap["parameters"]), f"{q}:C16:parameters carried")
        dt = r.f.get("dtype")
        p.prove(z3.BoolVal(dtype_carried(dt, snap["dtype"])), f"{q}:C15:C16:dtype of the source requested for the result")
        if self.cls in ("Samples", "SMCSamples"):
            for k in ("log_evidence", "log_evidence_error"):
                p.prove(I.equal(r.f.get(k, NONE), snap[k]), f"{q}:C16:{k} carried, not recomputed")
        if self.cls == "SMCSamples":
            p.prove(I.equal(r.f.get("beta", NONE), snap["beta"]), f"{q}:C16:beta carried")
        # source untouched (frame)
        for k in fields + ["parameters", "dtype"]:
            p.prove(z3.BoolVal(s.f.get(k) is snap.get(k)), f"{q}:C16:frame: source field {k} unchanged")


class GetItemSamples(GetItem):
    cls = "Samples"
    properties = ("C16", "C10", "C02")

    def post(self, I, pre, r):
        super().post(I, pre, r)
        snap = pre.ghost["snapshot"]
        if isinstance(r, Obj) and isinstance(snap.get("log_w"), Arr) and isinstance(r.f.get("log_w"), Arr):
            # the selection's own ESS: exp(2 LSE(a) - LSE(2a)) [= ESS(a), Lean theorem ess_spec about utils.effective_sample_size] on the max-shifted
            # log-weights of the *selection* (ESS is shift invariant, Lean lemma ESS_shift) - not the source's ESS, and not another functional
            want = I.eval_expr("xp.exp(logsumexp(a) * 2 - logsumexp(a * 2))", "utils", {"a": I.eval_expr("lw - xp.max(lw)", "utils", {"lw": r.f["log_w"], "xp": r.f["xp"]}), "xp": r.f["xp"]})
            got = r.f.get("effective_sample_size", NONE)
            ok = isinstance(got, Z) and isinstance(want, Z)
            I.path.prove(to_real(got) == to_real(want) if ok else z3.BoolVal(False),
                         f"{self.qual}:C16:C02:effective_sample_size of the selection is ESS(log_w of the selection) (exp(2 LSE - LSE(2 .)) on the shifted weights of the selection)")


class GetItemSMC(GetItem):
    cls = "SMCSamples"


class Concatenate(Contract):
    qual = "samples:BaseSamples.concatenate"
    properties = ("C16", "C10")
    raises = {"ValueError": "empty list / parameters, namespaces or dtypes differ"}
    doc = "every field is the concatenation of the parts' fields in the same order (None unless all present); parameters/dtype of the first part"

    def shapes(self):
        return [{"cls": c, "a": a, "b": b} for c in ("BaseSamples", "Samples") for a in SUBSETS[1:] for b in SUBSETS[1:]] + [{"cls": "Samples", "a": None, "b": None}]

    def setup(self, I, shape):
        if shape["a"] is None:
            return Pre(ClassRef(shape["cls"]), [PyList([])], ghost={"empty": True, "shape": shape})
        a = mk_any_samples(I, shape["cls"], "a", shape["a"])
        b = mk_any_samples(I, shape["cls"], "b", shape["b"])
        same = z3.Bool("same_meta")
        if True:
            # symbolic choice: the two parts may or may not agree on parameters / namespace / dtype
            pass
        b.f["parameters_eq"] = same
        return Pre(ClassRef(shape["cls"]), [PyList([a, b])], ghost={"a": a, "b": b, "shape": shape})

    def post(self, I, pre, r):
        p = I.path
        g = pre.ghost
        q = self.qual
        if g.get("empty"):
            p.prove(z3.BoolVal(False), f"{q}:C16:empty list must raise")
            return
        a, b = g["a"], g["b"]
        for k in FIELDS:
            va, vb = a.f[k], b.f[k]
            got = r.f.get(k, NONE)
            if isinstance(va, NoneV) or isinstance(vb, NoneV):
                p.prove(z3.BoolVal(isinstance(got, NoneV)), f"{q}:C16:{k} is None unless present in every part")
            else:
                want = Arr(va.n + vb.n, va.elem, lambda kk, _a=va, _b=vb: z3.If(kk < _a.n, _a.at(kk), _b.at(kk - _a.n)), "want")
                p.prove(arr_eq_goal(got, want), f"{q}:C16:C10:{k} == concat(parts.{k}) in list order")
        p.prove(z3.BoolVal(r.f.get("parameters") is a.f["parameters"]), f"{q}:C16:parameters of the parts")
        p.prove(z3.BoolVal(dtype_carried(r.f.get("dtype"), a.f["dtype"])), f"{q}:C15:C16:the merged set is built with the dtype of the parts (precision kept)")
        # parts agree (otherwise ValueError was raised): namespace, dtype, parameters equal
        p.prove(z3.And(a.f["xp"].e == b.f["xp"].e, a.f["dtype"].e == b.f["dtype"].e, a.f["parameters"].e == b.f["parameters"].e),
                f"{q}:C16:returns only when parameters, namespace and dtype of the parts agree")

    def post_raise(self, I, pre, sig):
        g = pre.ghost
        if sig.exc == "ValueError" and not g.get("empty"):
            a, b = g["a"], g["b"]
            I.path.prove(z3.Not(z3.And(a.f["xp"].e == b.f["xp"].e, a.f["dtype"].e == b.f["dtype"].e, a.f["parameters"].e == b.f["parameters"].e)),
                         f"{self.qual}:C16:raises only when parameters, namespace or dtype differ")
            return
        if sig.exc == "ValueError":
            return
        return super().post_raise(I, pre, sig)


from contracts.smc_base import ResampleModel, ToStandardSamplesModel  # noqa: E402


class Resample(ResampleModel):
    def must_return(self, shape):
        return True

    qual = "samples:SMCSamples.resample"
    properties = ("C09", "C10", "C20")
    doc = ("beta == self.beta and n_samples is None -> self.  Otherwise exactly one rng.choice(len(self), size=M, replace=True, p=P) on the "
           "supplied generator, P = exp(lw - logsumexp(lw)) with lw = log_weights(beta) [= SOFTMAX(IW), Lean], M = n_samples or len(self); "
           "every field of the result is take(field, IDX) with that one IDX; result.beta == beta; dtype and parameters carried")

    def shapes(self):
        return [{"n_samples": a, "rng": b} for a in (0, 1) for b in (0, 1)]

    def setup(self, I, shape):
        s = mk_any_samples(I, "SMCSamples", "s", FIELDS[1:])
        I.path.assume(s.f["x"].n >= 1)
        beta = R(z3.Real("beta_new"))
        M = z3.Int("n_samples")
        I.path.assume(M >= 0)              # 0 is a size like any other (a computed keep-count may round down to it): it is not "no size given"
        rng = Sym(z3.Const("user_rng", Misc), "rng")
        kw = {"n_samples": IV(M) if shape["n_samples"] else NONE, "rng": rng if shape["rng"] else NONE}
        return Pre(s, [beta], kw, ghost={"s": s, "beta": beta, "M": M, "rng": rng, "shape": shape, "snapshot": dict(s.f)})

    def post(self, I, pre, r):
        p, g = I.path, pre.ghost
        q = self.qual
        s, snap = g["s"], g["snapshot"]
        ch = [e for e in p.events if e[0] == "rng.choice"]
        if r is s:
            p.prove(z3.And(to_real(g["beta"]) == to_real(snap["beta"]), z3.BoolVal(not g["shape"]["n_samples"])), f"{q}:C09:identity short-cut only for the same temperature and no requested size")
            p.prove(z3.BoolVal(len(ch) == 0), f"{q}:C20:identity short-cut consumes no randomness")
            return
        p.prove(z3.BoolVal(len(ch) == 1), f"{q}:C09:exactly one draw of indices")
        if len(ch) != 1:
            return
        _, gen, a, size, replace, pvec, idx = ch[0]
        M = g["M"] if g["shape"]["n_samples"] else snap["x"].n
        p.prove(to_int(a) == snap["x"].n, f"{q}:C09:indices drawn from range(len(self))")
        p.prove(to_int(size) == M, f"{q}:C09:requested size (n_samples, else the population size)")
        p.prove(i_truth(I, replace), f"{q}:C09:drawn with replacement")
        if g["shape"]["rng"]:
            p.prove(z3.BoolVal(gen is g["rng"]), f"{q}:C20:the generator supplied by the caller is the one used")
        else:
            p.prove(z3.BoolVal(isinstance(gen, Sym) and gen.tag == "rng" and gen.info.get("ambient", False)), f"{q}:C20:ambient generator only when none was supplied")
        p.prove(z3.BoolVal(not any(e[0] == "ambient.random" for e in p.events)), f"{q}:C20:nothing is drawn from a library-global random generator (every namespace)")
        # p == exp(lw - logsumexp(lw)) with lw = log_weights(beta) of THIS population at the NEW temperature
        lw = iw_arr(I, Obj("SMCSamples", snap), g["beta"], shifted=True)
        want = Arr(lw.n, "real", lambda k: uf("exp", RS, RS)(lw.at(k) - red("LSE", lw)), "want_p")
        p.prove(arr_eq_goal(pvec, want), f"{q}:C09:selection probabilities are exp(lw - logsumexp(lw)), lw = log_weights(beta) of this population (= SOFTMAX(IW), Lean)")
        for k in FIELDS:
            src = snap[k]
            want = Arr(idx.n, src.elem, lambda kk, _s=src: _s.at(idx.at(kk)), "want")
            p.prove(arr_eq_goal(r.f.get(k, NONE), want), f"{q}:C09:C10:{k} == take(self.{k}, IDX) with the one drawn IDX")
        p.prove(to_real(r.f["beta"]) == to_real(g["beta"]), f"{q}:C09:result carries the new temperature")
        p.prove(r.f["x"].n == M, f"{q}:C09:result has the requested size")
        p.prove(z3.BoolVal(r.f.get("parameters") is snap["parameters"]), f"{q}:C09:parameters carried")
        dt = r.f.get("dtype")
        p.prove(z3.BoolVal(dtype_carried(dt, snap["dtype"])), f"{q}:C09:C15:dtype of the source requested for the result (exact copies keep their precision)")

    def canaries(self, I, pre, r):
        g = pre.ghost
        if r is g["s"]:
            return []
        return [("result.beta != beta (must be refutable)", to_real(r.f["beta"]) != to_real(g["beta"]))]


def i_truth(I, v):
    return I.truth(v)


class ToStandardSamples(ToStandardSamplesModel):
    qual = "samples:SMCSamples.to_standard_samples"
    properties = ("C08", "C10", "C15")
    doc = "Samples with the same x, log_likelihood, log_prior (no log_q => no weight recomputation); log_evidence and error carried; namespace, dtype, parameters carried"

    def setup(self, I, shape):
        s = mk_any_samples(I, "SMCSamples", "s", FIELDS[1:])
        return Pre(s, [], ghost={"s": s, "snapshot": dict(s.f)})

    def post(self, I, pre, r):
        p = I.path
        q = self.qual
        snap = pre.ghost["snapshot"]
        p.prove(z3.BoolVal(isinstance(r, Obj) and r.cls == "Samples"), f"{q}:returns Samples")
        for k in ("x", "log_likelihood", "log_prior"):
            p.prove(arr_eq_goal(r.f.get(k, NONE), snap[k]), f"{q}:C10:{k} carried unchanged")
        p.prove(z3.BoolVal(isinstance(r.f.get("log_q", NONE), NoneV)), f"{q}:C08:no log_q, so the evidence is not recomputed from weights")
        for k in ("log_evidence", "log_evidence_error"):
            p.prove(I.equal(r.f.get(k, NONE), snap[k]), f"{q}:C08:{k} carried unchanged")
        p.prove(z3.BoolVal(r.f.get("xp") is snap["xp"]), f"{q}:C15:namespace carried")
        dt = r.f.get("dtype")
        p.prove(z3.BoolVal(dtype_carried(dt, snap["dtype"])), f"{q}:C15:dtype of the source requested for the result")
        p.prove(z3.BoolVal(r.f.get("parameters") is snap["parameters"]), f"{q}:parameters carried")


class RejectionSample(Contract):
    qual = "samples:Samples.rejection_sample"
    properties = ("C02", "C20")
    doc = "one uniform draw per sample from the supplied generator; x, log_likelihood, log_prior are selected with the *same* acceptance mask log_w - max(log_w) > log(u); dtype carried"

    def shapes(self):
        return [{"rng": 0}, {"rng": 1}]

    def setup(self, I, shape):
        s = mk_any_samples(I, "Samples", "s", FIELDS[1:])
        I.path.assume(s.f["x"].n >= 1)
        rng = Sym(z3.Const("user_rng", Misc), "rng")
        frame = {k: (Arr(v.n, v.elem, v.at, v.key, v.meta, v.facts) if isinstance(v, Arr) else v) for k, v in s.f.items()}
        return Pre(s, [], {"rng": rng if shape["rng"] else NONE}, ghost={"s": s, "rng": rng, "shape": shape, "snapshot": dict(s.f), "frame": frame})

    def post(self, I, pre, r):
        p, g = I.path, pre.ghost
        q = self.qual
        snap = g["snapshot"]
        p.prove(z3.BoolVal(not any(e[0] == "ambient.random" for e in p.events)), f"{q}:C20:nothing is drawn from a library-global random generator (in any namespace)")
        un = [e for e in p.events if e[0] == "rng.uniform"]
        p.prove(z3.BoolVal(len(un) == 1), f"{q}:C02:C20:exactly one vector of uniform draws, from a generator object")
        if len(un) != 1:
            return
        _, gen, size, u = un[0]
        p.prove(to_int(size) == snap["x"].n, f"{q}:C02:one uniform draw per sample")
        if g["shape"]["rng"]:
            p.prove(z3.BoolVal(gen is g["rng"]), f"{q}:C20:the generator supplied by the caller is the one used")
        lw = g["frame"]["log_w"]          # values on entry (the stored array itself may have been modified: see the frame obligations)
        mx = red("max", lw)
        LOG = uf("log", RS, RS)
        mask = Arr(lw.n, "bool", lambda k: lw.at(k) - mx > LOG(u.at(k)), "want_mask")
        from pyvc.lib import arr_getitem
        for k in ("x", "log_likelihood", "log_prior"):
            got = r.f.get(k, NONE)
            # same mask on every field: compare against selection by the contract's mask through the mask key of the code's own mask
            m_code = p.ghost.get("last_mask")
            p.prove(z3.BoolVal(m_code is not None), f"{q}:C02:{k} selected by a boolean mask")
            if m_code is None:
                continue
            i = z3.Int(fresh("sk"))
            p.prove(z3.Implies(z3.And(i >= 0, i < lw.n), m_code.at(i) == mask.at(i)), f"{q}:C02:acceptance mask is log_w - max(log_w) > log(u) [{k}]")
            want = arr_getitem(I, g["frame"][k], m_code, None)
            p.prove(arr_eq_goal(got, want), f"{q}:C02:{k} == self.{k}[accept] with the one acceptance mask")
        dt = r.f.get("dtype")
        p.prove(z3.BoolVal(dtype_carried(dt, snap["dtype"])), f"{q}:C15:dtype of the source requested for the result")
        # frame: the source sample set is not modified (values of every stored array, extensionally)
        s0 = g["s"]
        for k in list(FIELDS) + ["log_w", "weights"]:
            before = g["frame"][k]
            now = s0.f.get(k, NONE)
            p.prove(arr_eq_goal(now, before), f"{q}:C02:frame: source field {k} unchanged by rejection sampling")



class PickleRoundTrip(Contract):
    """C16: __setstate__(__getstate__(s)) restores every field of a sample set exactly - nothing is recomputed on the way (a selection carries
    its parent's evidence, which is not what its own weights would give)"""
    qual = "samples:BaseSamples.__setstate__"
    properties = ("C16", "C13")
    doc = "the object rebuilt from __getstate__() has every attribute of the original (per-sample fields, weights, carried evidence, parameters, dtype); xp is the namespace of x"

    def must_return(self, shape):
        return True

    def shapes(self):
        return [{"cls": c, "present": p} for c in ("BaseSamples", "Samples", "SMCSamples") for p in (SUBSETS[0], SUBSETS[-1])]

    def setup(self, I, shape):
        s = mk_any_samples(I, shape["cls"], "s", shape["present"])
        if shape["cls"] == "Samples":
            # a selection: the evidence it carries is its parent's, unrelated to its own log_w
            s.f["log_evidence"] = R(z3.Real("carried_log_evidence"))
            s.f["log_evidence_error"] = R(z3.Real("carried_log_evidence_error"))
        snap = dict(s.f)
        get = I.front.get("samples:BaseSamples.__getstate__")
        I.depth += 1
        try:
            state = I.call_repo(get, s, [], {}, None, force_inline=True)
        finally:
            I.depth -= 1
        fresh_obj = Obj(shape["cls"], {})
        return Pre(fresh_obj, [state], {}, ghost={"orig": s, "snap": snap, "new": fresh_obj, "shape": shape, "state": state})

    def post(self, I, pre, r):
        p, g = I.path, pre.ghost
        q = self.qual
        new, snap = g["new"], g["snap"]
        tag = f"[{g['shape']['cls']}, fields {g['shape']['present'] or 'x only'}]"
        for k, v in snap.items():
            if k.startswith("__") or k in ("xp", "device"):
                continue
            got = new.f.get(k)
            if isinstance(v, (Z,)):
                ok = I.equal(got, v) if got is not None else z3.BoolVal(False)
            else:
                ok = z3.BoolVal(got is v or (isinstance(v, NoneV) and isinstance(got, NoneV)))
            p.prove(ok, f"{q}:C16:C13:attribute {k} is restored as it was pickled (nothing recomputed) {tag}")
        p.prove(z3.BoolVal("xp" in new.f and not isinstance(new.f["xp"], (NoneV, Str))), f"{q}:C16:the array namespace is restored from x {tag}")
        for k in snap:
            p.prove(z3.BoolVal(g["orig"].f.get(k) is snap[k]), f"{q}:C16:frame: pickling leaves attribute {k} of the source untouched {tag}")


class ComputeWeights(ComputeWeightsModel):
    """z3 half of C02 for compute_weights (the formulas themselves are the Lean theorems over the generated definitions): every derived quantity is
    recomputed from the *current* log-densities on every call - nothing a previous call (or the constructor) left on the object is kept"""
    properties = ("C02",)
    doc = ("after the call log_w, weights, log_evidence, evidence and the ESS are functions of the current log_likelihood, log_prior, log_q only, "
           "whatever the object held before (a second call after the log-densities were changed, or a constructor-supplied log_evidence)")

    def must_return(self, shape):
        return True

    def setup(self, I, shape):
        s = mk_any_samples(I, "Samples", "s", SUBSETS[-1])
        I.path.assume(s.f["x"].n >= 2)
        # whatever an earlier call left behind
        s.f["log_evidence"] = R(z3.Real("stale_log_evidence")) if I.path.choose(2, "stale-or-none") == 0 else NONE
        s.f["log_evidence_error"] = R(z3.Real("stale_log_evidence_error"))
        for k in ("evidence", "evidence_error", "effective_sample_size"):
            s.f[k] = R(z3.Real(f"stale_{k}"))
        n = s.f["x"].n
        s.f["log_w"] = base_arr("stale_log_w", "real", n)
        s.f["weights"] = base_arr("stale_weights", "real", n)
        return Pre(s, [], ghost={"s": s})

    def post(self, I, pre, r):
        p, s = I.path, pre.ghost["s"]
        q = self.qual
        env = {"ll": s.f["log_likelihood"], "lp": s.f["log_prior"], "lq": s.f["log_q"], "xp": s.f["xp"], "n": IV(s.f["x"].n)}
        want_lw = I.eval_expr("ll + lp - lq", "utils", env)
        p.prove(arr_eq_goal(s.f.get("log_w"), want_lw), f"{q}:C02:log_w is recomputed from the current log-densities")
        env["lw"] = want_lw
        want_lz = I.eval_expr("logsumexp(lw) - math.log(n)", "samples", env)
        got = s.f.get("log_evidence")
        p.prove(to_real(got) == to_real(want_lz) if isinstance(got, Z) else z3.BoolVal(False),
                f"{q}:C02:log_evidence is recomputed as LSE(log_w) - log n, whatever value the object held before")
        want_w = I.eval_expr("xp.exp(lw)", "utils", env)
        p.prove(arr_eq_goal(s.f.get("weights"), want_w), f"{q}:C02:weights are recomputed as exp(log_w)")
        ev = s.f.get("evidence")
        p.prove(to_real(ev) == to_real(I.eval_expr("xp.exp(lz)", "utils", dict(env, lz=want_lz))) if isinstance(ev, Z) else z3.BoolVal(False),
                f"{q}:C02:evidence is exp(log_evidence) of this call")
        want_ess = I.eval_expr("xp.exp(logsumexp(a) * 2 - logsumexp(a * 2))", "utils", dict(env, a=I.eval_expr("lw - xp.max(lw)", "utils", env)))
        ess = s.f.get("effective_sample_size")
        p.prove(to_real(ess) == to_real(want_ess) if isinstance(ess, Z) else z3.BoolVal(False), f"{q}:C02:the ESS is recomputed from the current log_w")
