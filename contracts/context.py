"""C19: temporary overrides are restored on every exit path (PoolHandler, Aspire.auto_checkpoint)."""
from __future__ import annotations

import z3

from pyvc.contracts import Contract, Pre
from pyvc.engine import PathEnd, RaiseSig, Unsupported
from pyvc.lib import Misc, assumed
from pyvc.values import (NONE, Arr, B, ClassRef, Fn, I as IV, NoneV, Obj, Partial, PyDict, PyList, R, Str, Sym, Tup, Z, fresh, skey, to_int, to_real, uf)


def install(reg):
    H = reg.register

    @H("Pool.close")
    def pool_close(I, a, k, n):
        assumed(I, "pool.close() / pool.join() normally succeed but may raise (executor-style pools, interruption during shutdown)")
        I.path.event("pool.close", a[0])
        if I.path.choose(2, "pool-shutdown-fails") == 1:
            raise RaiseSig("PoolShutdownError", n)
        a[0].f["closed"] = B(True)
        return NONE

    @H("Pool.join")
    def pool_join(I, a, k, n):
        I.path.event("pool.join", a[0])
        return NONE

    # pathlib / os: file-system calls may fail (assumed contract): a component of the path exists as a file, no permission, ...
    reg.obj_props["Path.parent"] = lambda I, o, n: Obj("Path", {"s": o.f.get("s", NONE), "name": Sym(z3.Const(fresh("parent_name"), Misc), "str"), "parent_of": o})

    def fs_call_may_fail(I, a, k, n):
        assumed(I, "file-system calls (Path.mkdir, os.makedirs, Path.touch) either succeed or raise OSError")
        I.path.event("fs.call", a[0] if a else None)
        if I.path.choose(2, "file-system-call-fails") == 1:
            raise RaiseSig("OSError", n)
        return NONE
    for _nm in ("Path.mkdir", "Path.touch", "os.makedirs", "os.mkdir"):
        reg.handlers[_nm] = fs_call_may_fail
    reg.import_ok.add("os.makedirs")

    def os_fspath(I, a, k, n):
        # os.fspath: a str is returned as it is; a Path gives its string
        v = a[0]
        if isinstance(v, Str):
            return v
        if isinstance(v, Obj) and v.cls == "Path" and isinstance(v.f.get("s"), Str):
            return v.f["s"]
        raise Unsupported(f"os.fspath of {type(v).__name__} at line {getattr(n, 'lineno', '?')}")
    reg.handlers["os.fspath"] = os_fspath
    reg.import_ok.add("os.fspath")

    # multiprocessing.Pool: map / imap return results in the order of the inputs; imap_unordered / map_async(...) do not
    for _nm in ("map", "imap", "imap_unordered", "starmap", "map_async", "apply_async"):
        reg.obj_props[f"Pool.{_nm}"] = (lambda I, o, n, _n=_nm: Fn(lambda I2, a, k, n2: NONE, f"pool.{_n}"))


class PoolHandlerExit(Contract):
    qual = "utils:PoolHandler.__exit__"
    properties = ("C19",)
    doc = ("composition of the real __enter__ and __exit__: whatever the body did and however it was left (normal or exception), the instance's "
           "log_likelihood and log_prior are the very objects they were on entry; the pool is closed and joined iff close_pool (and a pool was given)")

    def shapes(self):
        return [{"pool": p, "prior": q, "exc": e, "body": b} for p in (0, 1) for q in (0, 1) for e in (0, 1) for b in ("nothing", "rebinds", "rebinds-prior")]

    def setup(self, I, shape):
        L0 = Fn(lambda I2, a, k, n: NONE, "user_log_likelihood")
        P0 = Fn(lambda I2, a, k, n: NONE, "user_log_prior")
        inst = Obj("Aspire", {"log_likelihood": L0, "log_prior": P0})
        pool = Obj("Pool", {"closed": B(False)}) if shape["pool"] else NONE
        close = z3.Bool("close_pool")
        h = Obj("PoolHandler", {"_aspire_instance": inst, "pool": pool, "close_pool": B(close), "parallelize_prior": B(bool(shape["prior"]))})
        # ---- the real __enter__
        enter = I.front.get("utils:PoolHandler.__enter__")
        I.depth += 1
        try:
            ret = I.call_repo(enter, h, [], {}, None, force_inline=True)
        finally:
            I.depth -= 1
        during = {"ll": inst.f["log_likelihood"], "lp": inst.f["log_prior"], "ret": ret}
        if shape["body"] == "rebinds":
            # the body may itself replace the callables (e.g. a nested context): exit must still restore the entry values
            inst.f["log_likelihood"] = Fn(lambda I2, a, k, n: NONE, "inner_override")
        if shape["body"] == "rebinds-prior":
            # ... or use another prior for the duration of the body (whether or not the prior is parallelised)
            inst.f["log_prior"] = Fn(lambda I2, a, k, n: NONE, "temporary_prior_set_by_the_body")
        exc = Str("RuntimeError") if shape["exc"] else NONE
        return Pre(h, [exc, exc, exc], ghost={"inst": inst, "L0": L0, "P0": P0, "pool": pool, "close": close, "shape": shape, "during": during})

    def post(self, I, pre, r):
        p, g = I.path, pre.ghost
        q = self.qual
        inst, sh = g["inst"], g["shape"]
        tag = f"[pool={'yes' if sh['pool'] else 'None'}, {'exception' if sh['exc'] else 'normal'} exit{', body rebinds the prior' if sh['body'] == 'rebinds-prior' else ''}{', prior parallelised' if sh['prior'] else ''}]"
        p.prove(z3.BoolVal(inst.f["log_likelihood"] is g["L0"]), f"{q}:C19:log_likelihood restored to the entry object {tag}")
        p.prove(z3.BoolVal(inst.f["log_prior"] is g["P0"]), f"{q}:C19:log_prior restored to the entry object {tag}")
        closes = [e for e in p.events if e[0] == "pool.close"]
        joins = [e for e in p.events if e[0] == "pool.join"]
        if sh["pool"]:
            p.prove(z3.If(g["close"], z3.BoolVal(len(closes) == 1 and len(joins) == 1), z3.BoolVal(len(closes) == 0 and len(joins) == 0)),
                    f"{q}:C19:pool closed and joined exactly when close_pool is set {tag}")
            d = g["during"]
            ok = isinstance(d["ll"], Partial) and d["ll"].fn is g["L0"] and "map_fn" in d["ll"].kwargs
            p.prove(z3.BoolVal(ok), f"{q}:C19:inside the context the likelihood is the entry callable with the pool's map")
            mf = d["ll"].kwargs.get("map_fn") if ok else None
            p.prove(z3.BoolVal(getattr(mf, "name", "") in ("pool.map", "pool.imap")),
                    f"{q}:C19:C10:the map handed to the likelihood returns results in the order of its inputs (pool.map), so per-row values stay with their rows")
            p.prove(z3.BoolVal((isinstance(d["lp"], Partial) and d["lp"].fn is g["P0"]) if sh["prior"] else d["lp"] is g["P0"]),
                    f"{q}:C19:the prior is overridden only when parallelize_prior is set")
        else:
            p.prove(z3.BoolVal(len(closes) == 0), f"{q}:C19:no pool, nothing to close {tag}")
        p.prove(z3.BoolVal(isinstance(r, NoneV) or not I.path.branch(I.truth(r))), f"{q}:C19:exceptions are not swallowed by __exit__")

    def post_raise(self, I, pre, sig):
        if sig.exc != "PoolShutdownError":
            return super().post_raise(I, pre, sig)
        # the pool could not be shut down: the overrides must have been undone all the same
        p, g = I.path, pre.ghost
        inst = g["inst"]
        p.prove(z3.BoolVal(inst.f["log_likelihood"] is g["L0"] and inst.f["log_prior"] is g["P0"]),
                f"{self.qual}:C19:likelihood and prior are restored even when shutting the pool down raises")


class AutoCheckpoint(Contract):
    qual = "aspire:Aspire.auto_checkpoint"
    properties = ("C19", "C14")
    doc = ("inside the context _checkpoint_defaults is a fresh dictionary with the requested path/every/save_config/save_flow and both saved flags False; "
           "on normal and on exceptional exit the attribute is exactly what it was on entry: absent again if it was absent, otherwise the very same "
           "dictionary object with unchanged contents (nesting follows by induction)")

    def shapes(self):
        return [{"prev": pv, "exc": e, "same_path": sp, "body": b} for pv in (0, 1) for e in (0, 1, 2) for sp in (0, 1) for b in ("nothing", "marks-saved", "nested-inner")
                if not (pv == 0 and sp == 1)]

    def setup(self, I, shape):
        path = Str("run.h5")
        f = {}
        prev = None
        snap = None
        if shape["prev"]:
            prev = PyDict({"path": Str("run.h5" if shape["same_path"] else "other.h5"), "every": IV(z3.Int("prev_every")), "save_config": B(z3.Bool("prev_sc")),
                           "save_flow": B(z3.Bool("prev_sf")), "saved_config": B(z3.Bool("prev_saved_c")), "saved_flow": B(z3.Bool("prev_saved_f"))})
            snap = dict(prev.d)
            f["_checkpoint_defaults"] = prev
        a = Obj("Aspire", f)
        if not shape["prev"]:
            a.absent.add("_checkpoint_defaults")
        every, sc, sf = z3.Int("every"), z3.Bool("save_config"), z3.Bool("save_flow")
        g = {"a": a, "prev": prev, "snap": snap, "shape": shape, "path": path, "every": every, "sc": sc, "sf": sf, "yielded": []}

        def on_yield(I2, v, n):
            cur = a.f.get("_checkpoint_defaults")
            g["yielded"].append((v, cur, dict(cur.d) if isinstance(cur, PyDict) else None))
            if shape["body"] == "marks-saved" and isinstance(cur, PyDict):
                cur.d["saved_config"] = B(True)       # what Aspire.fit / sample_posterior do to the *current* defaults
                cur.d["saved_flow"] = B(True)
            if shape["body"] == "nested-inner":
                # an inner context on another file that was entered and left correctly (induction hypothesis): attribute back to `cur`
                pass
            if shape["exc"]:
                raise RaiseSig("UserError" if shape["exc"] == 1 else "KeyboardInterrupt", n)     # 2: an interruption that is not an Exception
            return NONE
        I.yield_hook = on_yield
        return Pre(a, [path], {"every": IV(every), "save_config": B(sc), "save_flow": B(sf)}, ghost=g)

    def _restored(self, I, pre, how):
        p, g = I.path, pre.ghost
        q = self.qual
        a, sh = g["a"], g["shape"]
        tag = f"[{how}; previous defaults {'present' if sh['prev'] else 'absent'}{', same file' if sh['same_path'] else ''}]"
        p.prove(z3.BoolVal(len(g["yielded"]) == 1), f"{q}:C19:the body runs exactly once {tag}")
        if g["yielded"]:
            v, cur, cur_snap = g["yielded"][0]
            ok = isinstance(cur, PyDict) and cur is not g["prev"]
            p.prove(z3.BoolVal(ok), f"{q}:C19:C14:inside the context the defaults are a fresh dictionary (the outer one is not touched) {tag}")
            if ok:
                d = cur_snap
                p.prove(z3.And(z3.BoolVal(isinstance(d.get("path"), Str) and d["path"].v == g["path"].v), to_int(d["every"]) == g["every"], I.truth(d["save_config"]) == g["sc"],
                               I.truth(d["save_flow"]) == g["sf"], z3.Not(I.truth(d["saved_config"])), z3.Not(I.truth(d["saved_flow"]))),
                        f"{q}:C19:C14:C12:defaults inside the context are the requested ones (path, cadence, what to save) with both saved flags cleared {tag}")
            p.prove(z3.BoolVal(v is a), f"{q}:C19:the context yields the instance {tag}")
        if not sh["prev"]:
            p.prove(z3.BoolVal("_checkpoint_defaults" not in a.f), f"{q}:C19:C14:checkpoint defaults removed again on exit (the instance stops writing to that file) {tag}")
        else:
            now = a.f.get("_checkpoint_defaults")
            p.prove(z3.BoolVal(now is g["prev"]), f"{q}:C19:C14:checkpoint defaults restored to the entry object {tag}")
            if isinstance(now, PyDict):
                same = set(now.d) == set(g["snap"])
                p.prove(z3.And([z3.BoolVal(same)] + [I.equal(now.d[k], g["snap"][k]) for k in g["snap"] if k in now.d]),
                        f"{q}:C19:contents of the restored defaults are what they were on entry {tag}")

    def post(self, I, pre, r):
        if pre.ghost["shape"]["exc"]:
            I.path.prove(z3.BoolVal(False), f"{self.qual}:C19:an exception raised in the body propagates", assume_after=False)
        self._restored(I, pre, "normal exit")

    def post_raise(self, I, pre, sig):
        g = pre.ghost
        if not g["yielded"]:
            # the context could not be entered (e.g. a file-system call failed before the yield): nothing of it may stay behind
            a, sh = g["a"], g["shape"]
            tag = f"[{sig.exc} before the body; previous defaults {'present' if sh['prev'] else 'absent'}]"
            if not sh["prev"]:
                I.path.prove(z3.BoolVal("_checkpoint_defaults" not in a.f), f"{self.qual}:C19:C14:a context that fails to start leaves no checkpoint defaults behind {tag}")
            else:
                now = a.f.get("_checkpoint_defaults")
                same = now is g["prev"] and set(now.d) == set(g["snap"]) and all(now.d[k] is g["snap"][k] for k in g["snap"])
                I.path.prove(z3.BoolVal(same), f"{self.qual}:C19:C14:a context that fails to start leaves the enclosing defaults in force {tag}")
            return
        if sig.exc not in ("UserError", "KeyboardInterrupt") or not pre.ghost["shape"]["exc"]:
            return super().post_raise(I, pre, sig)
        self._restored(I, pre, "exception in the body")


class EnablePool(Contract):
    qual = "aspire:Aspire.enable_pool"
    properties = ("C19",)
    doc = ("every call returns its *own* handler for the given pool and options: the stack discipline behind 'restored at every nesting depth' needs one "
           "saved-originals slot per active context, so a second call (same pool, other options, possibly while the first context is active) must not "
           "get the first call's handler; the instance itself is not changed by the call")

    def shapes(self):
        return [{"first": f, "close2": c2} for f in (0, 1) for c2 in (0, 1)]

    def setup(self, I, shape):
        L0 = Fn(lambda I2, a, k, n: NONE, "user_log_likelihood")
        P0 = Fn(lambda I2, a, k, n: NONE, "user_log_prior")
        L0.sig_names = ["samples", "map_fn"]
        P0.sig_names = ["samples", "map_fn"]
        inst = Obj("Aspire", {"log_likelihood": L0, "log_prior": P0})
        pool = Obj("Pool", {"closed": B(False)})
        g = {"inst": inst, "pool": pool, "shape": shape, "first": None}
        if shape["first"]:
            # an earlier call with the same pool and the opposite options (its context may still be active)
            info = I.front.get(self.qual)
            I.depth += 1
            try:
                g["first"] = I.call_repo(info, inst, [pool], {"close_pool": B(not shape["close2"]), "parallelize_prior": B(True)}, None, force_inline=True)
            finally:
                I.depth -= 1
        g["attrs0"] = dict(inst.f)
        return Pre(inst, [pool], {"close_pool": B(bool(shape["close2"]))}, ghost=g)

    def post(self, I, pre, r):
        p, g = I.path, pre.ghost
        q = self.qual
        sh = g["shape"]
        tag = f"[{'second call with the same pool' if sh['first'] else 'first call'}, close_pool={bool(sh['close2'])}]"
        ok = isinstance(r, Obj) and r.cls == "PoolHandler"
        p.prove(z3.BoolVal(ok), f"{q}:C19:returns a pool handler {tag}")
        if not ok:
            return
        p.prove(z3.BoolVal(r is not g["first"]), f"{q}:C19:every call gets its own handler (own slot for the saved originals) {tag}")
        p.prove(z3.BoolVal(r.f.get("pool") is g["pool"] and r.f.get("_aspire_instance") is g["inst"]), f"{q}:C19:the handler is bound to this instance and the given pool {tag}")
        cp = r.f.get("close_pool")
        p.prove(I.truth(cp) == z3.BoolVal(bool(sh["close2"])) if cp is not None else z3.BoolVal(False), f"{q}:C19:the handler closes the pool exactly when this call asked for it {tag}")
        pp = r.f.get("parallelize_prior")
        p.prove(z3.Not(I.truth(pp)) if pp is not None else z3.BoolVal(False), f"{q}:C19:the prior is parallelised only when this call asked for it {tag}")
        p.prove(z3.BoolVal(g["inst"].f.get("log_likelihood") is g["attrs0"]["log_likelihood"] and g["inst"].f.get("log_prior") is g["attrs0"]["log_prior"]),
                f"{q}:C19:creating the handler does not touch the instance's callables {tag}")
