"""C15: namespace / dtype token model and contracts for the conversion functions.

Tokens (concrete per shape, enumerated exhaustively): namespaces {numpy, torch, jax}; dtype specifications
{None, 'float32', 'float64', numpy-family dtype objects (shared by NumPy and JAX), torch dtype objects} x widths {32, 64}.
Assumed library contracts (probed natively by the bounded stand-in):
  xp.dtype(spec) for numpy/jax: numpy-family dtype of that name/width; TypeError for a torch dtype object
  getattr(torch_namespace, 'float32') is the torch dtype; torch has no usable xp.dtype(...)
  xp.asarray(x, dtype=d): value-preserving; requires d to belong to xp's dtype family (TypeError otherwise); result has dtype d (or keeps x's width if d is None and x is an array; default width for python data)
"""
from __future__ import annotations

import z3

from pyvc.contracts import Contract, Pre
from pyvc.engine import PathEnd, RaiseSig, Unsupported
from pyvc.lib import Misc, assumed
from pyvc.values import (NONE, Arr, B, ClassRef, Fn, I as IV, Mod, NoneV, Obj, PyDict, PyList, R, Str, Sym, Tup, Z, base_arr, fresh, skey, to_int, to_real, uf)
from contracts.samples import FIELDS, arr_eq_goal

NS_NAMES = {"numpy": "array_api_compat.numpy", "torch": "array_api_compat.torch", "jax": "jax.numpy"}
FAMILY = {"numpy": "np", "jax": "np", "torch": "torch"}
DEFAULT_WIDTH = {"numpy": 64, "torch": 32, "jax": 32}
_NS, _DT = {}, {}


def ns(name):
    if name not in _NS:
        _NS[name] = Obj("NS", {"name": Str(name), "__name__": Str(NS_NAMES[name])})
    return _NS[name]


def dt(family, width):
    k = (family, width)
    if k not in _DT:
        nm = f"float{width}"
        f = {"family": Str(family), "width": IV(width)}
        if family == "np":
            f["name"] = Str(nm)
            f["__module__"] = Str("numpy")
        else:
            f["__module__"] = Str("torch")
        _DT[k] = Obj("dtype", f)
    return _DT[k]


def spec_values():
    return {"None": NONE, "'float32'": Str("float32"), "'float64'": Str("float64"), "np.float32": dt("np", 32), "np.float64": dt("np", 64),
            "torch.float32": dt("torch", 32), "torch.float64": dt("torch", 64)}


def width_of(spec):
    if isinstance(spec, Str):
        return int(spec.v[-2:])
    if isinstance(spec, Obj) and spec.cls == "dtype":
        return z3.simplify(spec.f["width"].e).as_long()
    return None


def as_ns(x):
    """namespace token of a namespace value: NS objects, or module-level imports of the three array namespaces"""
    if isinstance(x, Obj) and x.cls == "NS":
        return x
    if isinstance(x, Mod):
        for k in ("numpy", "torch", "jax"):
            if x.name == f"xp.{k}":
                return ns(k)
    return None


INLINE = ("samples:BaseSamples.__post_init__", "utils:asarray", "utils:to_numpy", "utils:resolve_dtype", "utils:convert_dtype", "samples:Samples.compute_weights",
          "samples:Samples.to_namespace", "samples:BaseSamples.from_samples")


def install(reg):
    H = reg.register

    def is_ns(which):
        def h(I, a, k, n):
            x = as_ns(a[0])
            if x is None and (isinstance(a[0], Sym) and a[0].tag == "ns" or isinstance(a[0], Mod) and a[0].name == "xp"):
                # an abstract namespace is one of the three, the same one for the whole path
                key = ("namespace-kind", skey(a[0]))
                if key not in I.path.ghost:
                    I.path.ghost[key] = ("numpy", "torch", "jax")[I.path.choose(3, f"kind of {skey(a[0])}")]
                return B(I.path.ghost[key] == which)
            return B(x is not None and x.f["name"].v == which)
        return h
    for w in ("numpy", "torch", "jax"):
        reg.handlers[f"is_{w}_namespace"] = is_ns(w)
        reg.import_ok.add(f"array_api_compat.is_{w}_namespace")
        reg.handlers[f"array_api_compat.is_{w}_namespace"] = is_ns(w)
    for w in ("cupy", "dask", "ndonnx", "pydata_sparse"):
        reg.handlers[f"is_{w}_namespace"] = lambda I, a, k, n: B(False)
        reg.handlers[f"array_api_compat.is_{w}_namespace"] = reg.handlers[f"is_{w}_namespace"]

    def arr_ns(x):
        return x.meta.get("ns") if isinstance(x, Arr) else None

    reg.handlers["is_jax_array"] = lambda I, a, k, n: B(isinstance(arr_ns(a[0]), Obj) and arr_ns(a[0]).f["name"].v == "jax")
    reg.handlers["is_torch_array"] = lambda I, a, k, n: B(isinstance(arr_ns(a[0]), Obj) and arr_ns(a[0]).f["name"].v == "torch")
    reg.handlers["is_array_api_obj"] = lambda I, a, k, n: B(isinstance(a[0], Arr))
    reg.handlers["array_api_compat.is_array_api_obj"] = reg.handlers["is_array_api_obj"]
    reg.handlers["array_api_compat.is_jax_array"] = reg.handlers["is_jax_array"]
    reg.handlers["array_api_compat.is_torch_array"] = reg.handlers["is_torch_array"]

    def array_namespace(I, a, k, n):
        x = a[0]
        v = arr_ns(x)
        if v is None:
            if isinstance(x, Arr):
                # an array whose namespace the contract does not track: some namespace, unknown which (comparisons with it go both ways)
                return Sym(z3.Const(f"namespace_of<{x.key}>", Misc), "ns")
            raise Unsupported("array_namespace of a value that is not an array")
        return v
    reg.handlers["array_namespace"] = array_namespace
    reg.handlers["array_api_compat.array_namespace"] = array_namespace

    def default_dtype(I, a, k, n):
        assumed(I, "array_api_extra.default_dtype(xp): float64 for NumPy, float32 for Torch and JAX (x64 off)")
        x = a[0]
        nm = x.f["name"].v
        return dt(FAMILY[nm], DEFAULT_WIDTH[nm])
    reg.handlers["default_dtype"] = default_dtype
    reg.handlers["array_api_extra.default_dtype"] = default_dtype

    @H("NS.dtype")
    def ns_dtype(I, a, k, n):
        assumed(I, "xp.dtype(spec) (NumPy/JAX): dtype of that name; TypeError for objects of another family")
        x, spec = a[0], a[1]
        if x.f["name"].v == "torch":
            raise RaiseSig("TypeError", n)
        if isinstance(spec, NoneV):
            return dt("np", 64)                       # numpy.dtype(None) is float64 (jax.numpy.dtype is numpy.dtype)
        if isinstance(spec, Str):
            if spec.v in ("float32", "float64", "float16", "int32", "int64"):
                return dt("np", int(spec.v[-2:]))
            raise RaiseSig("TypeError", n)
        if isinstance(spec, Obj) and spec.cls == "dtype":
            if spec.f["family"].v == "np":
                return spec
            raise RaiseSig("TypeError", n)
        raise RaiseSig("TypeError", n)

    @H("NS.asarray")
    def ns_asarray(I, a, k, n):
        assumed(I, "xp.asarray(x, dtype=d): value-preserving; d must belong to xp's dtype family")
        x, v = as_ns(a[0]), a[1]
        d = k.get("dtype", NONE)
        fam = FAMILY[x.f["name"].v]
        if isinstance(d, Obj) and d.cls == "dtype":
            I.implicit_exception(z3.BoolVal(d.f["family"].v == fam), f"TypeError[dtype of another namespace handed to {x.f['name'].v}.asarray]", n)
        elif isinstance(d, Str):
            I.implicit_exception(z3.BoolVal(fam == "np"), "TypeError[string dtype handed to torch.asarray]", n)
            d = dt("np", int(d.v[-2:]))
        if isinstance(v, Arr):
            if isinstance(d, NoneV):
                old = v.meta.get("dtype")
                d = dt(fam, width_of(old)) if isinstance(old, Obj) else d
            # torch tensors attached to the autograd graph cannot be exported (requires detach): meta flag
            if v.meta.get("requires_grad") and fam == "np":
                I.implicit_exception(False, "RuntimeError[Can't call numpy() on Tensor that requires grad]", n)
            return Arr(v.n, v.elem, v.at, v.key, dict(v.meta, ns=x, dtype=d, requires_grad=False if fam == "np" else v.meta.get("requires_grad", False)), v.facts)
        return v

    @H("arr.detach")
    def arr_detach(I, a, k, n):
        v = a[0]
        return Arr(v.n, v.elem, v.at, v.key, dict(v.meta, requires_grad=False), v.facts)

    @H("arr.to")
    def arr_to(I, a, k, n):
        v, d = a[0], a[1]
        return Arr(v.n, v.elem, v.at, v.key, dict(v.meta, dtype=d), v.facts)

    # module-level `np.asarray(...)` / `xp.asarray(...)` on token arrays: the namespace-aware contract
    generic_asarray = reg.handlers["xp.asarray"]

    def mod_asarray(I, a, k, n):
        mod, rest = a[0], a[1:]
        x = as_ns(mod)
        tok = any(isinstance(v, Arr) and isinstance(v.meta.get("ns"), Obj) for v in rest)
        if x is not None and tok:
            return ns_asarray(I, [x] + list(rest), k, n)
        return generic_asarray(I, list(rest), k, n)
    mod_asarray._wants_mod = True
    reg.handlers["xp.asarray"] = mod_asarray

    def mod_dtype(I, a, k, n):
        x = as_ns(a[0])
        if x is None:
            raise Unsupported("xp.dtype on an abstract namespace")
        return ns_dtype(I, [x] + list(a[1:]), k, n)
    mod_dtype._wants_mod = True
    reg.handlers["xp.dtype"] = mod_dtype
    for w in (32, 64):
        reg.consts[f"xp.torch.float{w}"] = dt("torch", w)
        reg.consts[f"xp.numpy.float{w}"] = dt("np", w)
        reg.consts[f"xp.jax.float{w}"] = dt("np", w)

    # jax -> torch goes through DLPack in utils.asarray
    reg.obj_props["NS.utils"] = lambda I, o, n: Obj("TorchUtils", {})
    reg.obj_props["TorchUtils.dlpack"] = lambda I, o, n: Obj("TorchDlpack", {})

    @H("TorchDlpack.from_dlpack")
    def from_dlpack(I, a, k, n):
        assumed(I, "torch.utils.dlpack.from_dlpack(jax_array): a tensor with the same values and width")
        v = a[1]
        old = v.meta.get("dtype")
        return Arr(v.n, v.elem, v.at, v.key, dict(v.meta, ns=ns("torch"), dtype=dt("torch", width_of(old)) if isinstance(old, Obj) else old), v.facts)

    reg.handlers["infer_device_stub"] = None
    del reg.handlers["infer_device_stub"]

    reg.obj_props["NS.__name__"] = lambda I, o, n: o.f["__name__"]
    reg.obj_props["NS.float32"] = lambda I, o, n: dt(FAMILY[o.f["name"].v], 32)
    reg.obj_props["NS.float64"] = lambda I, o, n: dt(FAMILY[o.f["name"].v], 64)
    reg.obj_props["dtype.name"] = lambda I, o, n: o.f["name"] if "name" in o.f else None
    reg.handlers["to_device"] = lambda I, a, k, n: a[0]
    reg.handlers["array_api_compat.to_device"] = reg.handlers["to_device"]
    reg.handlers["device"] = lambda I, a, k, n: Str("cpu")
    reg.handlers["array_api_compat.device"] = reg.handlers["device"]

    # str(dtype) for the torch family (used by _dtype_to_name / convert_dtype)
    old_str = reg.handlers["str"]

    def h_str(I, a, k, n):
        x = a[0]
        if isinstance(x, Obj) and x.cls == "dtype":
            w = z3.simplify(x.f["width"].e).as_long()
            return Str(f"torch.float{w}" if x.f["family"].v == "torch" else f"float{w}")
        return old_str(I, a, k, n)
    reg.handlers["str"] = h_str


def same_dtype(a, b):
    return isinstance(a, Obj) and isinstance(b, Obj) and a.cls == b.cls == "dtype" and a.f["family"].v == b.f["family"].v and width_of(a) == width_of(b)


class ResolveDtype(Contract):
    qual = "utils:resolve_dtype"
    properties = ("C15",)
    raises = {"ValueError": "unknown dtype name for the namespace"}
    doc = ("None -> None; a string name -> the dtype of that width in xp's family; a dtype object of xp's family -> itself; a numpy-family object for "
           "NumPy/JAX -> itself; a foreign object is returned unchanged (callers must convert first: see convert_dtype)")

    def shapes(self):
        return [{"spec": s, "xp": x} for s in spec_values() for x in ("numpy", "torch", "jax")]

    def setup(self, I, shape):
        spec = spec_values()[shape["spec"]]
        return Pre(None, [spec, ns(shape["xp"])], ghost={"spec": spec, "xp": shape["xp"], "shape": shape})

    def post(self, I, pre, r):
        p, g = I.path, pre.ghost
        q = self.qual
        spec, xp = g["spec"], g["xp"]
        tag = f"[{g['shape']['spec']} for {xp}]"
        if isinstance(spec, NoneV):
            p.prove(z3.BoolVal(isinstance(r, NoneV)), f"{q}:C15:None stays None {tag}")
            return
        fam = FAMILY[xp]
        if isinstance(spec, Str) or spec.f["family"].v == fam:
            p.prove(z3.BoolVal(same_dtype(r, dt(fam, width_of(spec)))), f"{q}:C15:result belongs to the namespace's dtype family and keeps the requested width {tag}")
        else:
            p.prove(z3.BoolVal(r is spec), f"{q}:C15:a dtype object of another family is returned unchanged (precondition of callers: convert first) {tag}")

    def post_raise(self, I, pre, sig):
        g = pre.ghost
        # every spelling in the shape list names an existing dtype: nothing may be raised for it
        I.path.prove(z3.BoolVal(False), f"{self.qual}:C15:a valid dtype specification is resolved, not rejected [{g['shape']['spec']} for {g['xp']}: {sig.exc}]", assume_after=False)


class ConvertDtype(Contract):
    qual = "utils:convert_dtype"
    properties = ("C15",)
    raises = {"ValueError": "dtype cannot be named / target namespace missing"}
    force_inline = INLINE
    doc = "the dtype of the *target* namespace's family with the same floating-point width, for every source spelling"

    def shapes(self):
        return [{"spec": s, "xp": x} for s in spec_values() for x in ("numpy", "torch", "jax")]

    def setup(self, I, shape):
        spec = spec_values()[shape["spec"]]
        return Pre(None, [spec, ns(shape["xp"])], ghost={"spec": spec, "xp": shape["xp"], "shape": shape})

    def post(self, I, pre, r):
        p, g = I.path, pre.ghost
        q = self.qual
        spec, xp = g["spec"], g["xp"]
        tag = f"[{g['shape']['spec']} -> {xp}]"
        if isinstance(spec, NoneV):
            p.prove(z3.BoolVal(isinstance(r, NoneV)), f"{q}:C15:None stays None {tag}")
            return
        p.prove(z3.BoolVal(same_dtype(r, dt(FAMILY[xp], width_of(spec)))), f"{q}:C15:result belongs to the target namespace and keeps the floating-point width {tag}")

    def post_raise(self, I, pre, sig):
        g = pre.ghost
        I.path.prove(z3.BoolVal(False), f"{self.qual}:C15:conversion succeeds for every supported spelling [{g['shape']['spec']} -> {g['xp']}: {sig.exc}]", assume_after=False)


def mk_token_samples(cls, src_ns, width, present, name="s", requires_grad=False, I=None):
    n = z3.Int(f"N_{name}")
    if I is not None:
        I.path.assume(n >= 2)
    d = dt(FAMILY[src_ns], width)
    meta = {"ns": ns(src_ns), "dtype": d, "requires_grad": requires_grad}
    f = {"x": base_arr(f"{name}_x", "row", n, meta)}
    for k in FIELDS[1:]:
        f[k] = base_arr(f"{name}_{k}", "real", n, meta) if k in present else NONE
    f.update({"parameters": Sym(z3.Const(f"params_{name}", Misc), "params"), "dtype": d, "xp": ns(src_ns), "device": NONE})
    if cls == "SMCSamples":
        f["beta"] = R(z3.Real(f"beta_{name}"))
    if cls in ("SMCSamples", "Samples"):
        f["log_evidence"] = R(z3.Real(f"logZ_{name}"))
        f["log_evidence_error"] = R(z3.Real(f"logZerr_{name}"))
    o = Obj(cls, f)
    if cls == "Samples":
        full = all(k in present for k in FIELDS[1:])
        for k in ("log_w", "weights"):
            o.f[k] = base_arr(f"{name}_{k}", "real", n, meta) if full else NONE
        for k in ("effective_sample_size", "evidence", "evidence_error"):
            o.f[k] = R(z3.Real(f"{k}_{name}")) if full else NONE
    return o


PRESENT = [(), ("log_q",), ("log_likelihood", "log_prior", "log_q")]


class Conversion(Contract):
    """shared post: values preserved, namespace = target, width preserved, None stays None, evidence carried"""
    properties = ("C15",)
    force_inline = INLINE
    target_of = None

    def check(self, I, pre, r, target, want_width, tag, evidence=True):
        p, g = I.path, pre.ghost
        q = self.qual
        src = g["snap"]
        if not isinstance(r, Obj):
            p.prove(z3.BoolVal(False), f"{q}:C15:returns a sample set {tag}")
            return
        p.prove(z3.BoolVal(r.cls == g["cls"].replace("_from", "")), f"{q}:C15:class of the result {tag}")
        for k in FIELDS:
            a, b = src[k], r.f.get(k, NONE)
            if isinstance(a, NoneV):
                p.prove(z3.BoolVal(isinstance(b, NoneV)), f"{q}:C15:absent field {k} stays None {tag}")
                continue
            p.prove(arr_eq_goal(b, a), f"{q}:C15:values of {k} preserved {tag}")
            ok = isinstance(b, Arr) and as_ns(b.meta.get("ns")) is not None and as_ns(b.meta["ns"]).f["name"].v == target
            p.prove(z3.BoolVal(ok), f"{q}:C15:{k} lives in the target namespace {tag}")
            d = b.meta.get("dtype") if isinstance(b, Arr) else None
            p.prove(z3.BoolVal(same_dtype(d, dt(FAMILY[target], want_width))), f"{q}:C15:{k} keeps the floating-point width {tag}")
        p.prove(z3.BoolVal(as_ns(r.f.get("xp")) is not None and as_ns(r.f["xp"]).f["name"].v == target), f"{q}:C15:result records the target namespace {tag}")
        p.prove(z3.BoolVal(same_dtype(r.f.get("dtype"), dt(FAMILY[target], want_width))), f"{q}:C15:result records a dtype of the target namespace with the same width {tag}")
        p.prove(z3.BoolVal(r.f.get("parameters") is src["parameters"]), f"{q}:C15:parameters carried {tag}")
        if evidence and g["cls"] in ("Samples", "SMCSamples") and not (g["cls"] == "Samples" and all(not isinstance(src[k], NoneV) for k in FIELDS[1:])):
            # the NumPy copy is what Samples.save writes (C13): evidence given to a sample set without all three log fields is not recomputed
            t13 = "C13:" if q.endswith(".to_numpy") else ""
            for k in ("log_evidence", "log_evidence_error"):
                p.prove(I.equal(r.f.get(k, NONE), src[k]), f"{q}:C15:{t13}{k} carried {tag}")
        if g["cls"] == "SMCSamples":
            p.prove(I.equal(r.f.get("beta", NONE), src["beta"]), f"{q}:C15:beta carried {tag}")

    def post_raise(self, I, pre, sig):
        g = pre.ghost
        I.path.prove(z3.BoolVal(False), f"{self.qual}:C15:conversion succeeds for every ordered pair of namespaces [{g['tag']}: {sig.exc}]", assume_after=False)


def conv_shapes(classes, targets=("numpy", "torch", "jax")):
    return [{"cls": c, "src": s, "tgt": t, "w": w, "present": pr} for c in classes for s in ("numpy", "torch", "jax") for t in targets for w in (32, 64) for pr in range(len(PRESENT))]


class BaseToNamespace(Conversion):
    qual = "samples:BaseSamples.to_namespace"
    doc = "every ordered pair of namespaces: values, optional fields, width preserved"
    classes = ("BaseSamples", "SMCSamples")

    def shapes(self):
        out = [dict(s, dtype=None) for s in conv_shapes(self.classes)]
        # an explicit precision, spelled as a string: it is resolved in the *target* namespace and wins over the source's width
        if self.qual == "samples:BaseSamples.to_namespace":      # Samples.to_namespace takes no dtype argument
            out += [dict(s, dtype=d) for s in conv_shapes(self.classes) for d in ("float32", "float64") if s["present"] in (0, len(PRESENT) - 1)]
        return out

    def setup(self, I, shape):
        s = mk_token_samples(shape["cls"], shape["src"], shape["w"], PRESENT[shape["present"]], I=I)
        tag = f"{shape['cls']} {shape['src']} float{shape['w']} -> {shape['tgt']}" + (f", dtype='{shape['dtype']}'" if shape.get("dtype") else "")
        kw = {"dtype": Str(shape["dtype"])} if shape.get("dtype") else {}
        return Pre(s, [ns(shape["tgt"])], kw, ghost={"snap": dict(s.f), "cls": shape["cls"], "shape": shape, "tag": tag})

    def post(self, I, pre, r):
        sh = pre.ghost["shape"]
        self.check(I, pre, r, sh["tgt"], int(sh["dtype"][-2:]) if sh.get("dtype") else sh["w"], f"[{pre.ghost['tag']}]", evidence=False)


from contracts.aspire_api import ToNamespaceModel  # noqa: E402


class SamplesToNamespace(BaseToNamespace, ToNamespaceModel):
    qual = "samples:Samples.to_namespace"
    classes = ("Samples",)

    def post(self, I, pre, r):
        sh = pre.ghost["shape"]
        self.check(I, pre, r, sh["tgt"], int(sh["dtype"][-2:]) if sh.get("dtype") else sh["w"], f"[{pre.ghost['tag']}]", evidence=True)


class BaseToNumpy(Conversion):
    qual = "samples:BaseSamples.to_numpy"
    classes = ("BaseSamples",)
    doc = "values, optional fields and width preserved; result is a NumPy sample set"

    def shapes(self):
        out = [dict(s, dtype=None) for s in conv_shapes(self.classes, targets=("numpy",))]
        # an explicit dtype argument (string spelling): the requested width wins over the source's
        if self.qual == "samples:BaseSamples.to_numpy":         # only the base method takes a dtype argument
            out += [dict(s, dtype=d) for s in conv_shapes(self.classes, targets=("numpy",)) for d in ("float32", "float64") if s["present"] in (0, len(PRESENT) - 1)]
        return out

    def setup(self, I, shape):
        s = mk_token_samples(shape["cls"], shape["src"], shape["w"], PRESENT[shape["present"]], I=I)
        tag = f"{shape['cls']} {shape['src']} float{shape['w']} -> numpy" + (f", dtype='{shape['dtype']}'" if shape["dtype"] else "")
        kw = {"dtype": Str(shape["dtype"])} if shape["dtype"] else {}
        return Pre(s, [], kw, ghost={"snap": dict(s.f), "cls": shape["cls"], "shape": shape, "tag": tag})

    def post(self, I, pre, r):
        sh = pre.ghost["shape"]
        self.check(I, pre, r, "numpy", int(sh["dtype"][-2:]) if sh["dtype"] else sh["w"], f"[{pre.ghost['tag']}]")


class SamplesToNumpy(BaseToNumpy):
    qual = "samples:Samples.to_numpy"
    classes = ("Samples",)


class SMCToNumpy(BaseToNumpy):
    qual = "samples:SMCSamples.to_numpy"
    classes = ("SMCSamples",)


from contracts.smc_base import FromSamplesModel  # noqa: E402


class FromSamples(Conversion, FromSamplesModel):
    qual = "samples:BaseSamples.from_samples"
    doc = ("copies all four arrays and parameters into namespace kw.get('xp', source xp) with the width of kw['dtype'] when given (string or dtype of the "
           "target namespace) and otherwise of the source; extra keywords (beta) are set")
    properties = ("C15", "C10", "C11")

    def shapes(self):
        out = []
        for cls in ("Samples", "SMCSamples"):
            for src in ("numpy", "torch", "jax"):
                for tgt in ("same", "numpy", "torch", "jax"):
                    for w in (32, 64):
                        for dk in ("absent", "None", "'float32'", "'float64'", "target64"):
                            out.append({"cls": cls, "src": src, "tgt": tgt, "w": w, "dtype": dk, "present": 2})
        return out

    def setup(self, I, shape):
        s = mk_token_samples("Samples", shape["src"], shape["w"], PRESENT[shape["present"]], I=I)
        tgt = shape["src"] if shape["tgt"] == "same" else shape["tgt"]
        kw = {}
        if shape["tgt"] != "same":
            kw["xp"] = ns(tgt)
        want = shape["w"]
        if shape["dtype"] == "None":
            kw["dtype"] = NONE
        elif shape["dtype"] in ("'float32'", "'float64'"):
            kw["dtype"] = Str(shape["dtype"].strip("'"))
            want = int(shape["dtype"][-3:-1])
        elif shape["dtype"] == "target64":
            kw["dtype"] = dt(FAMILY[tgt], 64)
            want = 64
        if shape["cls"] == "SMCSamples":
            kw["beta"] = R(z3.Real("beta_kw"))
        tag = f"{shape['cls']}.from_samples(Samples {shape['src']} float{shape['w']}, xp={shape['tgt']}, dtype={shape['dtype']})"
        return Pre(ClassRef(shape["cls"]), [s], kw, ghost={"snap": dict(s.f), "cls": shape["cls"], "shape": shape, "tag": tag, "tgt": tgt, "want": want, "kw": kw})

    def post(self, I, pre, r):
        g = pre.ghost
        p = I.path
        self.check(I, pre, r, g["tgt"], g["want"], f"[{g['tag']}]", evidence=False)
        if g["cls"] == "SMCSamples" and isinstance(r, Obj):
            p.prove(I.equal(r.f.get("beta", NONE), g["kw"]["beta"]), f"{self.qual}:C15:C11:extra keyword beta is set on the result [{g['tag']}]")

    def check(self, I, pre, r, target, want_width, tag, evidence=True):
        g = pre.ghost
        cls = g["cls"]
        g2 = dict(g)
        super().check(I, pre, r, target, want_width, tag, evidence=False) if cls != "SMCSamples" else self._check_smc(I, pre, r, target, want_width, tag)

    def _check_smc(self, I, pre, r, target, want_width, tag):
        # same clauses, but beta comes from the keyword (not from the source)
        g = pre.ghost
        saved = g["cls"]
        g["cls"] = "SMCSamples_from"
        try:
            Conversion.check(self, I, pre, r, target, want_width, tag, evidence=False)
        finally:
            g["cls"] = saved


class ArrayToNamespace(Conversion):
    """the helper every sampler uses to attach what the user's callables return (log-prior, log-likelihood, proposal density) to a population"""
    qual = "samples:BaseSamples.array_to_namespace"
    properties = ("C15",)
    doc = ("the result lives in the sample set's namespace with the sample set's floating-point width (or the explicitly requested one), whatever "
           "namespace and width the given array has; values preserved")

    def shapes(self):
        return [{"self": s, "sw": sw, "x": x, "xw": xw, "dtype": d} for s in ("numpy", "torch", "jax") for sw in (32, 64) for x in ("numpy", "torch", "jax")
                for xw in (32, 64) for d in (None, "float32", "float64")]

    def setup(self, I, shape):
        s = mk_token_samples("BaseSamples", shape["self"], shape["sw"], PRESENT[0], I=I)
        n = z3.Int("n_given")
        I.path.assume(n >= 1)
        arr = base_arr("given", "real", n, {"ns": ns(shape["x"]), "dtype": dt(FAMILY[shape["x"]], shape["xw"]), "requires_grad": False})
        kw = {"dtype": Str(shape["dtype"])} if shape["dtype"] else {}
        tag = f"[{shape['x']} float{shape['xw']} array into a {shape['self']} float{shape['sw']} sample set" + (f", dtype='{shape['dtype']}'" if shape["dtype"] else "") + "]"
        return Pre(s, [arr], kw, ghost={"arr": arr, "shape": shape, "tag": tag})

    def post(self, I, pre, r):
        p, g = I.path, pre.ghost
        q, sh, tag = self.qual, g["shape"], g["tag"]
        ok = isinstance(r, Arr)
        p.prove(z3.BoolVal(ok), f"{q}:C15:returns an array {tag}")
        if not ok:
            return
        p.prove(arr_eq_goal(r, g["arr"]), f"{q}:C15:values preserved {tag}")
        nsr = as_ns(r.meta.get("ns"))
        p.prove(z3.BoolVal(nsr is not None and nsr.f["name"].v == sh["self"]), f"{q}:C15:result lives in the sample set's namespace {tag}")
        want = int(sh["dtype"][-2:]) if sh["dtype"] else sh["sw"]
        p.prove(z3.BoolVal(same_dtype(r.meta.get("dtype"), dt(FAMILY[sh["self"]], want))),
                f"{q}:C15:result has the sample set's floating-point width (or the one requested), not the width of the given array {tag}")

    def post_raise(self, I, pre, sig):
        I.path.prove(z3.BoolVal(False), f"{self.qual}:C15:conversion succeeds for every pair of namespaces {pre.ghost['tag']} [{sig.exc}]", assume_after=False)
