"""C11: producer / consumer contracts of the checkpoint payload and their relational composition."""
from __future__ import annotations

import ast

import z3

from pyvc.contracts import Contract, Pre
from pyvc.engine import PathEnd, RaiseSig, Unsupported
from pyvc.lib import Misc, RS, IS, BS, assumed
from pyvc.values import (NONE, Arr, B, ClassRef, Fn, I as IV, NoneV, Obj, PyDict, PyList, R, Str, Sym, SymList, Tup, Z, base_arr, fresh, skey,
                         to_int, to_real, uf)
from contracts.samples import FIELDS, arr_eq_goal, mk_any_samples
from contracts.smc_base import ALL_SERIES, BuildCheckpointStateModel, RestoreFromCheckpointModel

M = "samplers.smc.base"
BITGEN = uf("bit_generator_state", Misc, Misc)


def install(reg):
    H = reg.register

    def rng_value(e, has_bitgen=True):
        return Sym(e, "rng", {"attrs": {}, "hasattr": (lambda name: name == "bit_generator" and has_bitgen or name in ("choice", "uniform", "normal"))})

    reg.mk_rng = rng_value

    # bit_generator.state get/set (assumed: set(get()) round-trips)
    def rng_getattr(I, o, n):
        return Obj("BitGen", {"owner": o})

    orig = reg.value_attr

    def value_attr(i, o, attr, n, _orig=orig):
        if isinstance(o, Sym) and o.tag == "rng" and attr == "bit_generator":
            if "hasattr" in o.info and not o.info["hasattr"]("bit_generator"):
                return None
            return Obj("BitGen", {"owner": o})
        return _orig(i, o, attr, n)

    reg.value_attr = value_attr
    reg.obj_props["BitGen.state"] = lambda I, o, n: o.f["owner"].info.get("state", Sym(BITGEN(o.f["owner"].e), "rngstate"))
    def set_state(I, o, attr, v, n):
        if isinstance(o, Obj) and o.cls == "BitGen":
            o.f["owner"].info["state"] = v

    reg.setattr_hooks["state"] = set_state

    def pickle_loads(I, a, k, n):
        from pyvc.lib import assumed as _a
        _a(I, "pickle.loads(pickle.dumps(v)) is structurally equal to v (copy, no shared mutable state)")
        b = a[0]
        if isinstance(b, Arr) and "bytes_of" in b.meta:
            return I.reg.deep_copy(I, b.meta["bytes_of"], {})
        if isinstance(b, Sym) and "of" in b.info:
            return I.reg.deep_copy(I, b.info["of"], {})
        if isinstance(b, Sym) and b.info.get("hdf5_container"):
            _a(I, "pickle.loads of the raw bytes of an HDF5 container raises UnpicklingError (they do not start with a pickle opcode)")
            raise RaiseSig("UnpicklingError", n)
        raise Unsupported("pickle.loads of unknown bytes")

    reg.handlers["pickle.loads"] = pickle_loads


def assigned_before_read(stmts):
    """names of a loop body that are loop-carried: read (in program order) before being assigned in the same iteration, and assigned somewhere in the body"""
    assigned, carried = set(), set()
    all_assigned = set()
    for st in stmts:
        for x in ast.walk(st):
            if isinstance(x, ast.Name) and isinstance(x.ctx, ast.Store):
                all_assigned.add(x.id)
            if isinstance(x, ast.AugAssign) and isinstance(x.target, ast.Name):
                all_assigned.add(x.target.id)

    def visit(node):
        # evaluation order approximation: value before targets
        if isinstance(node, ast.Assign):
            visit_expr(node.value)
            for t in node.targets:
                for x in ast.walk(t):
                    if isinstance(x, ast.Name):
                        assigned.add(x.id)
            return
        if isinstance(node, ast.AugAssign):
            if isinstance(node.target, ast.Name) and node.target.id not in assigned and node.target.id in all_assigned:
                carried.add(node.target.id)
            visit_expr(node.value)
            if isinstance(node.target, ast.Name):
                assigned.add(node.target.id)
            return
        if isinstance(node, (ast.If, ast.While)):
            visit_expr(node.test)
            for b in node.body + node.orelse:
                visit(b)
            return
        for x in ast.iter_child_nodes(node):
            if isinstance(x, ast.expr):
                visit_expr(x)
            elif isinstance(x, ast.stmt):
                visit(x)

    def visit_expr(e):
        for x in ast.walk(e):
            if isinstance(x, ast.Name) and isinstance(x.ctx, ast.Load) and x.id in all_assigned and x.id not in assigned:
                carried.add(x.id)

    for st in stmts:
        visit(st)
    return carried


PAYLOAD_OF = {"iterations": "iteration", "beta": "meta.beta", "samples": "samples", "min_step": "min_step"}


class BuildCheckpointState(BuildCheckpointStateModel):
    qual = f"{M}:SMCSampler.build_checkpoint_state"
    properties = ("C11", "C12", "C18", "C08")
    doc = ("payload['samples'] is the population passed in, ['iteration'] and ['meta']['beta'] the values passed in, ['history'] a deep copy of "
           "self.history (no list shared with the live sampler), ['rng_state'] the generator's bit-generator state, ['min_step'] the current "
           "adaptive minimum step, ['sampler'] the class name; every loop-carried variable of SMCSampler.sample (computed from the ast) has a payload entry")

    def shapes(self):
        return [{"bitgen": 1}, {"bitgen": 0}]

    def setup(self, I, shape):
        hist = Obj("SMCHistory", {nm: SymList(z3.Int(f"len_{nm}"), None, z3.Real(f"sum_{nm}"), nm) for nm in ALL_SERIES})
        hist.f["sample_history"] = SymList(z3.Int("len_sh"), None, None, "sample_history", elem="pop")
        rng = I.reg.mk_rng(z3.Const("sampler_rng", Misc), has_bitgen=bool(shape["bitgen"]))
        s = Obj("SMCSampler", {"history": hist, "rng": rng, "sampler_kwargs": PyDict({"n_steps": IV(5)}), "parameters": Sym(z3.Const("params", Misc), "params"),
                               "_min_step": R(z3.Real("cur_min_step"))})
        pop = mk_any_samples(I, "SMCSamples", "pop", FIELDS[1:])
        it, beta = z3.Int("iteration"), z3.Real("beta")
        return Pre(s, [pop, IV(it), R(beta)], ghost={"s": s, "pop": pop, "it": it, "beta": beta, "hist": hist, "rng": rng, "shape": shape})

    def post(self, I, pre, st):
        p, g = I.path, pre.ghost
        q = self.qual
        if not isinstance(st, PyDict):
            p.prove(z3.BoolVal(False), f"{q}:returns a dict")
            return
        d = st.d
        p.prove(z3.BoolVal(d.get("samples") is g["pop"]), f"{q}:C11:C12:payload carries the population it was given")
        p.prove(z3.BoolVal("iteration" in d) if "iteration" not in d else to_int(d["iteration"]) == g["it"], f"{q}:C11:C12:payload carries the iteration")
        meta = d.get("meta")
        ok = isinstance(meta, PyDict) and "beta" in meta.d
        p.prove(to_real(meta.d["beta"]) == g["beta"] if ok else z3.BoolVal(False), f"{q}:C11:C12:C08:payload carries the exact temperature (a resumed run computes its next ratio from it)")
        h = d.get("history")
        is_copy = isinstance(h, Obj) and h is not g["hist"] and getattr(h, "copy_of", None) is g["hist"]
        p.prove(z3.BoolVal(is_copy), f"{q}:C11:C08:C18:C06:payload history is a copy of the sampler's history, not the live object")
        if isinstance(h, Obj):
            for nm in ALL_SERIES + ["sample_history"]:
                a, b = h.f.get(nm), g["hist"].f.get(nm)
                p.prove(z3.BoolVal(a is not None and a is not b), f"{q}:C11:C08:C18:C06:payload series `{nm}` does not alias the live list (later appends must not reach the checkpoint: a resume from the in-memory dictionary would see a temperature recorded twice or skip the rest of the schedule)")
                if isinstance(a, SymList) and isinstance(b, SymList):
                    p.prove(a.len == b.len, f"{q}:C11:C18:payload series `{nm}` has the entries recorded so far")
        if g["shape"]["bitgen"]:
            rs = d.get("rng_state", NONE)
            p.prove(rs.e == BITGEN(g["rng"].e) if isinstance(rs, Sym) else z3.BoolVal(False), f"{q}:C11:C20:payload carries the generator state")
        else:
            rs = d.get("rng_state", NONE)
            p.prove(z3.BoolVal(not isinstance(rs, NoneV)), f"{q}:C11:payload carries the generator state [generator without bit_generator]")
        ms = d.get("min_step", NONE)
        p.prove(to_real(ms) == to_real(g["s"].f["_min_step"]) if isinstance(ms, Z) else z3.BoolVal(False), f"{q}:C11:payload carries the adaptive minimum step")
        p.prove(z3.BoolVal(isinstance(d.get("sampler"), Str) and d["sampler"].v == "SMCSampler"), f"{q}:C11:C14:payload names the sampler class that wrote it")
        # loop-carried locals of SMCSampler.sample, from the ast
        fn = I.front.get(f"{M}:SMCSampler.sample")
        loop = next(x for x in ast.walk(fn.node) if isinstance(x, ast.While))
        carried = assigned_before_read(loop.body)
        for v in sorted(carried):
            key = PAYLOAD_OF.get(v)
            have = False
            if key is not None:
                cur = st
                for part in key.split("."):
                    cur = cur.d.get(part) if isinstance(cur, PyDict) else None
                have = cur is not None
            p.prove(z3.BoolVal(have), f"{q}:C11:loop-carried variable `{v}` of SMCSampler.sample has an entry in the checkpoint payload")

    def canaries(self, I, pre, st):
        return []


def run_state_attributes(front, cls):
    """Frame of one run, computed from the ast: the attributes of `self` that carry a value from one iteration of SMCSampler.sample to a later
    one.  T = every method reachable from <cls>.sample through self.m(...), super().m(...) and properties, without the `sample` entry methods
    themselves; an attribute is *written during the run* if a method of T assigns it or an entry method assigns it inside a loop, and it is run
    state if some method of T or an entry method also reads it without having unconditionally assigned it first in the same method (AugAssign and
    write-only bookkeeping such as counters or the last checkpoint are not read).  Returns {attr: (writers, readers)}."""
    seen, todo = {}, [("sample", None)]
    while todo:
        m, after = todo.pop()
        info = front.find_method(cls, m, after=after) or (front.find_property(cls, m) if after is None else None)
        if info is None:
            continue
        key = f"{info.cls}.{info.node.name}"
        if key in seen:
            continue
        seen[key] = info
        for x in ast.walk(info.node):
            if isinstance(x, ast.Call) and isinstance(x.func, ast.Attribute):
                v = x.func.value
                if isinstance(v, ast.Name) and v.id == "self":
                    todo.append((x.func.attr, None))
                elif isinstance(v, ast.Call) and isinstance(v.func, ast.Name) and v.func.id == "super":
                    todo.append((x.func.attr, info.cls))
            if isinstance(x, ast.Attribute) and isinstance(x.value, ast.Name) and x.value.id == "self" and isinstance(x.ctx, ast.Load):
                todo.append((x.attr, None))

    def accesses(node):
        """(attr, 'store'|'load', lineno, inside_loop, top_level) for every access to self.<attr> in a method body"""
        out = []

        def rec(n, in_loop, top):
            for ch in ast.iter_child_nodes(n):
                if isinstance(ch, (ast.FunctionDef, ast.AsyncFunctionDef, ast.Lambda)) and ch is not node:
                    rec(ch, in_loop, False)
                    continue
                loop = in_loop or isinstance(ch, (ast.While, ast.For, ast.ListComp, ast.DictComp, ast.SetComp, ast.GeneratorExp))
                is_top = top and n is node and isinstance(ch, (ast.Assign, ast.AnnAssign))
                if isinstance(ch, ast.Attribute) and isinstance(ch.value, ast.Name) and ch.value.id == "self":
                    out.append((ch.attr, "store" if isinstance(ch.ctx, ast.Store) else "load", ch.lineno, in_loop, top))
                if isinstance(ch, ast.Call) and isinstance(ch.func, ast.Name) and ch.func.id in ("getattr", "hasattr", "setattr") and len(ch.args) >= 2 \
                        and isinstance(ch.args[0], ast.Name) and ch.args[0].id == "self" and isinstance(ch.args[1], ast.Constant):
                    out.append((ch.args[1].value, "store" if ch.func.id == "setattr" else "load", ch.lineno, in_loop, top))
                rec(ch, loop, is_top if isinstance(ch, (ast.Assign, ast.AnnAssign)) else (top and not isinstance(ch, ast.stmt)))
        rec(node, False, True)
        return out
    writers, readers = {}, {}
    for key, info in seen.items():
        entry = info.node.name == "sample"
        acc = accesses(info.node)
        first_top_store = {}
        for a, kind, ln, in_loop, top in acc:
            if kind == "store" and top and not in_loop:
                first_top_store[a] = min(ln, first_top_store.get(a, ln))
        for a, kind, ln, in_loop, top in acc:
            if kind == "store" and (not entry or in_loop):
                writers.setdefault(a, set()).add(key)
            if kind == "load" and not (a in first_top_store and first_top_store[a] < ln):
                readers.setdefault(a, set()).add(key)
    return {a: (sorted(writers[a]), sorted(readers[a])) for a in writers if a in readers}, sorted(seen)


def payload_attributes(front, cls):
    """-> (attributes of self the payload-building methods read, attributes of self the restore methods write - directly or through a sub-attribute such as
    self.rng.bit_generator.state = ...), over the MRO of `cls`"""
    def methods(names):
        out = []
        for c in front.mro(cls):
            ci = front.classes.get(c)
            if ci is None:
                continue
            for nm in names:
                if nm in ci.methods:
                    out.append(ci.methods[nm])
        return out

    def root_attr(x):
        # self.a, self.a.b.c, self.a[...]  -> a
        while isinstance(x, (ast.Attribute, ast.Subscript)):
            if isinstance(x, ast.Attribute) and isinstance(x.value, ast.Name) and x.value.id == "self":
                return x.attr
            x = x.value
        return None
    saved, restored = set(), set()
    for fi in methods(("build_checkpoint_state", "_checkpoint_extra_state")):
        for x in ast.walk(fi.node):
            if isinstance(x, ast.Attribute) and isinstance(x.value, ast.Name) and x.value.id == "self" and isinstance(x.ctx, ast.Load):
                saved.add(x.attr)
            if isinstance(x, ast.Call) and isinstance(x.func, ast.Name) and x.func.id == "getattr" and len(x.args) >= 2 and isinstance(x.args[0], ast.Name) and x.args[0].id == "self" \
                    and isinstance(x.args[1], ast.Constant):
                saved.add(x.args[1].value)
    for fi in methods(("restore_from_checkpoint", "_restore_extra_state")):
        for x in ast.walk(fi.node):
            if isinstance(x, (ast.Attribute, ast.Subscript)) and isinstance(x.ctx, ast.Store):
                a = root_attr(x)
                if a is not None:
                    restored.add(a)
            if isinstance(x, ast.Call) and isinstance(x.func, ast.Name) and x.func.id == "setattr" and len(x.args) >= 2 and isinstance(x.args[0], ast.Name) and x.args[0].id == "self" \
                    and isinstance(x.args[1], ast.Constant):
                restored.add(x.args[1].value)
    return saved, restored


class SubclassFrames(Contract):
    """attributes written on `self` during a run (by the loop of SMCSampler.sample and every method it reaches, for each kernel class) and read
    again later in the run must be restorable from the payload"""
    qual = f"{M}:SMCSampler._checkpoint_extra_state"
    properties = ("C11",)
    doc = ("every attribute of the sampler that carries a value from one iteration of the run to a later one (assigned by a method reachable from "
           "sample(), or inside its loop, and read again) is part of the checkpoint payload, for each kernel class")

    def shapes(self):
        return [{"cls": c} for c in ("MiniPCNSMC", "EmceeSMC", "BlackJAXSMC")]

    def setup(self, I, shape):
        hist = Obj("SMCHistory", {nm: SymList(z3.Int(f"len_{nm}"), None, z3.Real(f"sum_{nm}"), nm) for nm in ALL_SERIES})
        hist.f["sample_history"] = SymList(z3.Int("len_sh"), None, None, "sample_history", elem="pop")
        rng = I.reg.mk_rng(z3.Const("sampler_rng", Misc), True)
        s = Obj(shape["cls"], {"history": hist, "rng": rng, "sampler_kwargs": PyDict({}), "_min_step": NONE, "key": Sym(z3.Const("jaxkey", Misc), "key")})
        return Pre(s, [], ghost={"s": s, "shape": shape})

    def post(self, I, pre, d):
        p, g = I.path, pre.ghost
        q = self.qual
        cls = g["shape"]["cls"]
        state, methods = run_state_attributes(I.front, cls)
        saved, restored = payload_attributes(I.front, cls)
        for a in sorted(state):
            w = state[a][0]
            by = next((m for m in w if m.endswith(".mutate")), w[0])
            # covered: the payload builders read the attribute and the restore methods write it back (followed through the ast, no attribute names assumed)
            p.prove(z3.BoolVal(isinstance(d, PyDict) and a in saved and a in restored),
                    f"{q}:C11:attribute self.{a} written by {by} is part of the checkpoint payload")
        p.prove(z3.BoolVal(len(methods) >= 8 and len(state) >= 2 and len(saved) >= 2 and len(restored) >= 2),
                f"{q}:C11:{cls}: the run's methods were found from the ast ({len(methods)} methods, {len(state)} attribute(s) of run state examined; payload reads {sorted(saved)}, restore writes {sorted(restored)})")


class RestoreFromCheckpoint(RestoreFromCheckpointModel):
    qual = f"{M}:SMCSampler.restore_from_checkpoint"
    properties = ("C11", "C18", "C15")
    raises = {"TypeError": "unsupported source type", "ValueError": "checkpoint without samples"}
    doc = ("relational: the payload built by the real build_checkpoint_state from an arbitrary sampler state, passed through each route (dict, pickled "
           "bytes, file path), restores population values, temperature, iteration, history, generator state and adaptive minimum step")

    def shapes(self):
        return [{"route": r} for r in ("dict", "bytes", "path", "PATH")]       # PATH: a file name with an upper-case extension (the writer accepts it)

    def setup(self, I, shape):
        p = I.path
        # ---- producer: the real SMCSampler.build_checkpoint_state on a symbolic sampler
        prod = BuildCheckpointState()
        pre0 = prod.setup(I, {"bitgen": 1})
        info = I.front.get(prod.qual)
        I.depth += 1          # not the function under verification: inline the producer's real body
        try:
            state = I.call_repo(info, pre0.self_obj, pre0.args, pre0.kwargs, None, force_inline=True)
        finally:
            I.depth -= 1
        g0 = pre0.ghost
        # ---- a fresh sampler (same arguments) that resumes
        rng2 = I.reg.mk_rng(z3.Const("resumed_rng", Misc), True)
        s2 = Obj("SMCSampler", {"history": NONE, "rng": rng2, "xp": Sym(z3.Const("sampler_xp", Misc), "ns"), "dtype": Sym(z3.Const("sampler_dtype", Misc), "dtype"),
                                "_min_step": NONE, "n_likelihood_evaluations": IV(z3.Int("evals_of_resuming_sampler")),
                                # what the caller of the resumed run configured: kernel settings (incl. the step count of the final mutation) and schedule options
                                "sampler_kwargs": PyDict({"n_steps": IV(z3.Int("resumed_n_steps")), "n_final_steps": IV(z3.Int("resumed_n_final_steps"))}),
                                "prior_flow": Sym(z3.Const("resumed_prior_flow", Misc), "flow"), "log_likelihood": Fn(lambda *x: NONE, "resumed_L"),
                                "preconditioning_transform": Sym(z3.Const("resumed_preconditioning", Misc), "transform")})
        frame0 = {k: (v, dict(v.d) if isinstance(v, PyDict) else None) for k, v in s2.f.items() if k not in ("history", "_min_step")}
        route = shape["route"]
        if route == "dict":
            src = state
        elif route == "bytes":
            src = I.reg.handlers["pickle.dumps"](I, [state], {}, None)
            src.meta["is_bytes"] = True
        else:
            # the file written by the default file callback for this state
            from contracts.io import fs, mk_group
            root = mk_group("/")
            ck = mk_group("checkpoint")
            blob = I.reg.handlers["pickle.dumps"](I, [state], {}, None)
            ck.f["members"].d["state"] = Obj("H5Dataset", {"shape0": IV(blob.n), "data": blob, "name": Str("state"), "resizable": B(True)})
            root.f["members"].d["checkpoint"] = ck
            src = Str("run.h5" if route == "path" else "RUN.H5")
            fs(I)[skey(src)] = root           # the file exists with these contents whichever way it is opened
            p.ghost["file_root"] = root
            orig_open = I.reg.handlers["AspireFile.__new__"]

            def open_pre(I2, a, k, n, _o=orig_open, _root=root):
                f = fs(I2)
                key = skey(a[0])
                if key not in f:
                    f[key] = _root
                return _o(I2, a, k, n)
            I.reg.handlers["AspireFile.__new__"] = open_pre
            p.ghost["restore_open"] = orig_open
        return Pre(s2, [src], ghost={"prod": g0, "state": state, "s2": s2, "rng2": rng2, "route": route, "frame0": frame0})

    def post(self, I, pre, r):
        p, g = I.path, pre.ghost
        q = self.qual
        if "restore_open" in p.ghost:
            I.reg.handlers["AspireFile.__new__"] = p.ghost["restore_open"]
        g0 = g["prod"]
        route = g["route"]
        tag = f"[{route}]"
        if not (isinstance(r, Tup) and len(r.items) == 3):
            p.prove(z3.BoolVal(False), f"{q}:C11:C12:returns (samples, beta, iteration) {tag}")
            return
        smp, beta, it = r.items
        for k in FIELDS:
            p.prove(arr_eq_goal(smp.f.get(k, NONE), g0["pop"].f[k]), f"{q}:C11:restored {k} has the checkpointed values {tag}")
        p.prove(to_real(beta) == g0["beta"], f"{q}:C11:restored temperature {tag}")
        p.prove(to_int(it) == g0["it"], f"{q}:C11:restored iteration {tag}")
        p.prove(to_real(smp.f["beta"]) == g0["beta"], f"{q}:C11:restored population carries the checkpointed temperature {tag}")
        s2 = g["s2"]
        h2 = s2.f["history"]
        ok = isinstance(h2, Obj) and h2.cls == "SMCHistory"
        p.prove(z3.BoolVal(ok), f"{q}:C11:C18:history restored {tag}")
        if ok:
            for nm in ALL_SERIES + ["sample_history"]:
                a, b = h2.f.get(nm), g0["hist"].f.get(nm)
                p.prove(a.len == b.len if isinstance(a, SymList) and isinstance(b, SymList) else z3.BoolVal(False),
                        f"{q}:C11:C18:restored series `{nm}` has the checkpointed entries {tag}")
        # C17: the counter reports what *this* sampler's likelihood was asked to evaluate: restoring a checkpoint does not touch it
        ev = s2.f.get("n_likelihood_evaluations")
        p.prove(to_int(ev) == z3.Int("evals_of_resuming_sampler") if isinstance(ev, Z) else z3.BoolVal(False),
                f"{q}:C17:restoring a checkpoint leaves the likelihood-evaluation counter of the resuming sampler untouched {tag}")
        # frame: restore assigns the history, the adaptive minimum step and the generator's state; everything the caller configured on the resuming
        # sampler for *this* run (kernel settings with the step count of the final mutation, proposal, callables, preconditioning) is left alone
        for k, (v0, d0) in g["frame0"].items():
            if k == "n_likelihood_evaluations":
                continue
            v1 = s2.f.get(k)
            same = v1 is v0 and (d0 is None or (set(v1.d) == set(d0) and all(v1.d[kk] is d0[kk] for kk in d0)))
            p.prove(z3.BoolVal(same), f"{q}:C11:restoring leaves `{k}` of the resuming sampler as the caller configured it (restore assigns history, minimum step and generator state only) {tag}")
        if route == "dict" and ok:
            # the caller's checkpoint dictionary is a record: the resumed run appends to its own copy of the history, never to the dictionary's
            src_h = g["state"].d.get("history") if isinstance(g["state"], PyDict) else None
            alias = (h2 is src_h) or any(h2.f.get(nm) is src_h.f.get(nm) for nm in ALL_SERIES + ["sample_history"]) if isinstance(src_h, Obj) else True
            p.prove(z3.BoolVal(not alias), f"{q}:C11:C18:the restored history is the sampler's own copy (a second resume from the same dictionary sees the checkpoint as written) {tag}")
        st = g["rng2"].info.get("state")
        p.prove(st.e == BITGEN(g0["rng"].e) if isinstance(st, Sym) else z3.BoolVal(False), f"{q}:C11:C20:generator state restored {tag}")
        ms = s2.f.get("_min_step", NONE)
        p.prove(to_real(ms) == to_real(g0["s"].f["_min_step"]) if isinstance(ms, Z) else z3.BoolVal(False), f"{q}:C11:adaptive minimum step restored {tag}")
        from contracts.samples import dtype_carried
        p.prove(z3.BoolVal(dtype_carried(smp.f.get("dtype"), s2.f["dtype"])), f"{q}:C15:restored population has the precision requested from the sampler {tag}")

    def post_raise(self, I, pre, sig):
        if "restore_open" in I.path.ghost:
            I.reg.handlers["AspireFile.__new__"] = I.path.ghost["restore_open"]
        I.path.prove(z3.BoolVal(False), f"{self.qual}:C11:C12:restoring a well-formed checkpoint does not raise (what the run left behind is loadable) [{pre.ghost['route']}: {sig.exc}]", assume_after=False)
