"""Sidecar contracts for src/aspire/samplers/smc/base.py (C06, C07, C08, C12 cadence, C18, C11)."""
from __future__ import annotations

import ast
import itertools

import z3

from pyvc.contracts import Contract, Pre
from pyvc.engine import LoopSpec, PathEnd, RaiseSig, Unsupported
from pyvc.lib import Misc, RS, IS, assumed
from pyvc.spec import ESS_IW, LER, LERV, PopData, data_of, ess_of, iw_arr, lemma, mk_samples
from pyvc.values import (NONE, Arr, B, Fn, I as IV, NoneV, Obj, PyDict, PyList, R, Str, Sym, SymList, Tup, Z, base_arr, fresh, to_int,
                         to_real, uf)

M = "samplers.smc.base"


def real_of(v):
    return to_real(v)


def assigned_names(stmts):
    out = []
    for st in stmts:
        for x in ast.walk(st):
            if isinstance(x, ast.Name) and isinstance(x.ctx, ast.Store) and x.id not in out:
                out.append(x.id)
    return out


def havoc_locals(I, names):
    """fresh values of the same sort for the locals a loop body assigns"""
    env = I.frame.env
    for nm in names:
        v = env.get(nm)
        if isinstance(v, Z):
            sort = {"real": z3.Real, "int": z3.Int, "bool": z3.Bool}[v.kind]
            env[nm] = Z(sort(fresh(nm)), v.kind)


# =============================================================================== target efficiency
def mk_sampler(I, shape, cls="SMCSampler"):
    """symbolic SMCSampler with a *valid* target efficiency (postcondition of the setter)"""
    f = {"adaptive": B(z3.Bool("adaptive")), "adaptive_min_step": B(z3.Bool("adaptive_min_step")),
         "target_efficiency_rate": R(z3.Real("te_rate"))}
    if shape.get("te", "scalar") == "scalar":
        t = z3.Real("te")
        f["_target_efficiency"] = R(t)
        f["_adapative_target_efficiency"] = B(False)
        I.path.assume(z3.And(t > 0, t < 1))
    else:
        t0, t1 = z3.Reals("te0 te1")
        f["_target_efficiency"] = Tup([R(t0), R(t1)])
        f["_adapative_target_efficiency"] = B(True)
        I.path.assume(z3.And(t0 > 0, t0 < t1, t1 < 1, z3.Real("te_rate") > 0))
    return Obj(cls, f)


class TargetEfficiencySetter(Contract):
    qual = f"{M}:SMCSampler.target_efficiency.setter"
    properties = ("C06", "C07")
    doc = "accepts a float in (0,1) or an increasing pair in (0,1); everything else raises ValueError"
    raises = {"ValueError": "value is not a float in (0,1) / an increasing pair in (0,1)"}

    def shapes(self):
        return [{"value": "float"}, {"value": "pair"}, {"value": "triple"}, {"value": "int-pair"}]

    def setup(self, I, shape):
        # the sampler may have been used before: the flag (and a previous target) are whatever the last call left
        s = Obj("SMCSampler", {"_adapative_target_efficiency": B(z3.Bool("flag_left_by_previous_call"))})
        k = shape["value"]
        if k == "float":
            v = R(z3.Real("value"))
        elif k == "pair":
            v = Tup([R(z3.Real("v0")), R(z3.Real("v1"))])
        elif k == "int-pair":
            v = Tup([IV(z3.Int("v0")), IV(z3.Int("v1"))])
        else:
            v = Tup([R(z3.Real("v0")), R(z3.Real("v1")), R(z3.Real("v2"))])
        return Pre(s, [v], ghost={"value": v, "kind": k})

    def post(self, I, pre, result):
        s, v, k = pre.self_obj, pre.ghost["value"], pre.ghost["kind"]
        p = I.path
        te = s.f.get("_target_efficiency")
        if k == "float":
            p.prove(z3.And(v.e > 0, v.e < 1, te.e == v.e, z3.Not(s.f["_adapative_target_efficiency"].e)),
                    f"{self.qual}:C06:accepted-float-in-(0,1)-stored-unchanged, ramp flag cleared whatever a previous call left")
        elif k in ("pair", "int-pair"):
            a, b = (to_real(x) for x in v.items)
            ok = isinstance(te, Tup) and len(te.items) == 2
            p.prove(z3.BoolVal(ok), f"{self.qual}:pair-stored-as-pair")
            if ok:
                p.prove(z3.And(0 < a, a < b, b < 1, to_real(te.items[0]) == a, to_real(te.items[1]) == b, s.f["_adapative_target_efficiency"].e),
                        f"{self.qual}:C06:accepted-pair-increasing-in-(0,1), ramp flag set")
        else:
            p.prove(z3.BoolVal(False), f"{self.qual}:triple-must-raise")

    def post_raise(self, I, pre, sig):
        v, k = pre.ghost["value"], pre.ghost["kind"]
        p = I.path
        if sig.exc != "ValueError":
            return super().post_raise(I, pre, sig)
        if k == "float":
            p.prove(z3.Not(z3.And(v.e > 0, v.e < 1)), f"{self.qual}:raises-only-for-invalid-float")
        elif k in ("pair", "int-pair"):
            a, b = (to_real(x) for x in v.items)
            p.prove(z3.Not(z3.And(0 < a, a < b, b < 1)), f"{self.qual}:raises-only-for-invalid-pair")

    def model(self, I, info, bound, args, kwargs, node):
        # caller's view: validates and stores
        v = args[0]
        s = bound
        if isinstance(v, Z) and v.kind == "real":
            if not I.path.branch(z3.And(v.e > 0, v.e < 1)):
                raise RaiseSig("ValueError", node)
            s.f["_target_efficiency"] = v
            s.f["_adapative_target_efficiency"] = B(False)
        elif isinstance(v, Tup) and len(v.items) == 2:
            a, b = (to_real(x) for x in v.items)
            if not I.path.branch(z3.And(0 < a, a < b, b < 1)):
                raise RaiseSig("ValueError", node)
            s.f["_target_efficiency"] = Tup([R(a), R(b)])
            s.f["_adapative_target_efficiency"] = B(True)
        else:
            raise RaiseSig("ValueError", node)
        return NONE


class CurrentTargetEfficiency(Contract):
    qual = f"{M}:SMCSampler.current_target_efficiency"
    properties = ("C06", "C07")
    doc = "0 < result < 1; scalar target returned unchanged; ramp stays within [t0, t1] for 0 <= beta <= 1"

    def shapes(self):
        return [{"te": "scalar"}, {"te": "ramp"}]

    def setup(self, I, shape):
        s = mk_sampler(I, shape)
        b = z3.Real("beta")
        I.path.assume(z3.And(b >= 0, b <= 1))
        return Pre(s, [R(b)], ghost={"shape": shape})

    def post(self, I, pre, result):
        p = I.path
        s = pre.self_obj
        r = to_real(result)
        if pre.ghost["shape"]["te"] == "scalar":
            p.prove(r == s.f["_target_efficiency"].e, f"{self.qual}:scalar-target-returned")
        else:
            t0, t1 = (to_real(x) for x in s.f["_target_efficiency"].items)
            p.prove(z3.And(t0 <= r, r <= t1), f"{self.qual}:ramp-within-[t0,t1]")
        p.prove(z3.And(r > 0, r < 1), f"{self.qual}:result-in-(0,1)")

    def canaries(self, I, pre, result):
        return [("result>=0.5", to_real(result) >= 0.5)]

    def model(self, I, info, bound, args, kwargs, node):
        s = bound
        beta = to_real(args[0] if args else kwargs["beta"])
        te = s.f["_target_efficiency"]
        if isinstance(te, Tup):
            t0, t1 = (to_real(x) for x in te.items)
            r = TE_RAMP(t0, t1, to_real(s.f["target_efficiency_rate"]), beta)
            I.path.prove(z3.And(beta >= 0, beta <= 1), f"pre[{self.qual}]: 0 <= beta <= 1", kind="precondition")
            I.path.assume(z3.And(t0 <= r, r <= t1), check=False)
            return R(r)
        return te


TE_RAMP = uf("TE_ramp", RS, RS, RS, RS, RS)


# =============================================================================== determine_beta
def E_of(I, samples, b):
    """E(b) = ESS(IW(samples, b)) / len(samples), with the lemma instances for this term"""
    a = iw_arr(I, samples, R(b))
    return ess_of(I, a) / z3.ToReal(samples.f["x"].n)


class DetermineBeta(Contract):
    def must_return(self, shape):
        return True

    qual = f"{M}:SMCSampler.determine_beta"
    properties = ("C06", "C07")
    doc = ("requires 0 <= beta < 1, beta_tolerance > 0, min_step >= 0, samples.beta == beta, valid target; "
           "adaptive: E(beta_star) >= t and (beta_star == 1 or (E(beta_max) < t and 0 < beta_max - beta_star <= tol)); "
           "result[0] == min(max(beta_star, beta + max(min_step', tol)), 1); beta < result[0] <= 1; result[1] >= 0; "
           "fixed schedule on the grid beta = k/n, step = 1/n: result[0] == (k+1)/n, equal to 1 exactly when k+1 == n")

    def shapes(self):
        return [{"te": te, "mode": m} for te in ("scalar", "ramp") for m in ("adaptive", "fixed")]

    def setup(self, I, shape):
        p = I.path
        s = mk_sampler(I, shape)
        beta, step, ms, tol = z3.Reals("beta beta_step min_step beta_tolerance")
        N = z3.Int("N")
        smp = mk_samples("SMCSamples", "pop", N, R(beta))
        p.assume(z3.And(N >= 1, beta >= 0, beta < 1, tol > 0, ms >= 0))
        ghost = {"beta": beta, "step": step, "ms": ms, "tol": tol, "samples": smp, "shape": shape}
        if shape["mode"] == "fixed":
            p.assume(z3.Not(s.f["adaptive"].e))
            k, n = z3.Ints("k_grid n_grid")
            # the fixed schedule lives on the grid beta = k/n, beta_step = 1/n  (SMCSampler.sample: beta_step = 1 / n_steps)
            p.assume(z3.And(n >= 1, k >= 0, k < n, step * z3.ToReal(n) == 1, beta * z3.ToReal(n) == z3.ToReal(k)))
            ghost.update(k=k, n=n)
        else:
            p.assume(s.f["adaptive"].e)
        return Pre(s, [smp, R(beta), R(step), R(ms)], {"beta_tolerance": R(tol)}, ghost)

    def loops(self, I, pre):
        g = pre.ghost
        smp = g["samples"]

        def inv(I):
            e = I.frame.env
            bp, bmin, bmax, t = (to_real(e[k]) for k in ("beta_prev", "beta_min", "beta_max", "target_eff"))
            return [("bracket beta_prev <= beta_min <= beta_max <= 1", z3.And(bp <= bmin, bmin <= bmax, bmax <= 1)),
                    ("E(beta_min) >= target", E_of(I, smp, bmin) >= t),
                    ("beta_min == 1 or E(beta_max) < target", z3.Or(bmin == 1, E_of(I, smp, bmax) < t)),
                    ("beta_min < beta_max or beta_min == 1", z3.Or(bmin < bmax, bmin == 1)),
                    ("E(1) >= target implies beta_min == 1", z3.Implies(E_of(I, smp, z3.RealVal(1)) >= t, bmin == 1))]

        def havoc(I):
            n = self._loop_node(I)
            havoc_locals(I, assigned_names(n.body))

        def variant(I):
            e = I.frame.env
            return to_real(e["beta_max"]) - to_real(e["beta_min"])

        def decreases(I, v0):
            e = I.frame.env
            v1 = to_real(e["beta_max"]) - to_real(e["beta_min"])
            return [("bracket halves (terminates: tolerance > 0)", z3.And(v1 <= v0 / 2, v0 > g["tol"]))]

        return {0: LoopSpec(inv, havoc, variant, decreases)}

    def _loop_node(self, I):
        fn = I.frame.func
        for x in ast.walk(fn.node):
            if isinstance(x, ast.While):
                return x

    def post(self, I, pre, result):
        p, g = I.path, pre.ghost
        q = self.qual
        if not (isinstance(result, Tup) and len(result.items) == 2):
            p.prove(z3.BoolVal(False), f"{q}:returns-pair")
            return
        bnew, ms2 = (to_real(x) for x in result.items)
        beta, tol = g["beta"], g["tol"]
        p.prove(bnew > beta, f"{q}:C06:strict-progress beta < result[0]")
        p.prove(bnew <= 1, f"{q}:C06:result[0] <= 1")
        p.prove(ms2 >= 0, f"{q}:C06:result[1] >= 0")
        if g["shape"]["mode"] == "fixed":
            k, n = g["k"], g["n"]
            p.prove(bnew * z3.ToReal(n) == z3.ToReal(k + 1), f"{q}:C06:fixed-step lands on the grid (k+1)/n")
            p.prove((bnew == 1) == (k + 1 == n), f"{q}:C06:fixed-step reaches 1 exactly at step n")
            p.prove(ms2 == g["ms"], f"{q}:fixed: min_step returned unchanged")
            return
        env = getattr(I, "final_env", {})
        need = ("beta_star", "beta_max", "target_eff", "beta_prev")
        if not all(k in env for k in need):
            raise_out_of_date(q, need)
        bs, bmax, t = (to_real(env[k]) for k in ("beta_star", "beta_max", "target_eff"))
        smp = g["samples"]
        te_head = I.call_method(pre.self_obj, "current_target_efficiency", [R(beta)], {}, None)
        p.prove(t == to_real(te_head), f"{q}:C07:target is the one in force at the step's start")
        p.prove(E_of(I, smp, bs) >= t, f"{q}:C07:E(beta_star) >= target")
        p.prove(z3.Or(bs == 1, z3.And(E_of(I, smp, bmax) < t, bmax - bs > 0, bmax - bs <= tol)),
                f"{q}:C07:beta_star maximal within tolerance (bracket: E(beta_max) < target, 0 < beta_max - beta_star <= tol) or 1")
        p.prove(z3.Implies(E_of(I, smp, z3.RealVal(1)) >= t, bs == 1), f"{q}:C07:full step taken when it meets the target")
        floor = beta + z3.If(ms2 >= tol, ms2, tol)
        mx = z3.If(bs >= floor, bs, floor)
        p.prove(bnew == z3.If(mx <= 1, mx, 1), f"{q}:C07:result is beta_star except for the minimum-step floor and the cap at 1")
        p.prove(z3.Implies(z3.And(g["ms"] <= tol, z3.Not(pre.self_obj.f["adaptive_min_step"].e)), z3.Or(bnew == 1, z3.And(bnew - bs <= tol, bnew >= bs))),
                f"{q}:C07:without a min_step above the tolerance the result is within tolerance of beta_star")

    def canaries(self, I, pre, result):
        g = pre.ghost
        return [("result[0] <= beta + tol/2 (must be refutable)", to_real(result.items[0]) <= g["beta"] + g["tol"] / 2)]

    # ---- caller's view (used inside SMCSampler.sample)
    def model(self, I, info, bound, args, kwargs, node):
        p = I.path
        env = I.bind(info.node, args, kwargs, node, info.module, skip_self=bound)
        samples, beta, step, ms, tol = (env[k] for k in ("samples", "beta", "beta_step", "min_step", "beta_tolerance"))
        s = bound
        q = self.qual
        b = to_real(beta)
        p.prove(z3.And(b >= 0, b < 1), f"pre[{q}]: 0 <= beta < 1", kind="precondition")
        p.prove(to_real(ms) >= 0, f"pre[{q}]: min_step >= 0", kind="precondition")
        p.prove(to_real(tol) > 0, f"pre[{q}]: beta_tolerance > 0", kind="precondition")
        p.prove(to_real(samples.f["beta"]) == b, f"pre[{q}]: samples.beta == beta", kind="precondition")
        adaptive = s.f["adaptive"].e
        b2, m2 = z3.Real(fresh("beta_new")), z3.Real(fresh("min_step_new"))
        p.assume(z3.And(b2 > b, b2 <= 1, m2 >= 0), check=False)
        if isinstance(step, Z):
            st = to_real(step)
            p.prove(z3.Or(adaptive, st > 0), f"pre[{q}]: adaptive or beta_step > 0", kind="precondition")
            p.assume(z3.Implies(z3.Not(adaptive), z3.And(b2 == z3.If(b + st + st / 2 >= 1, 1, b + st), m2 == to_real(ms))), check=False)
        else:
            p.prove(adaptive, f"pre[{q}]: adaptive or beta_step > 0", kind="precondition")
        floor = b + z3.If(m2 >= to_real(tol), m2, to_real(tol))
        p.assume(z3.Implies(adaptive, z3.Or(b2 == 1, b2 >= floor)), check=False)
        ams = s.f.get("adaptive_min_step")
        if isinstance(ams, Z):
            p.assume(z3.Implies(z3.Not(ams.e), m2 == to_real(ms)), check=False)     # proved for the body: min_step is only rescaled when adaptive_min_step is set
        p.event("determine_beta", samples, beta, R(b2), tol, ms, adaptive)
        return Tup([R(b2), R(m2)])


def raise_out_of_date(q, need):
    from pyvc.engine import ContractOutOfDate
    raise ContractOutOfDate(f"{q}: contract refers to locals {need} that no longer exist")


# =============================================================================== SMCSampler.sample
SERIES = ["log_norm_ratio", "log_norm_ratio_var", "beta", "ess", "ess_target", "eff_target"]
MUT_SERIES = ["mcmc_acceptance"]
ALL_SERIES = SERIES + MUT_SERIES + ["mcmc_autocorr"]


def list_len(l):
    if isinstance(l, SymList):
        return l.len
    if isinstance(l, PyList):
        return z3.IntVal(len(l.items))
    raise Unsupported(f"length of {l!r}")


def list_last(l):
    if isinstance(l, SymList):
        return l.last
    if isinstance(l, PyList):
        return l.items[-1] if l.items else None
    return None


def list_sum(l):
    if isinstance(l, SymList):
        return l.sum
    if isinstance(l, PyList):
        s = z3.RealVal(0)
        for x in l.items:
            s = s + to_real(x)
        return s
    return None


def mk_pop(name, n, beta, aligned=True):
    o = mk_samples("SMCSamples", fresh(name), n, beta)
    o.f["__aligned"] = B(aligned)
    return o


def is_aligned(o):
    v = o.f.get("__aligned")
    return v.e if v is not None else z3.BoolVal(False)


class DrawInitialSamplesModel(Contract):
    qual = "samplers.mcmc:MCMCSampler.draw_initial_samples"
    doc = "len(result) == n_samples, Aligned(result), every log_prior finite, no NaN-free guarantee"

    def model(self, I, info, bound, args, kwargs, node):
        n = to_int(args[0] if args else kwargs["n_samples"])
        I.path.prove(n >= 1, f"pre[{self.qual}]: n_samples >= 1", kind="precondition")
        o = mk_samples("Samples", fresh("init"), n)
        o.f["__aligned"] = B(True)
        I.path.event("draw_initial_samples", o)
        return o


class FromSamplesModel(Contract):
    qual = "samples:BaseSamples.from_samples"
    doc = "copies x, log_likelihood, log_prior, log_q, parameters; namespace/dtype from keywords; extra keywords (beta) set"

    def model(self, I, info, bound, args, kwargs, node):
        src = args[0]
        cls = bound.name
        f = {k: src.f.get(k, NONE) for k in ("x", "log_likelihood", "log_prior", "log_q", "parameters")}
        f["xp"] = kwargs.get("xp", src.f.get("xp", NONE))
        f["dtype"] = kwargs.get("dtype", src.f.get("dtype", NONE))
        f["device"] = kwargs.get("device", src.f.get("device", NONE))
        if cls == "SMCSamples":
            f["beta"] = kwargs.get("beta", NONE)
        if cls in ("SMCSamples", "Samples"):
            f["log_evidence"] = kwargs.get("log_evidence", NONE)
            f["log_evidence_error"] = kwargs.get("log_evidence_error", NONE)
        o = Obj(cls, f)
        o.f["__aligned"] = src.f.get("__aligned", B(False))
        o.f["__from"] = src
        return o


class FitPreconditioningModel(Contract):
    qual = "samplers.base:Sampler.fit_preconditioning_transform"
    doc = "fits self.preconditioning_transform; no effect on loop-carried sampler state"

    def model(self, I, info, bound, args, kwargs, node):
        I.path.event("fit_preconditioning_transform", args[0] if args else None)
        x = args[0]
        if isinstance(x, Arr):
            return base_arr(fresh("z"), "row", x.n)
        return NONE


class DefaultFileCheckpointCallbackModel(Contract):
    qual = "samplers.base:Sampler.default_file_checkpoint_callback"
    doc = "returns a callback that stores the payload (file + in-memory)"

    def model(self, I, info, bound, args, kwargs, node):
        def cb(I2, a, k, n):
            I2.path.event("callback", a[0], "file")
            return NONE
        return Fn(cb, "file_checkpoint_callback")


class BuildCheckpointStateModel(Contract):
    qual = f"{M}:SMCSampler.build_checkpoint_state"
    doc = "payload carries the samples object, iteration, beta, a copy of the history and the generator state"

    def model(self, I, info, bound, args, kwargs, node):
        env = I.bind(info.node, args, kwargs, node, info.module, skip_self=bound)
        h = bound.f["history"]
        return Obj("ckstate", {"samples": env["samples"], "iteration": env["iteration"], "beta": env["beta"],
                               "hist_len": IV(list_len(h.f["beta"])),
                               "hist_sum": R(list_sum(h.f["log_norm_ratio"])) if list_sum(h.f["log_norm_ratio"]) is not None else NONE,
                               "sh_len": IV(list_len(h.f["sample_history"])), "sh_last": list_last(h.f["sample_history"]),
                               "samples_evidence": env["samples"].f.get("log_evidence", NONE)})


RES = uf("resample_idx", PopData, RS, RS, IS, IS, IS)      # (data, beta0, beta1, draw#, i) -> source row


class ResampleModel(Contract):
    qual = "samples:SMCSamples.resample"
    doc = ("beta == self.beta and n_samples is None -> self; otherwise one rng.choice(len(self), size=M, replace=True, "
           "p=SOFTMAX(IW(self,beta))) -> IDX and every field is take(field, IDX); result.beta == beta; len == M")

    def model(self, I, info, bound, args, kwargs, node):
        env = I.bind(info.node, args, kwargs, node, info.module, skip_self=bound)
        s, beta, ns, rng = bound, env["beta"], env["n_samples"], env["rng"]
        p = I.path
        if isinstance(ns, NoneV):
            if p.branch(to_real(beta) == to_real(s.f["beta"])):
                p.event("resample-identity", s, beta)
                return s
        n = s.f["x"].n if isinstance(ns, NoneV) else to_int(ns)
        draw = len([e for e in p.events if e[0] == "resample"])
        idxf = uf(fresh("IDX"), IS, IS)
        idx = Arr(n, "int", lambda k: idxf(k), fresh("idx"))
        f = {}
        for k in ("x", "log_likelihood", "log_prior", "log_q"):
            a = s.f[k]
            f[k] = Arr(n, a.elem, (lambda kk, _a=a: _a.at(idxf(kk))), f"take({a.key},{idx.key})", a.meta)
        f.update({"beta": beta, "dtype": s.f["dtype"], "parameters": s.f["parameters"], "xp": s.f["xp"], "device": s.f.get("device", NONE),
                  "log_evidence": NONE, "log_evidence_error": NONE})
        o = Obj("SMCSamples", f)
        o.f["__aligned"] = s.f.get("__aligned", B(False))
        p.event("resample", s, beta, ns, rng, o)
        return o


class MutateModel(Contract):
    qual = f"{M}:SMCSampler.mutate"
    doc = ("returns a new Aligned population of the same size at temperature beta; appends exactly one entry to "
           "history.mcmc_acceptance; evaluates prior before likelihood (C17)")

    def usable_at_call(self, I, q):
        return True

    def model(self, I, info, bound, args, kwargs, node):
        src, beta = args[0], args[1]
        n = src.f["x"].n
        if I.path.ghost.get("interruptible") and I.path.choose(2, "mutate-interrupted") == 1:
            # the kernel runs user code for a long time: the user's interrupt (or an error of the likelihood) arrives here, before anything was appended
            I.path.event("mutate-interrupted", src, beta)
            raise RaiseSig("KeyboardInterrupt", node)
        o = mk_pop("mut", n, beta)
        acc = bound.f["history"].f["mcmc_acceptance"]
        I.call(I.getattr(acc, "append"), [R(z3.Real(fresh("acc")))], {}, node)
        I.path.event("mutate", src, beta, kwargs.get("n_steps", args[2] if len(args) > 2 else NONE), o)
        return o


class ToStandardSamplesModel(Contract):
    qual = "samples:SMCSamples.to_standard_samples"
    doc = "Samples with the same x, log_likelihood, log_prior; log_evidence and log_evidence_error carried unchanged"

    def model(self, I, info, bound, args, kwargs, node):
        s = bound
        o = Obj("Samples", {"x": s.f["x"], "log_likelihood": s.f["log_likelihood"], "log_prior": s.f["log_prior"], "log_q": NONE,
                            "xp": s.f["xp"], "parameters": s.f["parameters"], "dtype": s.f["dtype"],
                            "log_evidence": s.f["log_evidence"], "log_evidence_error": s.f["log_evidence_error"], "__src": s})
        o.f["__aligned"] = s.f.get("__aligned", B(False))
        return o


class AsarrayModel(Contract):
    qual = "utils:asarray"
    doc = "value-preserving conversion into namespace xp"

    def model(self, I, info, bound, args, kwargs, node):
        h = I.reg.handlers["xp.asarray"]
        from pyvc.values import Mod
        return h(I, ([Mod("xp")] if getattr(h, "_wants_mod", False) else []) + [args[0]], {}, node)


class RestoreFromCheckpointModel(Contract):
    qual = f"{M}:SMCSampler.restore_from_checkpoint"
    doc = ("given a checkpoint written by build_checkpoint_state at the end of iteration k: returns (population, beta, k); "
           "self.history is the checkpointed history: every series has k entries, last(history.beta) == beta, "
           "sample_history has k+1 entries (when stored) ending with the checkpointed population")

    def model(self, I, info, bound, args, kwargs, node):
        p = I.path
        it, b = z3.Int("ck_iteration"), z3.Real("ck_beta")
        stored = z3.Bool("ck_stored_sample_history")
        npop = z3.Int("ck_npop")
        p.assume(z3.And(it >= 0, b >= 0, b <= 1, npop >= 1, z3.Implies(it == 0, b == 0), z3.Implies(it > 0, b > 0)))
        pop = mk_pop("restored", npop, R(b))
        if p.choose(2, "restored-population-carries-an-evidence") == 1:
            # whatever the restore route leaves in the evidence fields (a checkpoint taken after the evidence was attached, an estimate computed while
            # converting): the run's result must not depend on it
            pop.f["log_evidence"] = R(z3.Real("stale_log_evidence"))
            pop.f["log_evidence_error"] = R(z3.Real("stale_log_evidence_error"))
        h = {}
        for nm in ALL_SERIES:
            h[nm] = SymList(it, None, z3.Real(fresh(f"sum_{nm}")), nm)
        h["beta"].last = R(b)
        ck_pop = mk_pop("ck_last", npop, R(b))
        g0 = getattr(getattr(p, "pre", None), "ghost", {})
        final_ck = False
        if g0.get("shape", {}).get("n_final_samples") and p.choose(2, "checkpoint-kind") == 1:
            # the *forced final* checkpoint of a run with n_final_samples: written after the enlargement, so its population has n_final_samples points
            # and is not the last stored population (which is the one after the last iteration, of the run's own size)
            final_ck = True
            p.assume(z3.And(b == 1, it >= 1, npop == g0["n_final"]))
            nrun = z3.Int("ck_run_population_size")
            p.assume(z3.And(nrun >= 1, nrun != npop), check=False)
            ck_pop = mk_pop("ck_last", nrun, R(b))
        else:
            for k in ("x", "log_likelihood", "log_prior", "log_q"):
                ck_pop.f[k] = pop.f[k]          # the stored copy has the same values as the restored population
        h["sample_history"] = SymList(z3.If(stored, it + 1, 0), ck_pop, None, "sample_history", elem="pop")
        bound.f["history"] = Obj("SMCHistory", h)
        if p.choose(2, "checkpointed-min-step") == 0:
            bound.f["_min_step"] = NONE
        else:
            cms = z3.Real("ck_min_step")
            p.assume(cms >= 0, check=False)
            bound.f["_min_step"] = R(cms)
        p.ghost["ck"] = {"it": it, "beta": b, "stored": stored, "pop": pop, "max_reached": None, "final": final_ck, "last_stored": ck_pop}
        # "same sampling arguments": the checkpoint satisfies the loop invariant of the run that wrote it
        g = getattr(getattr(p, "pre", None), "ghost", {})
        if "store" in g:
            p.assume(stored == g["store"])
            if g["shape"]["n_steps"]:
                p.assume(z3.Implies(z3.Not(g["adaptive"]), z3.And(b * z3.ToReal(g["n_steps"]) == z3.ToReal(it), it <= g["n_steps"])))
            if g["shape"]["max_n_steps"]:
                p.assume(it <= g["max_n"])
            p.assume(z3.Implies(b >= 1, b == 1))
        p.event("restore", pop)
        return Tup([pop, R(b), IV(it)])


class Sample(Contract):
    def must_return(self, shape):
        return True

    qual = f"{M}:SMCSampler.sample"
    properties = ("C06", "C08", "C10", "C12", "C18", "C09")
    raises = {"ValueError": "invalid target_efficiency / neither n_steps nor adaptive / NaN in the initial population"}
    timeout_ms = 30000
    doc = ("loop invariant: 0 <= beta < 1, samples.beta == beta, Aligned(samples), every diagnostic series has exactly "
           "`iterations` entries, last(history.beta) == beta, sample_history has iterations+1 entries ending with `samples`, "
           "cap not yet reached; per iteration: ratio/variance/ESS appended are those of the pre-resampling population at the "
           "new temperature, one resample of that population then one mutate, checkpoint iff iterations % every == 0 with the "
           "current payload; exit only at beta == 1 or the step cap; result.log_evidence == sum(history.log_norm_ratio), "
           "error == sqrt(sum(var)), forced final checkpoint")

    OPT = ["n_steps", "min_step", "max_n_steps", "n_final_samples", "checkpoint_callback", "checkpoint_every", "resume_from"]

    def shapes(self):
        out = []
        for te in ("scalar", "ramp"):
            for combo in itertools.product([0, 1], repeat=len(self.OPT)):
                sh = dict(zip(self.OPT, combo))
                sh["te"] = te
                out.append(sh)
        return out

    def setup(self, I, shape):
        p = I.path
        N = z3.Int("n_samples")
        n_steps, max_n, n_final, every = z3.Ints("n_steps max_n_steps n_final_samples checkpoint_every")
        ms, tol, ter = z3.Reals("min_step_arg beta_tolerance target_efficiency_rate")
        adaptive, store = z3.Bools("adaptive_arg store_sample_history")
        p.assume(z3.And(N >= 1, n_steps >= 1, max_n >= 1, ms >= 0, ms <= 1, tol > 0, n_final >= 1, every >= 1, ter > 0))
        s = Obj("SMCSampler", {"xp": Sym(z3.Const("sampler_xp", Misc), "ns"), "dtype": Sym(z3.Const("sampler_dtype", Misc), "dtype"),
                               "rng": Sym(z3.Const("sampler_rng", Misc), "rng"), "sampler_kwargs": PyDict({"n_steps": IV(5)}),
                               "history": NONE, "_adapative_target_efficiency": B(False)})
        # what the constructor leaves in `history` (None in the pinned tree): taken from the real __init__ chain, most derived assignment first
        for owner, meth, expr in I.front.instance_attr_values("SMCSampler", "history"):
            if meth == "__init__" and expr is not None:
                s.f["history"] = I.eval_in_module(expr, I.front.classes[owner].module)
                break
        if not shape["resume_from"] and p.choose(2, "sampler-reused") == 1:
            # the sampler object has been used before: it still carries the history of that earlier call (any lengths, any contents)
            old = {}
            for nm in ALL_SERIES:
                ln = z3.Int(fresh(f"old_len_{nm}"))
                p.assume(ln >= 0, check=False)
                old[nm] = SymList(ln, R(z3.Real(fresh(f"old_last_{nm}"))), z3.Real(fresh(f"old_sum_{nm}")), nm)
            lsh = z3.Int(fresh("old_len_sample_history"))
            p.assume(lsh >= 0, check=False)
            old["sample_history"] = SymList(lsh, None, None, "sample_history", elem="pop")
            s.f["history"] = Obj("SMCHistory", old)
        if shape["te"] == "scalar":
            te = R(z3.Real("target_efficiency"))
        else:
            te = Tup([R(z3.Real("te0")), R(z3.Real("te1"))])

        def user_cb(I2, a, k, n):
            I2.path.event("callback", a[0], "user")
            return NONE
        kw = {
            "n_steps": IV(n_steps) if shape["n_steps"] else NONE, "adaptive": B(adaptive),
            "min_step": R(ms) if shape["min_step"] else NONE, "max_n_steps": IV(max_n) if shape["max_n_steps"] else NONE,
            "target_efficiency": te, "target_efficiency_rate": R(ter),
            "n_final_samples": IV(n_final) if shape["n_final_samples"] else NONE,
            "checkpoint_callback": Fn(user_cb, "user_checkpoint_callback") if shape["checkpoint_callback"] else NONE,
            "checkpoint_every": IV(every) if shape["checkpoint_every"] else NONE,
            "checkpoint_file_path": Sym(z3.Const("ckpt_path", Misc), "path"),
            "resume_from": Sym(z3.Const("resume_bytes", Misc), "bytes") if shape["resume_from"] else NONE,
            "store_sample_history": B(store), "beta_tolerance": R(tol),
        }
        g = {"shape": shape, "N": N, "n_steps": n_steps, "max_n": max_n, "n_final": n_final, "every": every, "tol": tol, "ms": ms,
             "adaptive": adaptive, "store": store, "self": s}
        if shape["checkpoint_callback"] or shape["checkpoint_every"]:
            p.ghost["interruptible"] = True       # with checkpointing configured, the mutation step may be interrupted (post_raise)
        return Pre(s, [IV(N)], kw, g)

    def post_raise(self, I, pre, sig):
        if sig.exc != "KeyboardInterrupt" or not I.path.ghost.get("interruptible"):
            return super().post_raise(I, pre, sig)
        # an interruption inside the mutation step: whatever checkpoints exist at that moment are complete ones - each was written at the end of
        # an iteration, with the history already holding that iteration's population (C12: the file is current and loadable; C18/C11: resuming
        # from it reproduces the record)
        p, g = I.path, pre.ghost
        for x in [e for e in p.events if e[0] == "callback"]:
            ck = x[1]
            sh_last = ck.f.get("sh_last")
            mutated = any(m[0] == "mutate" and m[4] is ck.f["samples"] for m in p.events)
            p.prove(z3.And(z3.BoolVal(mutated), to_int(ck.f["hist_len"]) == to_int(ck.f["iteration"]),
                           z3.Implies(g["store"], z3.And(to_int(ck.f["sh_len"]) == to_int(ck.f["iteration"]) + 1,
                                                         z3.BoolVal(sh_last is not None and same_pop(sh_last, ck.f["samples"]))))),
                    f"{self.qual}:C12:C18:C11:a checkpoint that exists when the mutation step is interrupted is a complete one (written at the end of an iteration: its population is the mutated one, every series has `iteration` entries and the stored populations end with the checkpointed one)")
        p.prove(z3.BoolVal(True), f"{self.qual}:C12:interruption of the mutation step propagates to the caller")

    # ---------------------------------------------------------------- loop
    def loops(self, I, pre):
        g = pre.ghost
        sh = g["shape"]
        s = g["self"]
        c = self

        def inv(I):
            e = I.frame.env
            h = s.f["history"]
            it = to_int(e["iterations"])
            beta = to_real(e["beta"])
            smp = e["samples"]
            I.path.ghost.setdefault("P0", smp.f["x"].n)
            out = [("0 <= beta < 1", z3.And(beta >= 0, beta < 1)), ("iterations >= 0", it >= 0),
                   ("samples.beta == beta", to_real(smp.f["beta"]) == beta),
                   ("C10 Aligned(samples)", is_aligned(smp)),
                   ("population size unchanged", smp.f["x"].n == I.path.ghost["P0"])]
            for nm in SERIES + MUT_SERIES:
                # C08: the evidence is the sum over *this run's* iterations, so the ratio series must hold exactly one entry per iteration of this run
                tags = "C18 C08" if nm in ("log_norm_ratio", "log_norm_ratio_var") else "C18"
                out.append((f"{tags} len(history.{nm}) == iterations", list_len(h.f[nm]) == it))
            lb = list_last(h.f["beta"])
            out.append(("last(history.beta) == beta", z3.Implies(it > 0, to_real(lb) == beta) if lb is not None else it == 0))
            out.append(("iterations == 0 iff beta == 0", (it == 0) == (beta == 0)))
            sh_l = h.f["sample_history"]
            last = list_last(sh_l)
            out.append(("C18 store_sample_history implies len(sample_history) == iterations + 1",
                        z3.Implies(g["store"], list_len(sh_l) == it + 1)))
            out.append(("C18 last(sample_history) is the current population",
                        z3.Implies(g["store"], z3.BoolVal(last is not None and same_pop(last, smp)))))
            if sh["max_n_steps"]:
                out.append(("C06 C11 step cap not yet reached at loop head", it < g["max_n"]))
            ams = s.f.get("adaptive_min_step")
            if isinstance(ams, Z):
                want_ams = z3.And(g["adaptive"], z3.BoolVal(bool(sh["max_n_steps"] and not sh["min_step"])))
                out.append(("C06 C07 the adaptive minimum step is switched on exactly when this call gives max_n_steps without min_step (not left over from an earlier call)",
                            z3.Implies(g["adaptive"], ams.e == want_ams)))
            if isinstance(e.get("min_step"), Z):
                out.append(("min_step >= 0", to_real(e["min_step"]) >= 0))
                if sh["min_step"]:
                    out.append(("C06 the minimum step given to sample() is the one in force (also on a resumed run)", to_real(e["min_step"]) == g["ms"]))
            if sh["n_steps"]:
                # fixed schedule lives on the grid (over R): beta == iterations / n_steps
                out.append(("C06 fixed schedule: beta == iterations / n_steps",
                            z3.Implies(z3.Not(g["adaptive"]), beta * z3.ToReal(g["n_steps"]) == z3.ToReal(it))))
            return out

        def havoc(I):
            e = I.frame.env
            p = I.path
            if "P0" not in p.ghost:
                p.ghost["P0"] = e["samples"].f["x"].n
            h = s.f["history"]
            it = z3.Int(fresh("iterations"))
            b = z3.Real(fresh("beta"))
            e["iterations"] = IV(it)
            e["beta"] = R(b)
            if isinstance(e.get("min_step"), Z):
                e["min_step"] = R(z3.Real(fresh("min_step")))
            pop = mk_pop("pop", z3.Int(fresh("npop")), R(b), aligned=z3.Bool(fresh("aligned")))
            e["samples"] = pop
            for nm in ALL_SERIES:
                h.f[nm] = SymList(z3.Int(fresh(f"len_{nm}")), R(z3.Real(fresh(f"last_{nm}"))), z3.Real(fresh(f"sum_{nm}")), nm)
            shl = SymList(z3.Int(fresh("len_sample_history")), pop, None, "sample_history", elem="pop")
            if not z3.is_true(z3.simplify(g["store"])):
                # when nothing is stored the list's last element is unconstrained
                pass
            h.f["sample_history"] = shl
            p.ghost.update(POP_HEAD=pop, BETA_HEAD=b, IT_HEAD=it, SUM_HEAD=h.f["log_norm_ratio"].sum, SUMV_HEAD=h.f["log_norm_ratio_var"].sum)
            p.ghost["events_at_head"] = len(p.events)

        def body_end(I):
            return c.body_obligations(I, pre)

        def variant(I):
            e = I.frame.env
            return (to_real(e["beta"]), to_int(e["iterations"]))

        def decreases(I, v0):
            e = I.frame.env
            out = []
            b0, it0 = v0
            b1, it1 = to_real(e["beta"]), to_int(e["iterations"])
            out.append(("iterations increases by one", it1 == it0 + 1))
            if sh["max_n_steps"]:
                out.append(("C06 terminates: max_n_steps - iterations decreases and is bounded below", z3.And(g["max_n"] - it1 < g["max_n"] - it0, g["max_n"] - it0 > 0)))
            if sh["n_steps"]:
                out.append(("C06 terminates (fixed): n_steps - iterations decreases and is bounded below",
                            z3.Implies(z3.Not(g["adaptive"]), z3.And(g["n_steps"] - it1 < g["n_steps"] - it0, g["n_steps"] - it0 > 0))))
            out.append(("C06 terminates (adaptive): beta advances by at least beta_tolerance while below 1",
                        z3.Implies(s.f["adaptive"].e if "adaptive" in s.f else g["adaptive"], z3.Or(b1 == 1, b1 >= b0 + g["tol"]))))
            return out

        return {0: LoopSpec(inv, havoc, variant, decreases, body_end=body_end, at_break=lambda I: c.at_break(I, pre))}

    def at_break(self, I, pre):
        """obligations when the loop is left through `break` (the only exit)"""
        p, g = I.path, pre.ghost
        e = I.frame.env
        beta, it = to_real(e["beta"]), to_int(e["iterations"])
        goal = beta == 1
        if g["shape"]["max_n_steps"]:
            goal = z3.Or(goal, it >= g["max_n"])
        p.prove(goal, f"{self.qual}:C06:loop exits only at beta == 1 or at the step cap")
        for nm, gl in self.body_obligations(I, pre):
            p.prove(gl, f"{self.qual}:loop0:body(last iteration):{nm}", kind="loop-body")
        if g["shape"]["n_steps"]:
            p.prove(z3.Implies(z3.And(z3.Not(g["adaptive"]), beta == 1), it == g["n_steps"]),
                    f"{self.qual}:C06:fixed schedule of n steps ends after exactly n iterations (over R)")

    def body_obligations(self, I, pre):
        p, g = I.path, pre.ghost
        sh = g["shape"]
        e = I.frame.env
        s = g["self"]
        h = s.f["history"]
        ph = p.ghost["POP_HEAD"]
        d = data_of(ph)
        b0 = p.ghost["BETA_HEAD"]
        bn = to_real(e["beta"])
        it = to_int(e["iterations"])
        out = []
        ev = p.events[p.ghost["events_at_head"]:]
        out.append(("C06 beta strictly increases", bn > b0))
        out.append(("C06 0 < beta <= 1", z3.And(bn > 0, bn <= 1)))
        out.append(("iterations advanced by exactly one", it == p.ghost["IT_HEAD"] + 1))
        db = [x for x in ev if x[0] == "determine_beta"]
        out.append(("exactly one determine_beta on the head population at the head temperature",
                    z3.BoolVal(len(db) == 1 and db[0][1] is ph) if db else z3.BoolVal(False)))
        if len(db) == 1:
            out.append(("the new temperature is the one determine_beta returned", bn == to_real(db[0][3])))
            out.append(("C07 the step search runs with the beta_tolerance given to sample()", to_real(db[0][4]) == g["tol"]))
            if len(db[0]) > 6:
                out.append(("C07 C06 the step search is ESS-driven exactly when the caller asked for an adaptive schedule (giving n_steps as well does not switch it off)", db[0][6] == g["adaptive"]))
        lr, lv = list_last(h.f["log_norm_ratio"]), list_last(h.f["log_norm_ratio_var"])
        out.append(("C08 C18 appended ratio == LER(pre-resampling population, temperature actually used)", to_real(lr) == LER(d, b0, bn)))
        out.append(("C08 ratio series grows by exactly that one term", list_sum(h.f["log_norm_ratio"]) == p.ghost["SUM_HEAD"] + LER(d, b0, bn)))
        out.append(("C08 C18 appended variance == LERV(pre-resampling population, new temperature)", to_real(lv) == LERV(d, b0, bn)))
        terms = {x[1]: x[2] for x in ev if x[0] == "evidence.term"}
        out.append(("C08 C15 the entries appended to the evidence series are the values the population computed (kept in the run's namespace and precision: converted to a "
                    "Python float they would be summed in the namespace's default precision at the end)", z3.BoolVal(lr is terms.get("ratio") and lv is terms.get("variance"))))
        out.append(("C08 variance series grows by exactly that one term", list_sum(h.f["log_norm_ratio_var"]) == p.ghost["SUMV_HEAD"] + LERV(d, b0, bn)))
        out.append(("C18 recorded ess == ESS(IW(pre-resampling population, new temperature))", to_real(list_last(h.f["ess"])) == ESS_IW(d, b0, bn)))
        out.append(("C18 recorded ess_target == ESS(IW(pre-resampling population, 1))", to_real(list_last(h.f["ess_target"])) == ESS_IW(d, b0, z3.RealVal(1))))
        out.append(("C18 recorded beta is the new temperature", to_real(list_last(h.f["beta"])) == bn))
        te_new = I.call_method(s, "current_target_efficiency", [R(bn)], {}, None)
        out.append(("C18 recorded eff_target is the target at the new temperature", to_real(list_last(h.f["eff_target"])) == to_real(te_new)))
        res = [x for x in ev if x[0] in ("resample", "resample-identity")]
        mut = [x for x in ev if x[0] == "mutate"]
        order = [x[0] for x in ev if x[0] in ("resample", "resample-identity", "mutate", "callback")]
        ok = (len(res) == 1 and len(mut) == 1 and res[0][0] == "resample" and res[0][1] is ph and order[:2] == ["resample", "mutate"]
              and mut[0][1] is res[0][5] and mut[0][4] is e["samples"])
        out.append(("C09/C10 exactly one resample of the head population, then one mutate of the resampled population; its result is the new population", z3.BoolVal(ok)))
        if res and res[0][0] == "resample":
            out.append(("C09 resampling uses the new temperature", to_real(res[0][2]) == bn))
            out.append(("C09 resampling keeps the population size (n_samples=None)", z3.BoolVal(isinstance(res[0][3], NoneV))))
            out.append(("C20 resampling uses the sampler's generator", z3.BoolVal(res[0][4] is s.f["rng"])))
        if mut:
            out.append(("mutation targets the new temperature", to_real(mut[0][2]) == bn))
        cbs = [x for x in ev if x[0] == "callback"]
        has_cb = sh["checkpoint_callback"] or sh["checkpoint_every"]
        if has_cb:
            every = g["every"] if sh["checkpoint_every"] else z3.IntVal(1)
            due = it % every == 0
            if len(cbs) > 1:
                out.append(("C12 at most one checkpoint per iteration", z3.BoolVal(False)))
            else:
                out.append(("C12 cadence: checkpoint written iff iterations % checkpoint_every == 0",
                            due if len(cbs) == 1 else z3.Not(due)))
            if len(cbs) == 1:
                ck = cbs[0][1]
                out.append(("C12 payload current: samples object, iteration, beta, history of this iteration",
                            z3.And(z3.BoolVal(ck.f["samples"] is e["samples"]), to_int(ck.f["iteration"]) == it, to_real(ck.f["beta"]) == bn,
                                   to_int(ck.f["hist_len"]) == it)))
                sh_last = ck.f.get("sh_last")
                out.append(("C18 C11 checkpointed history already holds the population of this iteration (len(sample_history) == iterations + 1, ending with it)",
                            z3.Implies(g["store"], z3.And(to_int(ck.f["sh_len"]) == it + 1,
                                                          z3.BoolVal(sh_last is not None and same_pop(sh_last, e["samples"]))))))
                out.append(("C12 checkpoint is taken after mutation (last event of the iteration)", z3.BoolVal(order[-1] == "callback" and order[-2] == "mutate")))
        else:
            out.append(("C12 no checkpointing configured: no callback invoked", z3.BoolVal(len(cbs) == 0)))
        return out

    def hooks(self, I, pre):
        return {}

    # ---------------------------------------------------------------- post
    def post(self, I, pre, result):
        p, g = I.path, pre.ghost
        sh = g["shape"]
        q = self.qual
        s = g["self"]
        h = s.f["history"]
        env = getattr(I, "final_env", {})
        if not isinstance(result, Obj) or result.cls != "Samples":
            p.prove(z3.BoolVal(False), f"{q}:returns a Samples object")
            return
        fin = env["samples"]
        p.prove(z3.BoolVal(result.f.get("__src") is fin), f"{q}:result is the final population converted by to_standard_samples")
        p.prove(to_real(result.f["log_evidence"]) == list_sum(h.f["log_norm_ratio"]), f"{q}:C08:log_evidence == sum(history.log_norm_ratio)")
        from pyvc.lib import SQRT
        p.prove(to_real(result.f["log_evidence_error"]) == SQRT(list_sum(h.f["log_norm_ratio_var"])),
                f"{q}:C08:log_evidence_error == sqrt(sum(history.log_norm_ratio_var))")
        it = to_int(env["iterations"])
        for nm in SERIES:
            tg = "C18:C08" if nm in ("log_norm_ratio", "log_norm_ratio_var") else "C18"
            p.prove(list_len(h.f[nm]) == it, f"{q}:{tg}:len(history.{nm}) == iterations at return" + (" (the evidence sums exactly one term per iteration)" if "C08" in tg else ""))
        enlarged = any(x[0] == "resample" and not isinstance(x[3], NoneV) for x in p.events)
        p.prove(list_len(h.f["mcmc_acceptance"]) == it,
                f"{q}:C18:len(history.mcmc_acceptance) == iterations at return" + (" [after final enlargement]" if enlarged else " [no final enlargement]"))
        if enlarged:
            # C08: the enlargement leaves the evidence series untouched (sum identity above is over the same lists)
            enl = [x for x in p.events if x[0] == "resample" and not isinstance(x[3], NoneV)]
            p.prove(z3.And(to_real(enl[-1][2]) == 1, to_int(enl[-1][3]) == g["n_final"]), f"{q}:C08:C09:C05:enlargement resamples at temperature 1 to n_final_samples (whatever temperature the loop stopped at)")
            p.prove(z3.BoolVal(enl[-1][4] is s.f["rng"]), f"{q}:C20:enlargement uses the sampler's generator")
            k_enl = max(i for i, x in enumerate(p.events) if x is enl[-1])
            after = [x for x in p.events[k_enl + 1:] if x[0] == "mutate"]
            p.prove(z3.BoolVal(len(after) == 1 and after[0][1] is enl[-1][5]), f"{q}:C05:C10:the enlarged population is mutated exactly once")
            if len(after) == 1:
                p.prove(to_real(after[0][2]) == 1, f"{q}:C05:the final mutation of the enlarged population targets temperature 1 (the posterior), whatever temperature the loop stopped at")
        beta = to_real(env["beta"])
        goal = to_real(fin.f["beta"]) == 1
        if sh["max_n_steps"]:
            goal = z3.Or(goal, it >= g["max_n"])
        if sh["resume_from"]:
            # a checkpoint taken at the cap by a run with a different cap is outside "same sampling arguments"
            pass
        p.prove(goal, f"{q}:C06:final population at temperature 1 (or the step cap was reached)")
        if sh["max_n_steps"] and not sh["resume_from"]:
            p.prove(it <= g["max_n"], f"{q}:C06:step cap honoured (iterations <= max_n_steps)")
        p.prove(is_aligned(result), f"{q}:C10:Aligned(result)")
        nfin = g["n_final"] if sh["n_final_samples"] else None
        if nfin is not None:
            p.prove(result.f["x"].n == nfin, f"{q}:len(result) == n_final_samples")
        elif not sh["resume_from"]:
            p.prove(result.f["x"].n == g["N"], f"{q}:len(result) == n_samples")
        ev = p.events
        cbs = [x for x in ev if x[0] == "callback"]
        if sh["checkpoint_callback"] or sh["checkpoint_every"]:
            ok = len(cbs) >= 1 and cbs[-1][1].f["samples"] is fin
            p.prove(z3.BoolVal(ok), f"{q}:C12:C14:forced final checkpoint of the final population (whatever the cadence: a finished run leaves its own checkpoint in the file, not an earlier run's)")
            if ok:
                ck = cbs[-1][1]
                p.prove(z3.And(to_int(ck.f["iteration"]) == it, to_real(ck.f["beta"]) == beta), f"{q}:C12:final checkpoint carries the final iteration and beta")
                p.prove(z3.BoolVal(not isinstance(ck.f["samples_evidence"], NoneV)), f"{q}:C12:final checkpoint is taken after the evidence is attached")
        else:
            p.prove(z3.BoolVal(len(cbs) == 0), f"{q}:C12:no callback without checkpoint configuration")
        # C08: the enlargement does not touch the evidence series; C18: extra mutate is the only extra diagnostic
        muts = [x for x in ev if x[0] == "mutate"]
        if nfin is not None and muts and to_real(muts[-1][2]) is not None:
            pass
        # recorded entries are a record: nothing a run does replaces an entry of the history (lists only grow)
        sets = [x for x in ev if x[0] == "list.setitem"]
        for x in sets:
            keep = x[3] is not None and x[4] is not None and isinstance(x[3], Obj) and isinstance(x[4], Obj) and same_pop(x[3], x[4])
            p.prove(z3.BoolVal(keep), f"{q}:C18:C11:an entry of history.{x[1]} is replaced only by an equal one (stored populations are the populations after their iterations; resuming from the final checkpoint of a run with n_final_samples must not overwrite the last of them)")
        if sh["resume_from"]:
            ck = p.ghost.get("ck")
            if ck is not None and ck.get("final"):
                last = list_last(h.f["sample_history"])
                p.prove(z3.Implies(g["store"], z3.BoolVal(last is ck["last_stored"])), f"{q}:C18:C11:resuming from the forced final checkpoint keeps the last stored population (the one after the last iteration, not the enlarged one)")
                p.prove(z3.BoolVal(fin is ck["pop"]), f"{q}:C11:resuming from the forced final checkpoint returns the checkpointed (already enlarged) population without another enlargement")
        # resumed, finished run: loop not executed, population returned as checkpointed
        if sh["resume_from"]:
            ck = p.ghost.get("ck")
            if ck is not None:
                p.prove(z3.Implies(it == ck["it"], z3.BoolVal(True)), f"{q}:C11:resume bookkeeping")

    def canaries(self, I, pre, result):
        g = pre.ghost
        env = getattr(I, "final_env", {})
        return [("iterations == 0 at return (must be refutable)", to_int(env["iterations"]) == 0)] if not g["shape"]["resume_from"] else []


def same_pop(a, b):
    """identity, or the restored copy of the same checkpointed population"""
    if a is b:
        return True
    return all(a.f.get(k) is b.f.get(k) for k in ("x", "log_likelihood", "log_prior", "log_q")) and isinstance(a, Obj) and isinstance(b, Obj)
