"""C13: saved objects reload unchanged - flattening codec over the HDF5 model, dict round trip of sample sets,
namespace names, constructor binding of saved configurations."""
from __future__ import annotations

import ast

import z3

from pyvc.contracts import Contract, Pre
from pyvc.engine import PathEnd, RaiseSig, Unsupported
from pyvc.lib import Misc, assumed
from pyvc.values import (NONE, Arr, B, ClassRef, Fn, I as IV, Mod, NoneV, Obj, PyDict, PyList, R, Str, Sym, Tup, Z, base_arr, fresh, skey, to_int, to_real, uf)
from contracts.io import mk_group
from contracts.samples import FIELDS, arr_eq_goal


def install(reg):
    H = reg.register

    # h5py storage model for the values the codec produces
    def stored(v):
        if isinstance(v, Str):
            s = Str(v.v)
            s.is_bytes = True           # h5py returns variable-length strings as bytes
            return s
        if isinstance(v, Obj) and v.cls == "StrArrayIn":
            return Obj("StrArray", {"items": PyList(list(v.f["items"].items))})       # numpy array of variable-length strings (any length, also empty)
        if isinstance(v, PyList) and not v.items:
            # a plain empty Python list carries no element type: h5py stores (and returns) an empty float64 array
            return Arr(z3.IntVal(0), "real", lambda kk: z3.RealVal(0), "empty_float64_array")
        if isinstance(v, PyList) and all(isinstance(x, Str) for x in v.items):
            return Obj("StrArray", {"items": PyList(list(v.items))})
        return v

    orig_create = {}
    for cls in ("H5File", "H5Group"):
        orig_create[cls] = reg.handlers[f"{cls}.create_dataset"]

        def create_dataset(I, a, k, n, _o=orig_create[cls]):
            if "data" in k:
                v = k["data"]
                if isinstance(v, PyDict):
                    raise RaiseSig("TypeError", n)      # h5py cannot store a dict
                k = dict(k, data=stored(v))
            return _o(I, a, k, n)
        reg.handlers[f"{cls}.create_dataset"] = create_dataset

    @H("str.decode")
    def str_decode(I, a, k, n):
        return Str(a[0].v)

    reg.handlers["h5py.string_dtype"] = lambda I, a, k, n: Sym(z3.Const("h5_string_dtype", Misc), "dtype")

    def np_array(I, a, k, n):
        v = a[0]
        if isinstance(v, (PyList, Tup)) and all(isinstance(x, Str) for x in v.items) and not isinstance(k.get("dtype", NONE), NoneV):
            return Obj("StrArrayIn", {"items": PyList(list(v.items))})                    # np.array(list_of_str, dtype=h5py.string_dtype())
        return I.reg.handlers["xp.asarray"](I, ([Mod("xp")] if getattr(I.reg.handlers["xp.asarray"], "_wants_mod", False) else []) + [v], {}, n)
    reg.handlers["xp.array"] = np_array

    reg.obj_props["npdtype.kind"] = lambda I, o, n: o.f["kind"]
    _prev_value_attr = reg.value_attr

    def value_attr(i, o, attr, n, _p=_prev_value_attr):
        if isinstance(o, Arr) and attr == "dtype" and "dtype" not in o.meta:
            return Obj("npdtype", {"kind": Str("f")})
        if isinstance(o, Sym) and o.tag == "dtype" and attr == "kind":
            return Str("f")
        return _p(i, o, attr, n)
    reg.value_attr = value_attr
    reg.obj_props["StrArray.shape"] = lambda I, o, n: Tup([IV(len(o.f["items"].items))])
    reg.obj_props["StrArray.dtype"] = lambda I, o, n: Obj("npdtype", {"kind": Str("O")})

    @H("StrArray.astype")
    def strarray_astype(I, a, k, n):
        return a[0]

    @H("StrArray.tolist")
    def strarray_tolist(I, a, k, n):
        return PyList(list(a[0].f["items"].items))

    # items() of a group: h5py iterates in alphabetical order of the names
    for cls in ("H5File", "H5Group"):
        def items_sorted(I, a, k, n):
            assumed(I, "h5py groups iterate their members in alphabetical order of the names")
            g = a[0].f["root"] if a[0].cls == "H5File" else a[0]
            return PyList([Tup([Str(nm), g.f["members"].d[nm]]) for nm in sorted(g.f["members"].d)])
        reg.handlers[f"{cls}.items"] = items_sorted

    reg.handlers["importlib.import_module"] = lambda I, a, k, n: {"array_api_compat.numpy": Mod("xp.numpy"), "array_api_compat.torch": Mod("xp.torch"), "jax.numpy": Mod("xp.jax"),
                                                                   "aspire.samples": Mod("aspire.samples")}.get(a[0].v, Mod(a[0].v))
    # np.stack of a list of columns -> matrix
    _prev_stack = reg.handlers.get("xp.stack")

    def stack(I, a, k, n):
        parts = list(I.iterate(a[0], n))
        if _prev_stack is not None and parts and all(isinstance(t, Arr) and "lit" in t.meta for t in parts):
            return _prev_stack(I, a, k, n)       # literal rows (transform bounds): exact model in pyvc.lib
        ax = k.get("axis", a[1] if len(a) > 1 else IV(0))
        axv = z3.simplify(to_int(ax)).as_long() if isinstance(ax, Z) and z3.is_int_value(z3.simplify(to_int(ax))) else None
        if axv not in (0, -1, 1):
            raise Unsupported("np.stack along a symbolic axis")
        # stacked along the last axis the parts are the columns of a (samples x parameters) matrix; along axis 0 they are its rows (parameters x samples)
        return Obj("Matrix", {"cols": PyList(parts), "orient": Str("cols" if axv in (-1, 1) else "rows")})
    reg.handlers["xp.stack"] = stack

    def matrix_T(I, o, n):
        if "orient" not in o.f:
            return PyList(list(o.f["cols"].items))          # a population matrix handed in by a contract: iterating x.T gives its columns
        return Obj("Matrix", {"cols": o.f["cols"], "orient": Str("rows" if o.f["orient"].v == "cols" else "cols")})
    reg.obj_props["Matrix.T"] = matrix_T

    def matrix_shape(I, o, n):
        nr, d = IV(z3.Int("n_rows")), IV(len(o.f["cols"].items))
        return Tup([nr, d]) if o.f.get("orient", Str("cols")).v == "cols" else Tup([d, nr])
    reg.obj_props["Matrix.shape"] = matrix_shape
    reg.obj_props["Matrix.ndim"] = lambda I, o, n: IV(2)
    reg.handlers["xp.ascontiguousarray"] = lambda I, a, k, n: a[0]


def struct_equal(I, a, b):
    """structural equality of reloaded vs original values -> z3 Bool"""
    if isinstance(a, NoneV) or isinstance(b, NoneV):
        return z3.BoolVal(isinstance(a, NoneV) and isinstance(b, NoneV))
    if isinstance(a, PyDict) and isinstance(b, PyDict):
        if set(a.d) != set(b.d):
            return z3.BoolVal(False)
        return z3.And([struct_equal(I, a.d[k], b.d[k]) for k in a.d] + [z3.BoolVal(True)])
    if isinstance(a, PyList) and isinstance(b, PyList):
        if len(a.items) != len(b.items):
            return z3.BoolVal(False)
        return z3.And([struct_equal(I, x, y) for x, y in zip(a.items, b.items)] + [z3.BoolVal(True)])
    if isinstance(a, Str) and isinstance(b, Str):
        return z3.BoolVal(a.v == b.v and not getattr(b, "is_bytes", False))
    if isinstance(a, Z) and isinstance(b, Z):
        return I.equal(a, b)
    if isinstance(a, Arr) and isinstance(b, Arr):
        return arr_eq_goal(a, b)
    return z3.BoolVal(a is b)


def codec_shapes():
    i, r = IV(z3.Int("an_int")), R(z3.Real("a_real"))
    arr = base_arr("an_array", "real")
    return {
        "scalars": PyDict({"n": i, "r": r, "s": Str("text"), "none": NONE}),
        "empty-dict": PyDict({"a": PyDict({}), "b": i}),
        "nested-1": PyDict({"outer": PyDict({"x": i, "y": NONE}), "z": Str("q")}),
        "nested-3": PyDict({"a": PyDict({"b": PyDict({"c": PyDict({"leaf": r, "none": NONE, "empty": PyDict({})})})})}),
        "string-list": PyDict({"names": PyList([Str("mass"), Str("chi")]), "empty": PyList([])}),
        "array": PyDict({"bounds": PyDict({"p": arr}), "v": arr}),
        "config-like": PyDict({"dims": i, "parameters": PyList([Str("mass"), Str("chi")]), "periodic_parameters": NONE, "prior_bounds": PyDict({"mass": arr, "chi": arr}),
                               "flow_kwargs": PyDict({}), "eps": r, "xp": Str("array_api_compat.numpy"), "sampler_config": PyDict({"sampler_class": Str("MiniPCNSMC")})}),
    }


class SaveLoadCodec(Contract):
    qual = "utils:recursively_save_to_h5_file"
    properties = ("C13",)
    raises = {"RuntimeError": "value cannot be stored"}
    doc = ("load_from_h5_file(save(d)) is structurally equal to d for dictionaries built from None, empty dicts, nested dicts, lists of strings, scalars and arrays "
           "(preconditions: no key contains '.', no string equals a sentinel); the real encode_for_hdf5 / decode_from_hdf5 run on both sides")

    def shapes(self):
        return [{"dict": k} for k in codec_shapes()]

    def setup(self, I, shape):
        d = codec_shapes()[shape["dict"]]
        root = mk_group("/")
        h5 = Obj("H5File", {"root": root, "mode": Str("a"), "closed": B(False), "path": Str("f.h5")})
        return Pre(None, [h5, Str("cfg"), d], ghost={"d": d, "h5": h5, "shape": shape})

    def post(self, I, pre, r):
        p, g = I.path, pre.ghost
        q = self.qual
        load = I.front.get("utils:load_from_h5_file")
        I.depth += 1
        try:
            back = I.call_repo(load, None, [g["h5"], Str("cfg")], {}, None, force_inline=True)
        finally:
            I.depth -= 1
        p.prove(struct_equal(I, g["d"], back), f"{q}:C13:load_from_h5_file(save(d)) is structurally equal to d [{g['shape']['dict']}]")


class ResolveXp(Contract):
    qual = "utils:resolve_xp"
    properties = ("C13",)
    doc = "the saved namespace name of each of the three namespaces resolves back to that namespace"

    def shapes(self):
        return [{"name": n, "want": w} for n, w in (("array_api_compat.numpy", "numpy"), ("array_api_compat.torch", "torch"), ("jax.numpy", "jax"), ("numpy", "numpy"),
                                                      ("torch", "torch"), ("jax", "jax"))] + [{"name": None, "want": None}]

    def setup(self, I, shape):
        return Pre(None, [Str(shape["name"]) if shape["name"] else NONE], ghost={"shape": shape})

    def post(self, I, pre, r):
        from contracts.dtypes import as_ns
        sh = pre.ghost["shape"]
        if sh["want"] is None:
            I.path.prove(z3.BoolVal(isinstance(r, NoneV)), f"{self.qual}:C13:None stays None")
            return
        got = as_ns(r)
        I.path.prove(z3.BoolVal(got is not None and got.f["name"].v == sh["want"]), f"{self.qual}:C13:C12:C15:saved namespace name '{sh['name']}' resolves to the {sh['want']} namespace (the documented resume route rebuilds the instance in the namespace of the interrupted run)")


class DictRoundTrip(Contract):
    qual = "samples:BaseSamples.from_dict"
    properties = ("C13", "C16")
    raises = {"ValueError": "flat layout without parameter names"}
    doc = ("from_dict(to_dict(s)) binds only constructor fields and reproduces every column of x under the parameter name it was stored with, in "
           "parameter order, for flat and nested layouts - also when the nested mapping iterates in alphabetical order (as after an HDF5 load)")

    def shapes(self):
        out = [{"cls": c, "flat": f, "reorder": ro, "present": pr} for c in ("BaseSamples", "Samples", "SMCSamples") for f in (0, 1) for ro in (0, 1)
               for pr in (("log_q",), ("log_likelihood", "log_prior", "log_q")) if not (f and ro)]
        # nested layout (the one save() writes): a parameter may be called like a field of the sample set (`beta`, `log_q`) - its column lives in the
        # "samples" group and the field keeps its own entry
        out += [{"cls": c, "flat": 0, "reorder": ro, "present": ("log_likelihood", "log_prior", "log_q"), "clash": 1} for c in ("Samples", "SMCSamples") for ro in (0, 1)]
        return out

    def setup(self, I, shape):
        names = ["mass", "distance", "chi"] if not shape.get("clash") else ["mass", "beta", "log_q"]           # deliberately not in alphabetical order
        n = z3.Int("n_rows")
        I.path.assume(n >= 2)
        cols = [base_arr(f"col_{nm}", "real", n) for nm in names]
        xp = Sym(z3.Const("xp_s", Misc), "ns")
        f = {"x": Obj("Matrix", {"cols": PyList(cols)}), "parameters": PyList([Str(nm) for nm in names]), "xp": xp, "dtype": Sym(z3.Const("dtype_s", Misc), "dtype"), "device": NONE}
        for k in FIELDS[1:]:
            f[k] = base_arr(f"s_{k}", "real", n) if k in shape["present"] else NONE
        if shape["cls"] == "SMCSamples":
            f.update(beta=R(z3.Real("beta_s")), log_evidence=R(z3.Real("logZ")), log_evidence_error=R(z3.Real("logZerr")))
        if shape["cls"] == "Samples":
            f.update(log_evidence=R(z3.Real("logZ")), log_evidence_error=R(z3.Real("logZerr")))
            full = len(shape["present"]) == 3
            for k in ("log_w", "weights"):
                f[k] = base_arr(f"s_{k}", "real", n) if full else NONE
            for k in ("evidence", "evidence_error", "effective_sample_size"):
                f[k] = R(z3.Real(f"s_{k}")) if full else NONE
        s = Obj(shape["cls"], f)
        # ---- the real to_dict
        td = I.front.find_method(shape["cls"], "to_dict")
        I.depth += 1
        try:
            d = I.call_repo(td, s, [], {"flat": B(bool(shape["flat"]))}, None, force_inline=True)
        finally:
            I.depth -= 1
        if shape["reorder"]:
            inner = d.d["samples"]
            d.d["samples"] = PyDict({k: inner.d[k] for k in sorted(inner.d)})
        return Pre(ClassRef(shape["cls"]), [d], ghost={"s": s, "names": names, "cols": cols, "shape": shape, "snap": dict(s.f)})

    def post(self, I, pre, r):
        p, g = I.path, pre.ghost
        q = self.qual
        sh = g["shape"]
        tag = f"[{sh['cls']}, {'flat' if sh['flat'] else 'nested'}{', alphabetical iteration order' if sh['reorder'] else ''}{', parameters named like fields' if sh.get('clash') else ''}]"
        if not isinstance(r, Obj):
            p.prove(z3.BoolVal(False), f"{q}:C13:returns a sample set {tag}")
            return
        x = r.f.get("x")
        ok = isinstance(x, Obj) and x.cls == "Matrix" and len(x.f["cols"].items) == len(g["cols"]) and x.f.get("orient", Str("cols")).v == "cols"
        p.prove(z3.BoolVal(ok), f"{q}:C13:C16:x has one row per sample and one column per parameter (also when there are as many samples as parameters) {tag}")
        if ok:
            for j, nm in enumerate(g["names"]):
                p.prove(arr_eq_goal(x.f["cols"].items[j], g["cols"][j]), f"{q}:C13:C16:C10:column {j} of the reloaded x holds the values stored under parameter '{nm}' {tag}")
        pr = r.f.get("parameters")
        p.prove(z3.BoolVal(isinstance(pr, PyList) and [v.v for v in pr.items] == g["names"]), f"{q}:C13:parameter names and their order preserved {tag}")
        for k in FIELDS[1:]:
            a, b = g["snap"][k], r.f.get(k, NONE)
            p.prove(arr_eq_goal(b, a), f"{q}:C13:C16:field {k} preserved {tag}")
        p.prove(z3.BoolVal(r.f.get("xp") is g["snap"]["xp"]), f"{q}:C13:namespace preserved {tag}")
        from contracts.samples import dtype_carried
        p.prove(z3.BoolVal(dtype_carried(r.f.get("dtype"), g["snap"]["dtype"])), f"{q}:C13:C15:dtype preserved {tag}")
        if sh["cls"] == "SMCSamples":
            p.prove(z3.And(I.equal(r.f.get("beta", NONE), g["snap"]["beta"]), I.equal(r.f.get("log_evidence", NONE), g["snap"]["log_evidence"])), f"{q}:C13:beta and log_evidence preserved {tag}")

    def post_raise(self, I, pre, sig):
        g = pre.ghost
        I.path.prove(z3.BoolVal(False), f"{self.qual}:C13:C16:from_dict(to_dict(s)) does not raise [{g['shape']['cls']}, {'flat' if g['shape']['flat'] else 'nested'}: {sig.exc}]", assume_after=False)


# ------------------------------------------------------------------------------------------ histories
SERIES = ["log_norm_ratio", "log_norm_ratio_var", "beta", "ess", "ess_target", "eff_target", "mcmc_autocorr", "mcmc_acceptance"]


class SamplesSaveModel(Contract):
    """caller-side model used by the history contract: the sample set is stored under `path` (its own round trip is BaseSamples.from_dict / to_numpy)"""
    qual = "samples:BaseSamples.save"
    doc = "stores the sample set under `path` of the file (nested groups are created as needed)"

    def model(self, I, info, bound, args, kwargs, node):
        from contracts.io import group_path
        h5, path = args[0], (args[1] if len(args) > 1 else kwargs.get("path", Str("samples")))
        root = h5.f["root"] if h5.cls == "H5File" else h5
        g = group_path(I, root, path.v, create=True, node=node)
        g.f["stored_samples"] = bound
        g.f["stored_flat"] = kwargs.get("flat", args[2] if len(args) > 2 else B(False))
        return NONE

    def usable_at_call(self, I, q):
        return I.path.ghost.get("history_contract", False)


class SamplesLoadModel(Contract):
    qual = "samples:BaseSamples.load"
    doc = "returns the sample set stored under `path` (KeyError if there is none)"

    def model(self, I, info, bound, args, kwargs, node):
        from contracts.io import group_path
        h5, path = args[0], (args[1] if len(args) > 1 else kwargs.get("path", Str("samples")))
        root = h5.f["root"] if h5.cls == "H5File" else h5
        g = group_path(I, root, path.v, create=False, node=node)
        if "stored_samples" not in g.f:
            I.implicit_exception(False, "KeyError", node)
            raise PathEnd()
        return g.f["stored_samples"]

    def usable_at_call(self, I, q):
        return I.path.ghost.get("history_contract", False)


class HistorySaveLoad(Contract):
    qual = "history:SMCHistory.save"
    properties = ("C13",)
    doc = ("SMCHistory.load(save(h)) has every series with the same entries and the stored populations in the same order, for every number of stored "
           "populations up to 12 (both sides of the change from one-digit to two-digit group names); the real save, load and HDF5 codec run on both sides")

    def shapes(self):
        return [{"n": n, "series": k} for n in (0, 1, 2, 10, 11, 12) for k in (0, 2)]

    def setup(self, I, shape):
        n, k = shape["n"], shape["series"]
        I.path.ghost["history_contract"] = True
        pops = [Obj("SMCSamples", {"tag": Str(f"population_{i}")}) for i in range(n)]
        f = {nm: PyList([R(z3.Real(f"{nm}_{i}")) for i in range(k)]) for nm in SERIES}
        f["sample_history"] = PyList(list(pops))
        h = Obj("SMCHistory", f)
        root = mk_group("/")
        h5 = Obj("H5File", {"root": root, "mode": Str("a"), "closed": B(False), "path": Str("f.h5")})
        return Pre(h, [h5], {"path": Str("smc_history")}, ghost={"h": h, "h5": h5, "pops": pops, "shape": shape, "series0": {nm: list(f[nm].items) for nm in SERIES}})

    def post(self, I, pre, r):
        p, g = I.path, pre.ghost
        q = self.qual
        sh = g["shape"]
        tag = f"[{sh['n']} stored populations, series of length {sh['series']}]"
        load = I.front.get("history:SMCHistory.load")
        I.depth += 1
        try:
            back = I.call_repo(load, ClassRef("SMCHistory"), [g["h5"]], {"path": Str("smc_history")}, None, force_inline=True)
        finally:
            I.depth -= 1
        ok = isinstance(back, Obj) and back.cls == "SMCHistory"
        p.prove(z3.BoolVal(ok), f"{q}:C13:the history reloads as an SMCHistory {tag}")
        if not ok:
            return
        got = back.f.get("sample_history")
        # save() works on a deep copy of the history: the reloaded populations are (copies of) the recorded ones, identified by their tag
        same = isinstance(got, PyList) and len(got.items) == len(g["pops"]) and all(isinstance(a, Obj) and isinstance(a.f.get("tag"), Str) and a.f["tag"].v == b.f["tag"].v
                                                                                  for a, b in zip(got.items, g["pops"]))
        p.prove(z3.BoolVal(same), f"{q}:C13:C18:the stored populations reload in the order they were recorded (population k+1 is the one after iteration k) {tag}")
        for nm in SERIES:
            v = back.f.get(nm)
            items = list(I.iterate(v, None)) if v is not None and not isinstance(v, NoneV) else None
            want = g["series0"][nm]
            good = items is not None and len(items) == len(want)
            p.prove(z3.And([z3.BoolVal(good)] + ([I.equal(a, b) for a, b in zip(items, want)] if good else [])), f"{q}:C13:series `{nm}` reloads with the same entries {tag}")
        # stored populations use the nested layout (parameter columns in their own group): in the flat layout a parameter called `beta`, `log_q`, ...
        # shares a name with a field of the sample set and that field does not survive the reload
        sh_grp = g["h5"].f["root"].f["members"].d.get("smc_history__sample_history")
        flats = [m.f.get("stored_flat") for m in sh_grp.f["members"].d.values()] if sh_grp is not None else []
        p.prove(z3.And([z3.Not(I.truth(f)) if f is not None else z3.BoolVal(False) for f in flats] + [z3.BoolVal(len(flats) == sh["n"])]),
                f"{q}:C13:every stored population is written in the nested layout, where parameter names cannot collide with the fields of the sample set {tag}")
        # the live history is not disturbed by saving it
        cur = g["h"].f.get("sample_history")
        p.prove(z3.BoolVal(isinstance(cur, PyList) and len(cur.items) == len(g["pops"]) and all(a is b for a, b in zip(cur.items, g["pops"]))),
                f"{q}:C13:C18:saving leaves the live history's stored populations in place {tag}")


class FlowHistorySaveLoad(Contract):
    qual = "history:History.save"
    properties = ("C13",)
    doc = "FlowHistory.load(save(h)) has both loss series with the same entries (the real save, load and HDF5 codec run on both sides)"

    def shapes(self):
        return [{"k": k} for k in (0, 1, 3)]

    def setup(self, I, shape):
        k = shape["k"]
        f = {"training_loss": PyList([R(z3.Real(f"train_{i}")) for i in range(k)]), "validation_loss": PyList([R(z3.Real(f"val_{i}")) for i in range(k)])}
        h = Obj("FlowHistory", f)
        root = mk_group("/")
        h5 = Obj("H5File", {"root": root, "mode": Str("a"), "closed": B(False), "path": Str("f.h5")})
        return Pre(h, [h5], {"path": Str("flow_history")}, ghost={"h5": h5, "shape": shape, "series0": {nm: list(v.items) for nm, v in f.items()}})

    def post(self, I, pre, r):
        p, g = I.path, pre.ghost
        q = self.qual
        tag = f"[loss series of length {g['shape']['k']}]"
        load = I.front.get("history:History.load")
        I.depth += 1
        try:
            back = I.call_repo(load, ClassRef("FlowHistory"), [g["h5"]], {"path": Str("flow_history")}, None, force_inline=True)
        finally:
            I.depth -= 1
        ok = isinstance(back, Obj) and back.cls == "FlowHistory"
        p.prove(z3.BoolVal(ok), f"{q}:C13:the history reloads as a FlowHistory {tag}")
        if not ok:
            return
        for nm, want in g["series0"].items():
            v = back.f.get(nm)
            items = list(I.iterate(v, None)) if v is not None and not isinstance(v, NoneV) else None
            good = items is not None and len(items) == len(want)
            p.prove(z3.And([z3.BoolVal(good)] + ([I.equal(a, b) for a, b in zip(items, want)] if good else [])), f"{q}:C13:series `{nm}` reloads with the same entries {tag}")
