"""Caller-side models (contracts as seen at call sites) for src/aspire/samples.py and utils.py.
The bodies of these functions are verified against the same statements in contracts/samples.py
(z3, structural) and lean/*.lean (analytic)."""
from __future__ import annotations

import z3

from pyvc.contracts import Contract, Pre
from pyvc.engine import PathEnd, RaiseSig, Unsupported
from pyvc.lib import Misc, RS, IS, assumed
from pyvc.spec import ESS_IW, LER, LERV, data_of, ess_of, iw_arr, lemma, lse_of, mk_samples
from pyvc.values import NONE, Arr, B, I as IV, NoneV, Obj, PyDict, R, Str, Sym, SymList, Tup, Z, fresh, to_int, to_real, uf


class LogWeightsModel(Contract):
    qual = "samples:SMCSamples.log_weights"
    doc = "result[i] == IW(self, beta)[i] + LER(self, beta)   (raises ValueError when IW contains NaN)"

    def model(self, I, info, bound, args, kwargs, node):
        beta = args[0] if args else kwargs["beta"]
        return iw_arr(I, bound, beta, shifted=True)


class UnnormalizedLogWeightsModel(Contract):
    qual = "samples:SMCSamples.unnormalized_log_weights"
    doc = "result == IW(self, beta)"

    def model(self, I, info, bound, args, kwargs, node):
        beta = args[0] if args else kwargs["beta"]
        return iw_arr(I, bound, beta, shifted=False)


class EffectiveSampleSizeModel(Contract):
    qual = "utils:effective_sample_size"
    doc = "result == ESS(log_w), 1 <= result <= len(log_w)"

    def model(self, I, info, bound, args, kwargs, node):
        a = args[0]
        if not isinstance(a, Arr):
            raise Unsupported("effective_sample_size of non-array")
        return R(ess_of(I, a))


class LogEvidenceRatioModel(Contract):
    qual = "samples:SMCSamples.log_evidence_ratio"
    doc = "result == LER(self, beta) = LSE(IW(self,beta)) - log n"

    def model(self, I, info, bound, args, kwargs, node):
        beta = args[0] if args else kwargs["beta"]
        out = R(LER(data_of(bound), to_real(bound.f["beta"]), to_real(beta)))
        I.path.event("evidence.term", "ratio", out)
        return out


class LogEvidenceRatioVarianceModel(Contract):
    qual = "samples:SMCSamples.log_evidence_ratio_variance"
    doc = "result == LERV(self, beta) = Var(w)/(n mean(w)^2), w = exp(IW(self,beta))"

    def model(self, I, info, bound, args, kwargs, node):
        beta = args[0] if args else kwargs["beta"]
        t = LERV(data_of(bound), to_real(bound.f["beta"]), to_real(beta))
        I.path.assume(t >= 0, check=False)
        lemma(I, "lerv_nonneg: Var(w)/(n mean(w)^2) >= 0")
        out = R(t)
        I.path.event("evidence.term", "variance", out)
        return out


class LogsumexpModel(Contract):
    qual = "utils:logsumexp"
    doc = "result == LSE(x)"

    def model(self, I, info, bound, args, kwargs, node):
        return R(lse_of(I, args[0]))


class ToNumpyModel(Contract):
    qual = "utils:to_numpy"
    doc = "value-preserving conversion to a NumPy array on the CPU"

    def model(self, I, info, bound, args, kwargs, node):
        a = args[0]
        if isinstance(a, Arr):
            return Arr(a.n, a.elem, a.at, a.key, dict(a.meta, ns="numpy"))
        return a


class DetermineBackendNameModel(Contract):
    qual = "utils:determine_backend_name"
    doc = "name of the array namespace ('numpy', 'torch', 'jax', ...)"

    def model(self, I, info, bound, args, kwargs, node):
        xp = kwargs.get("xp", args[1] if len(args) > 1 else NONE)
        return Sym(uf("backend_name", Misc, Misc)(xp.e) if isinstance(xp, Sym) else z3.Const(fresh("backend"), Misc), "str")


ALL = [LogWeightsModel, UnnormalizedLogWeightsModel, EffectiveSampleSizeModel, LogEvidenceRatioModel,
       LogEvidenceRatioVarianceModel, LogsumexpModel]
