"""Contracts for src/aspire/aspire.py: file invariant (C14), ordering of config/flow/checkpoint writes (C12),
keyword and generator routing (C20), evaluation counter (C17)."""
from __future__ import annotations

import z3

from pyvc.contracts import Contract, Pre
from pyvc.engine import PathEnd, RaiseSig, Unsupported
from pyvc.front import signature
from pyvc.lib import Misc, assumed
from pyvc.values import (NONE, Arr, B, ClassRef, Fn, FuncRef, I as IV, NoneV, Obj, Partial, PyDict, PyList, R, Str, Sym, Tup, Z, base_arr, fresh, skey,
                         to_int, to_real, uf)
from contracts.io import fs, mk_group

SAMPLER_TYPES = {"importance": "ImportanceSampler", "emcee": "Emcee", "emcee_smc": "EmceeSMC", "minipcn": "MiniPCN", "smc": "MiniPCNSMC", "minipcn_smc": "MiniPCNSMC",
                 "blackjax_smc": "BlackJAXSMC"}
FLOWVER = z3.DeclareSort("FlowVersion")


def class_sig(I, cls, meth):
    info = I.front.find_method(cls, meth)
    pos, defaults, vararg, kwonly, kwarg = signature(info.node)
    return info, pos, kwonly, kwarg


def install(reg):
    H = reg.register

    def h_signature(I, a, k, n):
        f = a[0]
        if isinstance(f, FuncRef):
            pos, defaults, vararg, kwonly, kwarg = signature(f.info.node)
            names = pos + kwonly + ([kwarg] if kwarg else [])
            if f.bound is not None:
                names = names[1:]
            return Obj("Signature", {"parameters": PyDict({nm: Str(nm) for nm in names})})
        if isinstance(f, Fn) and hasattr(f, "sig_names"):
            return Obj("Signature", {"parameters": PyDict({nm: Str(nm) for nm in f.sig_names})})
        raise Unsupported(f"inspect.signature of {f!r}")

    reg.handlers["signature"] = h_signature
    reg.handlers["inspect.signature"] = h_signature
    reg.import_ok.add("inspect.signature")

    @H("list.issubset")
    def issubset(I, a, k, n):
        items, other = a[0], a[1]
        return B(z3.And([I.contains(other, x, n) for x in items.items] + [z3.BoolVal(True)]))

    # ---- model of a sampler object's .sample(): checks keyword binding against the REAL signature of that class
    def sampler_sample(I, a, k, n):
        s = a[0]
        info, pos, kwonly, kwarg = class_sig(I, s.cls, "sample")
        names = pos[1:] + kwonly
        for kw in k:
            if kw not in names and kwarg is None:
                I.implicit_exception(False, f"TypeError[{s.cls}.sample() got an unexpected keyword argument '{kw}']", n)
                raise PathEnd()
        p = I.path
        files = fs(I)
        snap = {key: dict(root.f["members"].d) for key, root in files.items()}
        p.event("sampler.sample", s, dict(k), snap)
        cpath = k.get("checkpoint_file_path", NONE)
        supports = "checkpoint_file_path" in names
        if supports and not isinstance(cpath, NoneV):
            key = skey(cpath)
            root = files.setdefault(key, mk_group("/"))
            ck = mk_group("checkpoint")
            ck.f["flow_ver"] = s.f["prior_flow"].f["ver"] if isinstance(s.f.get("prior_flow"), Obj) else NONE
            ck.f["sampler_cls"] = Str(s.cls)
            root.f["members"].d["checkpoint"] = ck
            p.event("checkpoint.write", key, ck)
        out = Obj("Samples", {"x": base_arr(fresh("post_x"), "row"), "log_likelihood": base_arr(fresh("post_ll"), "real"), "log_prior": base_arr(fresh("post_lp"), "real"),
                              "log_q": NONE, "parameters": NONE, "xp": s.f.get("xp", NONE), "dtype": s.f.get("dtype", NONE), "device": NONE,
                              "log_evidence": R(z3.Real(fresh("logZ_out"))), "log_evidence_error": R(z3.Real(fresh("logZerr_out"))),
                              "__len": IV(z3.Int(fresh("n_out")))})
        p.ghost["sampler_result"] = out
        return out

    # preconditioning transforms built by Aspire.init_sampler: inside the InitSampler contract (ghost flag) the constructors are replaced by a record of
    # their keyword arguments (their own behaviour is CompositeInit's / the C04 contracts' business); everywhere else construction is the real one
    def mk_new(cname):
        key = f"{cname}.__new__"

        def new(I, a, k, n):
            if not I.path.ghost.get("record_transform_construction"):
                h = I.reg.handlers.pop(key)
                try:
                    return I.construct(ClassRef(cname), a, k, n)
                finally:
                    I.reg.handlers[key] = h
            o = Obj(cname, dict(k))
            I.path.ghost.setdefault("constructed", []).append((cname, o, dict(k), list(a)))
            return o
        reg.handlers[key] = new
    for _c in ("CompositeTransform", "FlowPreconditioningTransform", "FlowTransform", "ZukoFlow", "ZukoFlowMatching", "FlowJax"):
        mk_new(_c)

    reg.sampler_sample = sampler_sample
    reg.handlers["Samples.__len__"] = lambda I, a, k, n: a[0].f.get("__len", IV(0))


def flow_obj(name):
    return Obj("FlowStub2", {"ver": Sym(z3.Const(f"flowver_{name}", FLOWVER), "flowver")})


class InitSamplerModel(Contract):
    qual = "aspire:Aspire.init_sampler"
    doc = "constructs the sampler class for `sampler_type` with the instance's callables, flow, namespace, dtype and the given constructor keywords"

    def model(self, I, info, bound, args, kwargs, node):
        st = args[0]
        cls = SAMPLER_TYPES.get(st.v)
        if cls is None:
            raise RaiseSig("ValueError", node)
        _, pos, kwonly, kwarg = class_sig(I, cls, "__init__")
        extra = {k: v for k, v in kwargs.items() if k not in ("preconditioning", "preconditioning_kwargs")}
        for kw in extra:
            if kw not in pos + kwonly and kwarg is None:
                I.implicit_exception(False, f"TypeError[{cls}.__init__() got an unexpected keyword argument '{kw}']", node)
                raise PathEnd()
        a = bound
        s = Obj(cls, {"prior_flow": a.f.get("_flow", NONE), "xp": a.f.get("xp", NONE), "dtype": a.f.get("dtype", NONE), "init_kwargs": PyDict(extra),
                      "rng": extra.get("rng", Sym(z3.Const(fresh("ambient_rng"), Misc), "rng", {"ambient": True})),
                      "n_likelihood_evaluations": IV(0), "history": NONE})
        I.path.event("init_sampler", s, extra)
        return s

    def usable_at_call(self, I, q):
        return True


class SaveConfigModel(Contract):
    qual = "aspire:Aspire.save_config"
    doc = "writes the configuration dictionary under `path`; fails if datasets of that name already exist"

    def model(self, I, info, bound, args, kwargs, node):
        h5 = args[0]
        root = h5.f["root"] if h5.cls == "H5File" else h5
        mem = root.f["members"].d
        I.implicit_exception(z3.BoolVal("aspire_config" not in mem), "ValueError[h5py: name already exists]", node)
        g = mk_group("aspire_config")
        a = bound
        g.f["sampler_type"] = a.f.get("_last_sampler_type", NONE)
        g.f["include_sampler_config"] = kwargs.get("include_sampler_config", B(True))
        if I.is_true(kwargs.get("include_sampler_config", B(True))):
            I.implicit_exception(z3.BoolVal(not isinstance(a.f.get("_sampler", NONE), NoneV)), "ValueError[Sampler has not been initialized]", node)
        mem["aspire_config"] = g
        I.path.event("save_config", g)
        return NONE


class SaveFlowModel(Contract):
    qual = "aspire:Aspire.save_flow"
    doc = "writes the instance's flow under `flow`; raises ValueError without a flow; fails if the group already exists"

    def model(self, I, info, bound, args, kwargs, node):
        h5 = args[0]
        root = h5.f["root"] if h5.cls == "H5File" else h5
        mem = root.f["members"].d
        fl = bound.f.get("_flow", NONE)
        if isinstance(fl, NoneV):
            raise RaiseSig("ValueError", node)
        I.implicit_exception(z3.BoolVal("flow" not in mem), "ValueError[h5py: name already exists]", node)
        g = mk_group("flow")
        g.f["ver"] = fl.f["ver"]
        mem["flow"] = g
        I.path.event("save_flow", g)
        return NONE


class ToNamespaceModel(Contract):
    qual = "samples:Samples.to_namespace"
    doc = "same values and optional fields in namespace xp, same floating-point width"

    def model(self, I, info, bound, args, kwargs, node):
        s = bound
        o = Obj(s.cls, dict(s.f))
        o.f["xp"] = args[0]
        o.f["__converted_from"] = s
        return o


def file_inv(I, root, a, tag):
    """C14 invariant of one file w.r.t. the instance"""
    mem = root.f["members"].d
    out = []
    flow = a.f.get("_flow", NONE)
    if "flow" in mem and isinstance(flow, Obj):
        out.append((f"J1 the flow stored in the file is the instance's current flow {tag}", mem["flow"].f["ver"].e == flow.f["ver"].e))
    if "checkpoint" in mem:
        ck = mem["checkpoint"]
        out.append((f"J2 a checkpoint in the file is accompanied by a flow {tag}", z3.BoolVal("flow" in mem)))
        if "flow" in mem and isinstance(ck.f.get("flow_ver"), Sym):
            out.append((f"J2 the stored flow is the one under which the stored checkpoint's particles were weighted {tag}", mem["flow"].f["ver"].e == ck.f["flow_ver"].e))
        if "aspire_config" in mem and isinstance(mem["aspire_config"].f.get("sampler_type"), Str):
            st = mem["aspire_config"].f["sampler_type"].v
            out.append((f"J2 the stored configuration names the sampler that wrote the checkpoint {tag}", z3.BoolVal(SAMPLER_TYPES.get(st) == ck.f["sampler_cls"].v)))
    return out


def mk_file_state(I, a, shape, path_key):
    """pre-state of the checkpoint file satisfying the invariant"""
    root = mk_group("/")
    mem = root.f["members"].d
    flow = a.f.get("_flow", NONE)
    if shape.get("file_flow"):
        g = mk_group("flow")
        g.f["ver"] = Sym(z3.Const("file_flow_ver", FLOWVER), "flowver")
        mem["flow"] = g
    if shape.get("file_config"):
        g = mk_group("aspire_config")
        g.f["sampler_type"] = Str(shape.get("file_config_sampler", "smc"))
        mem["aspire_config"] = g
    if shape.get("file_ckpt"):
        ck = mk_group("checkpoint")
        ck.f["flow_ver"] = Sym(z3.Const("file_ckpt_flow_ver", FLOWVER), "flowver")
        ck.f["sampler_cls"] = Str(SAMPLER_TYPES[shape.get("file_config_sampler", "smc")])
        mem["checkpoint"] = ck
    fs(I)[path_key] = root
    for nm, gl in file_inv(I, root, a, "(pre-state)"):
        I.path.assume(gl)
    return root


class SamplePosterior(Contract):
    qual = "aspire:Aspire.sample_posterior"
    properties = ("C12", "C14", "C20", "C15", "C17")
    raises = {"ValueError": "unknown sampler type"}
    doc = ("keywords are routed to the sampler's constructor iff its real __init__ signature has them, else to sample(); no keyword is lost or makes either "
           "call raise; a generator supplied by the user is the object the sampler holds; with a checkpoint path: configuration (when requested) and flow are in "
           "the file *before* sampling starts, the sampler is told the path and cadence, and the file invariant J is preserved")

    def shapes(self):
        out = []
        for sampler in ("importance", "smc", "emcee_smc", "blackjax_smc", "minipcn", "emcee"):
            for ck in ("none", "explicit", "defaults"):
                for rng in (0, 1):
                    for ff in (0, 1):
                        for fc in (0, 1):
                            if ck == "none" and (ff or fc):
                                continue
                            for fcs in (("smc", "importance") if fc else ("smc",)):
                                out.append({"sampler": sampler, "ck": ck, "rng": rng, "file_flow": ff, "file_ckpt": ff and fc and fcs == "smc", "file_config": fc, "save_config": 1,
                                            "file_config_sampler": fcs})
        out += [{"sampler": sm, "ck": "none", "rng": 0, "file_flow": 0, "file_ckpt": 0, "file_config": 0, "save_config": 1, "xp_out": 1} for sm in ("importance", "smc", "emcee")]
        # an instance rebuilt by resume_from_file: the sampler type comes from the file unless the caller names another one
        for rs in ("smc", "emcee_smc"):
            for given in (None, "importance", rs):
                for ck, sc in (("defaults", 1), ("defaults", 0), ("explicit", 1)):
                    for fresh_start in (0, 1):
                        for ov in (0, 1):
                            if (fresh_start or ov) and not (given is None and ck == "defaults" and sc == 0):
                                continue
                            out.append({"sampler": given or "importance", "omit_sampler": given is None, "resumed": rs, "effective": rs, "ck": ck, "rng": 0, "file_flow": 1, "file_ckpt": 1,
                                        "file_config": 1, "save_config": sc, "file_config_sampler": rs, "fresh_start": fresh_start, "override_every": ov})
        out += [{"sampler": "smc", "ck": "explicit", "rng": 0, "file_flow": 0, "file_ckpt": 0, "file_config": 1, "save_config": 0},
                {"sampler": "smc", "ck": "explicit", "rng": 0, "file_flow": 1, "file_ckpt": 1, "file_config": 1, "save_config": 0, "file_config_sampler": "smc"}]
        return out

    def setup(self, I, shape):
        p = I.path
        flow = flow_obj("instance")
        a = Obj("Aspire", {"_flow": flow, "_sampler": NONE, "xp": Sym(z3.Const("aspire_xp", Misc), "ns"), "dtype": Sym(z3.Const("aspire_dtype", Misc), "dtype"),
                           "parameters": Sym(z3.Const("aspire_parameters", Misc), "params"), "log_likelihood": Fn(lambda *x: NONE, "L"), "log_prior": Fn(lambda *x: NONE, "P")})
        for k in ("_resume_sampler_type", "_resume_from_default", "_resume_overrides", "_resume_n_samples", "_checkpoint_defaults", "_last_sampler_type"):
            a.absent.add(k)
        path = Str("run.h5")
        kw = {} if shape.get("omit_sampler") else {"sampler": Str(shape["sampler"])}
        g = {"a": a, "shape": shape, "flow": flow, "path": path}
        if shape.get("resumed"):
            a.f["_resume_sampler_type"] = Str(shape["resumed"])
            a.f["_resume_from_default"] = Sym(z3.Const("stored_checkpoint_bytes", Misc), "bytes")
            # resume_kwargs given to resume_from_file, e.g. another checkpoint cadence for the continued run
            a.f["_resume_overrides"] = PyDict({"checkpoint_every": IV(z3.Int("resume_override_every"))} if shape.get("override_every") else {})
            if shape.get("fresh_start"):
                kw["resume_from"] = NONE          # the caller explicitly asks the sampler to start afresh
            a.f["_resume_n_samples"] = IV(z3.Int("stored_n_samples"))
            for k in ("_resume_sampler_type", "_resume_from_default", "_resume_overrides", "_resume_n_samples"):
                a.absent.discard(k)
        if shape["ck"] == "explicit":
            kw["checkpoint_path"] = path
            kw["checkpoint_every"] = IV(z3.Int("checkpoint_every"))
            kw["checkpoint_save_config"] = B(bool(shape["save_config"]))
        elif shape["ck"] == "defaults":
            # flags of the surrounding auto_checkpoint context: any history of earlier operations inside the same context
            sc0, sf0 = z3.Bool("saved_config0"), z3.Bool("saved_flow0")
            p.assume(z3.Implies(sf0, z3.BoolVal(bool(shape["file_flow"]))))          # saved_flow => the flow is in the file
            p.assume(z3.Implies(sc0, z3.BoolVal(bool(shape["file_config"]))))
            d = PyDict({"path": path, "every": IV(z3.Int("defaults_every")), "save_config": B(bool(shape["save_config"])), "save_flow": B(True),
                        "saved_config": B(sc0), "saved_flow": B(sf0)})
            a.f["_checkpoint_defaults"] = d
            a.absent.discard("_checkpoint_defaults")
            g["defaults"] = d
        if shape["ck"] != "none":
            g["root"] = mk_file_state(I, a, shape, skey(path))
        if shape["rng"]:
            g["rng"] = Sym(z3.Const("user_rng", Misc), "rng")
            kw["rng"] = g["rng"]
        if shape.get("xp_out"):
            g["xp_out"] = Sym(z3.Const("output_xp", Misc), "ns")
            kw["xp"] = g["xp_out"]
        kw["n_steps"] = IV(z3.Int("n_steps")) if shape["sampler"] not in ("importance", "emcee") else None
        kw = {k: v for k, v in kw.items() if v is not None}
        g["kw"] = kw
        return Pre(a, [IV(z3.Int("n_samples"))], kw, ghost=g)

    def post_raise(self, I, pre, sig):
        g = pre.ghost
        sh = g["shape"]
        cls = SAMPLER_TYPES[sh["sampler"]]
        if sig.exc == "TypeError" and sh["rng"]:
            _, ipos, ikwonly, _ = class_sig(I, cls, "__init__")
            _, spos, skwonly, _ = class_sig(I, cls, "sample")
            no_route = "rng" not in ipos + ikwonly + spos + skwonly
            I.path.prove(z3.BoolVal(no_route), f"{self.qual}:C20:a generator is rejected (TypeError, never silently dropped) only for samplers whose real signatures have no rng parameter [{sh['sampler']}]")
            return
        return super().post_raise(I, pre, sig)

    def post(self, I, pre, r):
        p, g = I.path, pre.ghost
        q = self.qual
        sh = g["shape"]
        a = g["a"]
        eff = sh.get("effective", sh["sampler"])
        cls = SAMPLER_TYPES[eff]
        tag = f"[{sh['sampler']}, checkpoint path {sh['ck']}]" if not sh.get("resumed") else \
            f"[instance resumed from a {sh['resumed']} file, sampler {'not given' if sh.get('omit_sampler') else 'given as ' + sh['sampler']}, checkpoint path {sh['ck']}, save_config={sh['save_config']}]"
        inits = [e for e in p.events if e[0] == "init_sampler"]
        runs = [e for e in p.events if e[0] == "sampler.sample"]
        p.prove(z3.BoolVal(len(inits) == 1 and len(runs) == 1 and runs[0][1] is inits[0][1]), f"{q}:one sampler is built and run once {tag}")
        if not (inits and runs):
            return
        s = inits[0][1]
        p.prove(z3.BoolVal(s.cls == cls), f"{q}:C14:the sampler class matches the requested type {tag}")
        init_kw, run_kw = inits[0][2], runs[0][2]
        _, ipos, ikwonly, _ = class_sig(I, cls, "__init__")
        _, spos, skwonly, _ = class_sig(I, cls, "sample")
        for k in ("rng", "n_steps"):
            if k not in g["kw"]:
                continue
            in_init = k in ipos + ikwonly
            if in_init:
                p.prove(z3.BoolVal(k in init_kw and init_kw[k] is g["kw"][k] and k not in run_kw), f"{q}:C20:keyword `{k}` is a constructor parameter of {cls}: routed to the constructor only {tag}")
            else:
                p.prove(z3.BoolVal(k in run_kw and run_kw[k] is g["kw"][k] and k not in init_kw), f"{q}:C20:keyword `{k}` is not a constructor parameter of {cls}: routed to sample() {tag}")
        if sh["rng"]:
            reaches = (init_kw.get("rng") is g["rng"]) or (run_kw.get("rng") is g["rng"])
            p.prove(z3.BoolVal(reaches), f"{q}:C20:a generator given to sample_posterior reaches the sampler {tag}")
        # ---- C12: before sampling starts
        if sh["ck"] != "none":
            snap = runs[0][3].get(skey(g["path"]), {})
            supports = "checkpoint_file_path" in spos + skwonly
            p.prove(z3.BoolVal("flow" in snap), f"{q}:C12:C14:the flow is in the checkpoint file before sampling starts (a checkpoint written by an interrupted run is never in a file without its proposal) {tag}")
            if sh["save_config"]:
                p.prove(z3.BoolVal("aspire_config" in snap), f"{q}:C12:the configuration is in the checkpoint file before sampling starts {tag}")
            if supports:
                p.prove(z3.BoolVal(run_kw.get("checkpoint_file_path") is g["path"]), f"{q}:C12:the sampler is told the checkpoint file {tag}")
                ev = run_kw.get("checkpoint_every")
                want = z3.Int("checkpoint_every") if sh["ck"] == "explicit" else z3.Int("defaults_every")
                if sh.get("override_every") and not sh.get("fresh_start"):
                    want = z3.Int("resume_override_every")          # resume_kwargs of resume_from_file win over the defaults of the rebuilt instance
                p.prove(to_int(ev) == want if isinstance(ev, Z) else z3.BoolVal(False), f"{q}:C12:the sampler is told the requested cadence {tag}")
            else:
                p.prove(z3.BoolVal("checkpoint_file_path" not in run_kw), f"{q}:C12:samplers without checkpoint support are not handed checkpoint keywords {tag}")
            root = fs(I)[skey(g["path"])]
            for nm, gl in file_inv(I, root, a, tag):
                p.prove(gl, f"{q}:C14:{nm}")
            if "defaults" in g:
                dd = g["defaults"].d
                p.prove(z3.Implies(I.truth(dd["saved_flow"]), z3.BoolVal("flow" in root.f["members"].d)), f"{q}:C14:context flag saved_flow implies the flow is in the file {tag}")
                p.prove(z3.Implies(I.truth(dd["saved_config"]), z3.BoolVal("aspire_config" in root.f["members"].d)), f"{q}:C14:context flag saved_config implies the configuration is in the file {tag}")
            if "aspire_config" in root.f["members"].d and sh["save_config"]:
                st = root.f["members"].d["aspire_config"].f.get("sampler_type")
                p.prove(z3.BoolVal(isinstance(st, Str) and st.v == eff), f"{q}:C14:C12:the stored configuration names the sampler type that ran (the resume route needs it) {tag}")
        else:
            p.prove(z3.BoolVal("checkpoint_file_path" not in run_kw), f"{q}:C12:no checkpoint keywords without a checkpoint path {tag}")
        if sh.get("resumed"):
            rf = run_kw.get("resume_from")
            if sh.get("fresh_start"):
                p.prove(z3.BoolVal(rf is not None and isinstance(rf, NoneV)), f"{q}:C14:C11:an explicit resume_from=None (start afresh) is honoured: the stored checkpoint is not slipped in {tag}")
            else:
                p.prove(z3.BoolVal(rf is a.f["_resume_from_default"]), f"{q}:C11:C12:a rebuilt instance continues from the checkpoint it was primed with {tag}")
        p.prove(z3.BoolVal(a.f.get("_sampler") is s), f"{q}:C17:the instance keeps the sampler whose evaluation counter it reports {tag}")
        res = p.ghost.get("sampler_result")
        if res is not None and isinstance(r, Obj):
            if "xp_out" in g:
                p.prove(z3.BoolVal(r.f.get("xp") is g["xp_out"]), f"{q}:C15:the output-namespace option is honoured {tag}")
                p.prove(z3.BoolVal(r.f.get("x") is res.f["x"] or r.f.get("__converted_from") is res), f"{q}:C15:the returned samples are the sampler's result converted {tag}")
            for k in ("log_evidence", "log_evidence_error"):
                p.prove(I.equal(r.f.get(k, NONE), res.f[k]), f"{q}:C15:C08:{k} of the sampler's result is carried through the output conversion {tag}")
            p.prove(z3.BoolVal(r.f.get("parameters") is a.f["parameters"]), f"{q}:returned samples carry the instance's parameter names {tag}")


class Fit(Contract):
    qual = "aspire:Aspire.fit"
    properties = ("C14", "C12")
    doc = ("after fit with a checkpoint path the file invariant J holds again: the stored flow is the newly fitted one and no checkpoint weighted under "
           "another flow remains (known findings: refit without overwrite keeps the old flow; refit leaves an older checkpoint in place)")

    def shapes(self):
        # `last`: the sampler type of the instance's last sampling call (None: the instance has not sampled; an instance rebuilt by resume_from_file
        # carries the type stored in the file, see ResumeFromFile)
        out = [{"ck": ck, "file_flow": ff, "file_ckpt": fc, "overwrite": ow, "file_config": cfg, "last": last} for ck in ("none", "explicit", "defaults") for ff in (0, 1) for fc in (0, 1)
               for ow in (0, 1) for cfg in (0, 1) for last in (None, "smc") if not (ck == "none" and (ff or fc or cfg or ow)) and not (fc and not ff)]
        # an explicit checkpoint path given inside an auto_checkpoint context that targets *another* file
        out += [{"ck": "explicit", "file_flow": ff, "file_ckpt": 0, "overwrite": 0, "file_config": 0, "last": None, "other_defaults": 1} for ff in (0, 1)]
        return out

    def setup(self, I, shape):
        flow = flow_obj("before_fit")
        reg = I.reg

        def flow_fit(I2, a, k, n):
            o = a[0]
            o.f["ver"] = Sym(z3.Const(fresh("flowver_after_fit"), FLOWVER), "flowver")      # every fit produces a new proposal
            I2.path.event("flow.fit", o)
            return Obj("FlowHistory", {})
        reg.handlers["FlowStub2.fit"] = flow_fit
        a = Obj("Aspire", {"_flow": flow, "_sampler": NONE, "xp": Sym(z3.Const("aspire_xp", Misc), "ns"), "parameters": Sym(z3.Const("aspire_parameters", Misc), "params")})
        a.absent.add("_checkpoint_defaults")
        if shape["last"]:
            a.f["_last_sampler_type"] = Str(shape["last"])
        else:
            a.absent.add("_last_sampler_type")
        smp = Obj("Samples", {"x": base_arr("train_x", "row"), "xp": a.f["xp"], "parameters": a.f["parameters"]})
        path = Str("run.h5")
        kw = {}
        g = {"a": a, "shape": shape, "flow": flow, "path": path}
        if shape["ck"] == "explicit":
            kw["checkpoint_path"] = path
            kw["overwrite"] = B(bool(shape["overwrite"]))
            if shape.get("other_defaults"):
                od = PyDict({"path": Str("context_file.h5"), "every": IV(1), "save_config": B(z3.Bool("defaults_save_config")), "save_flow": B(z3.Bool("defaults_save_flow")),
                             "saved_config": B(False), "saved_flow": B(False)})
                a.f["_checkpoint_defaults"] = od
                a.absent.discard("_checkpoint_defaults")
                g["other_defaults"] = od
                fs(I)[skey(Str("context_file.h5"))] = mk_group("/")          # the context's own file: nothing written to it yet
        elif shape["ck"] == "defaults":
            sc0, sf0 = z3.Bool("saved_config0"), z3.Bool("saved_flow0")
            I.path.assume(z3.Implies(sf0, z3.BoolVal(bool(shape["file_flow"]))))
            I.path.assume(z3.Implies(sc0, z3.BoolVal(bool(shape["file_config"]))))
            # the flags an enclosing auto_checkpoint(...) / resume_from_file(...) may have set: any combination (resume_from_file installs save_flow=False)
            a.f["_checkpoint_defaults"] = PyDict({"path": path, "every": IV(1), "save_config": B(z3.Bool("defaults_save_config")), "save_flow": B(z3.Bool("defaults_save_flow")),
                                                  "saved_config": B(sc0), "saved_flow": B(sf0)})
            a.absent.discard("_checkpoint_defaults")
            kw["overwrite"] = B(bool(shape["overwrite"]))
        if shape["ck"] != "none":
            g["root"] = mk_file_state(I, a, shape, skey(path))
        return Pre(a, [smp], kw, ghost=g)

    def post(self, I, pre, r):
        p, g = I.path, pre.ghost
        q = self.qual
        sh = g["shape"]
        a = g["a"]
        fits = [e for e in p.events if e[0] == "flow.fit"]
        p.prove(z3.BoolVal(len(fits) == 1), f"{q}:the flow is trained once")
        if sh["ck"] == "none":
            p.prove(z3.BoolVal(not any(e[0] == "h5.open" for e in p.events)), f"{q}:C14:no file is touched without a checkpoint path")
            return
        root = fs(I)[skey(g["path"])]
        mem = root.f["members"].d
        tag = f"[file had flow: {bool(sh['file_flow'])}, checkpoint: {bool(sh['file_ckpt'])}, overwrite={bool(sh['overwrite'])}]"
        p.prove(z3.BoolVal("flow" in mem), f"{q}:C12:C14:a flow is stored in the checkpoint file after fit {tag}")
        if "flow" in mem:
            kind = "refit without overwrite" if (sh["file_flow"] and not sh["overwrite"]) else "fresh or overwrite"
            p.prove(mem["flow"].f["ver"].e == a.f["_flow"].f["ver"].e, f"{q}:C14:J1 the flow stored in the file is the newly fitted flow [{kind}] {tag}")
        if "checkpoint" in mem and "flow" in mem:
            p.prove(mem["flow"].f["ver"].e == mem["checkpoint"].f["flow_ver"].e,
                    f"{q}:C14:J2 no checkpoint weighted under another proposal remains next to the stored flow [stale checkpoint after refit] {tag}")
        if "other_defaults" in g:
            # the flags of the enclosing context describe the context's own file: fitting into another file must not mark that file as holding the flow / configuration
            od = g["other_defaults"].d
            cmem = fs(I)[skey(Str("context_file.h5"))].f["members"].d
            p.prove(z3.Implies(I.truth(od["saved_flow"]), z3.BoolVal("flow" in cmem)), f"{q}:C12:C14:context flag saved_flow implies the flow is in the context's file (fit wrote to another file) {tag}")
            # (saved_config is deliberately not constrained here: fit does set it after writing the configuration to the other file, but sample_posterior
            #  rewrites the configuration before sampling whatever the flag says, so no checkpoint is ever stored next to a missing or stale configuration)
        if "checkpoint" in mem and "aspire_config" in mem:
            st = mem["aspire_config"].f.get("sampler_type")
            who = "config rewritten by an instance that has not sampled" if not sh["last"] else f"instance last sampled with {sh['last']}"
            p.prove(z3.BoolVal(isinstance(st, Str) and SAMPLER_TYPES.get(st.v) == mem["checkpoint"].f["sampler_cls"].v),
                    f"{q}:C14:J2 the configuration next to a stored checkpoint still names the sampler that wrote it [{who}] {tag}")
        closes = [e for e in p.events if e[0] == "h5.close"]
        opens = [e for e in p.events if e[0] == "h5.open"]
        p.prove(z3.BoolVal(len(opens) == len(closes)), f"{q}:C12:the file is closed again")


# ------------------------------------------------------------------------------------------ sampler .sample() entry points
def _sample_model(self, I, info, bound, args, kwargs, node):
    """caller's view of <SamplerClass>.sample: keyword binding is checked against the real signature of that class"""
    s = bound
    pos, defaults, vararg, kwonly, kwarg = signature(info.node)
    names = pos[1:] + kwonly
    for kw in kwargs:
        if kw not in names and kwarg is None:
            raise RaiseSig("TypeError", node, msg=f"{s.cls}.sample() got an unexpected keyword argument '{kw}'")
    return I.reg.sampler_sample(I, [s] + list(args), kwargs, node)


def _mk(qual, base=Contract, **extra):
    return type("SampleEntry_" + qual.split(":")[1].replace(".", "_"), (base,), dict(qual=qual, model=_sample_model, doc="entry point: see SamplePosterior", **extra))


from contracts.samplers import ImportanceSample, mk_sampler_obj  # noqa: E402
from contracts.smc_base import Sample  # noqa: E402

ImportanceSampleEntry = _mk("samplers.importance:ImportanceSampler.sample", ImportanceSample)
BlackJAXSampleEntry = _mk("samplers.smc.blackjax:BlackJAXSMC.sample")


class SMCSampleEntry(Sample):
    """SMCSampler.sample as seen by the kernel classes' sample(): records the call"""

    def model(self, I, info, bound, args, kwargs, node):
        I.path.event("smc.sample", bound, dict(kwargs), bound.f.get("rng"))
        return Obj("Samples", {"x": base_arr(fresh("post_x"), "row"), "log_evidence": NONE})


class KernelSampleRng(Contract):
    """C20: which generator the SMC loop ends up with, per way of supplying it"""
    cls = "MiniPCNSMC"
    module = "samplers.smc.minipcn"
    properties = ("C20",)
    doc = ("when SMCSampler.sample starts, self.rng is the generator passed to this sample() call if one was passed, otherwise the generator the "
           "sampler was constructed with; a fresh ambient generator is created only when the user supplied none by either route")

    @property
    def qual(self):
        return f"{self.module}:{self.cls}.sample"

    model = _sample_model

    def shapes(self):
        info = None
        return [{"ctor": c, "call": k} for c in (0, 1) for k in (0, 1)]

    def setup(self, I, shape):
        s = mk_sampler_obj(I, self.cls)
        ctor_rng = Sym(z3.Const("constructor_rng", Misc), "rng")
        call_rng = Sym(z3.Const("call_rng", Misc), "rng")
        default_rng = Sym(z3.Const("default_ambient_rng", Misc), "rng", {"ambient": True})
        s.f["rng"] = ctor_rng if shape["ctor"] else default_rng
        s.f["__rng_from_user"] = B(bool(shape["ctor"]))

        def array_rng(I2, a, k, n):
            g = Sym(z3.Const(fresh("ArrayRNG"), Misc), "rng", {"ambient": True})
            I2.path.event("entropy", "orng.ArrayRNG", g)
            return g
        I.reg.handlers["orng.ArrayRNG"] = array_rng
        I.reg.handlers["ArrayRNG"] = array_rng
        I.reg.import_ok.add("orng.ArrayRNG")
        info = I.front.find_method(self.cls, "sample")
        pos, defaults, vararg, kwonly, kwarg = signature(info.node)
        kw = {}
        has_route = "rng" in pos + kwonly
        if shape["call"] and has_route:
            kw["rng"] = call_rng
        user_kwargs = None
        if "sampler_kwargs" in pos + kwonly:
            # the caller's own dictionary of kernel settings (the step count of the final mutation among them)
            user_kwargs = PyDict({"n_final_steps": IV(z3.Int("user_n_final_steps"))})
            kw["sampler_kwargs"] = user_kwargs
        return Pre(s, [IV(z3.Int("n_samples"))], kw, ghost={"s": s, "shape": shape, "ctor_rng": ctor_rng, "call_rng": call_rng, "default": default_rng, "has_route": has_route,
                                                           "user_kwargs": user_kwargs, "user_kwargs0": dict(user_kwargs.d) if user_kwargs is not None else None})

    def post(self, I, pre, r):
        p, g = I.path, pre.ghost
        q = self.qual
        sh = g["shape"]
        runs = [e for e in p.events if e[0] == "smc.sample"]
        p.prove(z3.BoolVal(len(runs) == 1), f"{q}:the SMC loop is entered once")
        if not runs:
            return
        used = runs[0][3]
        if sh["call"] and g["has_route"]:
            p.prove(z3.BoolVal(used is g["call_rng"]), f"{q}:C20:a generator passed to sample() is the one the SMC loop uses")
        elif sh["ctor"]:
            p.prove(z3.BoolVal(used is g["ctor_rng"]), f"{q}:C20:the generator the sampler was constructed with is the one the SMC loop uses [constructor route, none passed to sample()]")
        else:
            p.prove(z3.BoolVal(isinstance(used, Sym) and used.info.get("ambient", False)), f"{q}:C20:an ambient generator is used only when the user supplied none")
        if sh["call"] and not g["has_route"]:
            p.prove(z3.BoolVal(True), f"{q}:C20:{self.cls}.sample has no rng parameter (recorded in the routing table)")
        uk = g.get("user_kwargs")
        if uk is not None:
            # "the same sampling arguments": the dictionary the caller passed can be passed again (second run, resumed call) and still says the same
            same = set(uk.d) == set(g["user_kwargs0"]) and all(uk.d[k] is g["user_kwargs0"][k] for k in g["user_kwargs0"])
            p.prove(z3.BoolVal(same), f"{q}:C20:C11:the caller's sampler_kwargs dictionary is left as it was passed (defaults are filled into the sampler's own copy)")
            p.prove(z3.BoolVal(g["s"].f.get("sampler_kwargs") is not uk), f"{q}:C20:C11:the sampler works on its own copy of sampler_kwargs (SMCSampler.sample removes n_final_steps from it: the caller's dictionary must keep the entry for the next call)")


class EmceeSMCSampleRng(KernelSampleRng):
    cls = "EmceeSMC"
    module = "samplers.smc.emcee"


def routing_table(I=None):
    from pyvc.front import Front
    f = I.front if I is not None else Front()
    out = {}
    for st, cls in SAMPLER_TYPES.items():
        init = f.find_method(cls, "__init__")
        smp = f.find_method(cls, "sample")
        ip = signature(init.node)
        sp = signature(smp.node)
        out[st] = {"class": cls, "rng_in_init": "rng" in ip[0] + ip[3], "rng_in_sample": "rng" in sp[0] + sp[3], "rng_key_in_sample": "rng_key" in sp[0] + sp[3]}
    return out


class MiniPCNSample(Contract):
    """plain MCMC samplers: returned samples carry prior and likelihood of their own rows; the generator passed to sample() drives the kernel"""
    qual = "samplers.mcmc:MiniPCN.sample"
    cls = "MiniPCN"
    properties = ("C10", "C17", "C20", "C05")
    doc = ("the kernel is handed self.log_prob (untempered target) and the generator passed to sample(); the returned samples' log_prior and "
           "log_likelihood are the user's functions of the returned coordinates; the likelihood only ever sees samples that carry their prior")
    model = _sample_model

    def shapes(self):
        return [{"rng": 0}, {"rng": 1}]

    def setup(self, I, shape):
        s = mk_sampler_obj(I, self.cls)
        rng = Sym(z3.Const("call_rng", Misc), "rng")
        n = z3.Int("n_samples")
        I.path.assume(n >= 1)
        kw = {"rng": rng} if shape["rng"] else {}
        if I.path.choose(2, "sampler-object-used-before") == 1:
            # an earlier sample() call on this object left its kernel behind (built with that call's generator)
            stale = Obj({"MiniPCN": "MiniPCNKernel", "Emcee": "EmceeKernel"}.get(self.cls, "MiniPCNKernel"),
                        {"rng": Sym(z3.Const("generator_of_an_earlier_call", Misc), "rng"),
                         "log_prob_fn": Fn(lambda I2, a, k, n2: base_arr(fresh("target_of_an_earlier_call"), "real", a[0].n), "log_prob of an earlier call"), "args": Tup([]), "acceptance_fraction": base_arr("old_acc", "real"),
                         "stale": B(True)})
            s.f["sampler"] = stale
        else:
            s.absent.add("sampler")
        return Pre(s, [IV(n)], kw, ghost={"s": s, "rng": rng, "shape": shape, "n": n, "evals0": s.f["n_likelihood_evaluations"]})

    # a sampler built inside sample() (e.g. for the evidence estimate) is executed, not replaced by its caller-side model: its likelihood calls count
    force_inline = ("samplers.importance:ImportanceSampler.sample",)

    def post(self, I, pre, r):
        from contracts.samplers import aligned_goals
        p, g = I.path, pre.ghost
        q = self.qual
        s = g["s"]
        if not isinstance(r, Obj):
            p.prove(z3.BoolVal(False), f"{q}:returns Samples")
            return
        # C17: the counter reports the points the user's likelihood was asked to evaluate during this call - each exactly once
        asked = z3.IntVal(0)
        for e in p.events:
            if e[0] == "user_log_likelihood":
                asked = asked + e[2].n
        p.prove(to_int(s.f["n_likelihood_evaluations"]) == to_int(g["evals0"]) + asked,
                f"{q}:C17:the evaluation counter grows by exactly the number of points handed to the user's likelihood during the call (no point counted twice, none missed)")
        for nm, gl in aligned_goals(q, r, fields=("log_prior", "log_likelihood")):
            p.prove(gl, nm)
        cons = [e for e in p.events if e[0] == "kernel.construct"]
        p.prove(z3.BoolVal(len(cons) == 1), f"{q}:C05:C20:exactly one kernel constructed by this call")
        runs = [e for e in p.events if e[0] == "kernel.run"]
        p.prove(z3.BoolVal(len(runs) == 1 and isinstance(runs[0][1], Obj) and "stale" not in runs[0][1].f),
                f"{q}:C05:C20:the kernel that runs is the one this call built (with this call's target and generator), not one left on the object by an earlier call")
        if cons:
            kw = cons[0][2]
            fn = kw.get("log_prob_fn")
            p.prove(z3.BoolVal(getattr(fn, "info", None) is not None and fn.info.name == "log_prob" and fn.bound is s), f"{q}:C05:the kernel is handed this sampler's (untempered) log_prob")
            if g["shape"]["rng"]:
                used = kw.get("rng")
                p.prove(z3.BoolVal(used is g["rng"]), f"{q}:C20:the generator passed to sample() is handed to the kernel")
            else:
                used = kw.get("rng")
                _, ipos, ikwonly, _ = class_sig(I, self.cls, "__init__")
                if "rng" in ipos + ikwonly:
                    # the class's constructor accepts a generator (sample_posterior routes a top-level rng= there): that generator drives the kernel
                    p.prove(z3.BoolVal(used is s.f.get("rng")), f"{q}:C20:a generator accepted by the constructor is the one handed to the kernel when none is passed to sample()")
                else:
                    p.prove(z3.BoolVal(used is None or (isinstance(used, Sym) and used.info.get("ambient", False))), f"{q}:C20:an ambient generator only when none was supplied")


class EmceeSample(MiniPCNSample):
    qual = "samplers.mcmc:Emcee.sample"
    cls = "Emcee"


class BuildAspireFromFileModel(Contract):
    """caller-side model of the reader: an Aspire instance rebuilt from the stored configuration and flow, plus the checkpoint blob when the file holds one"""
    qual = "aspire:Aspire._build_aspire_from_file"
    doc = "returns (instance, checkpoint bytes | None, checkpoint state | None, sampler config | None, saved sampler type | None, n_samples | None)"

    def model(self, I, info, bound, args, kwargs, node):
        p = I.path
        a = Obj("Aspire", {"flow": Sym(z3.Const("loaded_flow", Misc), "flow")})
        for k in ("_checkpoint_defaults", "_resume_from_default", "_resume_sampler_type", "_resume_n_samples", "_resume_overrides", "_resume_sampler_config", "_last_sampler_type"):
            a.absent.add(k)
        p.ghost["rebuilt"] = a
        if p.choose(2, "file-holds-a-checkpoint") == 1:
            blob = Sym(z3.Const("stored_checkpoint_bytes", Misc), "bytes")
            state = PyDict({"sampler": Str("MiniPCNSMC")})
            p.ghost["file_has_checkpoint"] = True
            return Tup([a, blob, state, PyDict({"sampler_class": Str("MiniPCNSMC")}), Str("smc"), IV(z3.Int("stored_n_samples"))])
        p.ghost["file_has_checkpoint"] = False
        return Tup([a, NONE, NONE, NONE, NONE, NONE])


class ResumeFromFile(Contract):
    qual = "aspire:Aspire.resume_from_file"
    properties = ("C12", "C14", "C11")
    doc = ("the rebuilt instance keeps checkpointing to the file it came from (checkpoint defaults with that path, cadence 1) whether or not the file already holds a "
           "checkpoint (a run interrupted before its first checkpoint is restarted from the same file); the stored checkpoint, sampler type and size are primed "
           "exactly when the file holds a checkpoint")

    def must_return(self, shape):
        return True

    def shapes(self):
        return [{"sampler": sm, "overrides": ov} for sm in (None, "emcee_smc") for ov in (0, 1)]

    def setup(self, I, shape):
        path = Str("run.h5")
        L = Fn(lambda I2, a, k, n: NONE, "user_log_likelihood")
        P = Fn(lambda I2, a, k, n: NONE, "user_log_prior")
        kw = {"log_likelihood": L, "log_prior": P}
        g = {"path": path, "sampler": None, "overrides": None}
        if shape["sampler"]:
            g["sampler"] = kw["sampler"] = Str(shape["sampler"])
        if shape["overrides"]:
            g["overrides"] = kw["resume_kwargs"] = PyDict({"checkpoint_every": IV(z3.Int("override_every"))})
        return Pre(ClassRef("Aspire"), [path], kw, ghost=g)

    def post(self, I, pre, r):
        p, g = I.path, pre.ghost
        q = self.qual
        a = p.ghost.get("rebuilt")
        p.prove(z3.BoolVal(r is a and isinstance(r, Obj)), f"{q}:C12:returns the instance rebuilt from the file")
        if not isinstance(r, Obj):
            return
        has = p.ghost.get("file_has_checkpoint")
        tag = f"[file {'holds a checkpoint' if has else 'holds configuration and flow only (interrupted before the first checkpoint)'}]"
        d = r.f.get("_checkpoint_defaults")
        ok = isinstance(d, PyDict) and d.d.get("path") is g["path"]
        p.prove(z3.BoolVal(ok), f"{q}:C12:C14:the instance keeps checkpointing to the file it was rebuilt from {tag}")
        if ok:
            p.prove(to_int(d.d["every"]) == 1 if isinstance(d.d.get("every"), Z) else z3.BoolVal(False), f"{q}:C12:default cadence of the continued run is every iteration {tag}")
            for k in ("saved_config", "saved_flow"):
                p.prove(z3.Not(I.truth(d.d[k])) if k in d.d else z3.BoolVal(False), f"{q}:C14:flag {k} starts cleared {tag}")
        if has:
            # the file's configuration named the sampler that wrote the checkpoint; a configuration this instance rewrites (fit inside a new
            # automatic-checkpointing context) must keep naming it, and config_dict reports _last_sampler_type (ConfigDict)
            lst = r.f.get("_last_sampler_type")
            p.prove(z3.BoolVal(isinstance(lst, Str) and lst.v == "smc"), f"{q}:C14:the rebuilt instance carries the sampler type stored in the file, so a configuration it rewrites still names the sampler that wrote the checkpoint {tag}")
        if has:
            # what the next sample_posterior() call of the rebuilt instance falls back on: the sampler that wrote the checkpoint, the stored
            # population size, the caller's overrides, and the stored checkpoint itself (C11: the resume-from-file route continues *that* run)
            rst = r.f.get("_resume_sampler_type")
            given = g.get("sampler")
            want = given.v if given is not None else "smc"
            p.prove(z3.BoolVal(isinstance(rst, Str) and rst.v == want),
                    f"{q}:C11:C14:the sampler primed for the continued run is the one named by the caller, else the one the file's configuration names {tag}")
            rn = r.f.get("_resume_n_samples")
            p.prove(to_int(rn) == z3.Int("stored_n_samples") if isinstance(rn, Z) else z3.BoolVal(False), f"{q}:C11:the population size primed for the continued run is the stored one {tag}")
            ro = r.f.get("_resume_overrides")
            if g.get("overrides") is not None:
                p.prove(z3.BoolVal(ro is g["overrides"]), f"{q}:C11:the caller's resume_kwargs are what the continued run is given {tag}")
            else:
                p.prove(z3.BoolVal(isinstance(ro, PyDict) and len(ro.d) == 0), f"{q}:C11:without resume_kwargs the continued run gets no overrides {tag}")
            rb = r.f.get("_resume_from_default")
            p.prove(z3.BoolVal(isinstance(rb, Sym) and rb.e.eq(z3.Const("stored_checkpoint_bytes", Misc))), f"{q}:C11:C14:the continued run resumes from the checkpoint that was read together with the flow (a snapshot, not the file name: the file may be rewritten before sampling) {tag}")
        primed = "_resume_from_default" in r.f and not isinstance(r.f["_resume_from_default"], NoneV)
        p.prove(z3.BoolVal(primed == bool(has)), f"{q}:C11:C12:the stored checkpoint is primed for the next sampling call exactly when the file holds one {tag}")


def _config_instance(shape):
    """an Aspire instance as config_dict sees it: every setting it reports, symbolic where the value does not matter"""
    f = {"log_likelihood": Fn(lambda I2, a, k, n: NONE, "user_log_likelihood"), "log_prior": Fn(lambda I2, a, k, n: NONE, "user_log_prior"),
         "dims": IV(z3.Int("cfg_dims")), "parameters": PyList([Str("mass"), Str("chi")]), "periodic_parameters": NONE, "prior_bounds": NONE,
         "bounded_to_unbounded": B(z3.Bool("cfg_b2u")), "bounded_transform": Str("logit"), "flow_matching": B(z3.Bool("cfg_fm")), "device": NONE,
         "xp": NONE, "flow_backend": Str("zuko"), "flow_kwargs": PyDict({}), "eps": R(z3.Real("cfg_eps")), "dtype": NONE}
    if shape["sampler"]:
        f["_sampler"] = Obj(SAMPLER_TYPES[shape["sampler"]], {})
    else:
        f["_sampler"] = NONE
    a = Obj("Aspire", f)
    if shape["last"]:
        a.f["_last_sampler_type"] = Str(shape["last"])
    else:
        a.absent.add("_last_sampler_type")
    return a


class ConfigDict(Contract):
    qual = "aspire:Aspire.config_dict"
    properties = ("C14", "C13")
    raises = {"ValueError": "sampler configuration requested before a sampler exists"}
    doc = ("the configuration names the sampler type of the last sampling call (`sampler_type` == _last_sampler_type) whenever the instance has sampled - "
           "with and without the sampler's own configuration (fit() rewrites the file's configuration without it) - and has no such entry before; "
           "`sampler_config` is the sampler's config_dict exactly when requested")

    def shapes(self):
        return [{"last": l, "include": inc, "sampler": sm} for l in (None, "smc", "importance") for inc in (0, 1) for sm in (None, "smc", "importance")
                if not (l and not sm)]

    def setup(self, I, shape):
        a = _config_instance(shape)
        return Pre(a, [], {"include_sampler_config": B(bool(shape["include"]))}, ghost={"a": a, "shape": shape})

    def post(self, I, pre, r):
        p, g = I.path, pre.ghost
        q = self.qual
        sh = g["shape"]
        tag = f"[{'after sampling with ' + sh['last'] if sh['last'] else 'before any sampling'}; include_sampler_config={bool(sh['include'])}]"
        if not isinstance(r, PyDict):
            p.prove(z3.BoolVal(False), f"{q}:C14:returns a dictionary {tag}")
            return
        if sh["last"]:
            st = r.d.get("sampler_type")
            p.prove(z3.BoolVal(st is g["a"].f["_last_sampler_type"]), f"{q}:C14:the configuration names the sampler type of the last sampling call {tag}")
        else:
            p.prove(z3.BoolVal("sampler_type" not in r.d), f"{q}:C14:no sampler type is recorded before the instance has sampled {tag}")
        if sh["include"]:
            sc = r.d.get("sampler_config")
            p.prove(z3.BoolVal(isinstance(sc, PyDict) and isinstance(sc.d.get("sampler_class"), Str) and sc.d["sampler_class"].v == SAMPLER_TYPES[sh["sampler"]]),
                    f"{q}:C14:C13:the sampler's own configuration names the class of the instance's sampler {tag}")
        else:
            p.prove(z3.BoolVal("sampler_config" not in r.d), f"{q}:C14:no sampler configuration unless requested {tag}")
        for k in ("dims", "parameters", "periodic_parameters", "prior_bounds", "bounded_to_unbounded", "bounded_transform", "flow_matching", "device", "flow_backend", "flow_kwargs", "eps"):
            p.prove(z3.BoolVal(r.d.get(k) is g["a"].f[k]), f"{q}:C13:setting `{k}` is reported as held by the instance {tag}")

    def post_raise(self, I, pre, sig):
        sh = pre.ghost["shape"]
        if sig.exc == "ValueError" and sh["include"] and not sh["sampler"]:
            return
        return super().post_raise(I, pre, sig)


class SaveConfig(SaveConfigModel):
    qual = "aspire:Aspire.save_config"
    properties = ("C14", "C13")
    doc = ("what load_from_h5_file reads back under the given path is the instance's config_dict(**kwargs): in particular the sampler type of the last "
           "sampling call, for either value of include_sampler_config (carries the caller-side model used by fit / sample_posterior)")

    def shapes(self):
        return [{"last": l, "include": inc, "sampler": "smc"} for l in (None, "smc", "importance") for inc in (0, 1)]

    def setup(self, I, shape):
        a = _config_instance(shape)
        root = mk_group("/")
        h5 = Obj("H5File", {"root": root, "mode": Str("a"), "closed": B(False), "path": Str("run.h5")})
        return Pre(a, [h5], {"include_sampler_config": B(bool(shape["include"])), "include_sample_calls": B(False)}, ghost={"a": a, "shape": shape, "h5": h5})

    def post(self, I, pre, r):
        p, g = I.path, pre.ghost
        q = self.qual
        sh = g["shape"]
        tag = f"[{'after sampling with ' + sh['last'] if sh['last'] else 'before any sampling'}; include_sampler_config={bool(sh['include'])}]"
        load = I.front.get("utils:load_from_h5_file")
        I.depth += 1
        try:
            back = I.call_repo(load, None, [g["h5"], Str("aspire_config")], {}, None, force_inline=True)
        finally:
            I.depth -= 1
        if not isinstance(back, PyDict):
            p.prove(z3.BoolVal(False), f"{q}:C14:the stored configuration reloads as a dictionary {tag}")
            return
        st = back.d.get("sampler_type")
        if sh["last"]:
            p.prove(z3.BoolVal(isinstance(st, Str) and st.v == sh["last"]), f"{q}:C14:the stored configuration names the sampler type of the last sampling call {tag}")
        else:
            p.prove(z3.BoolVal(st is None), f"{q}:C14:no sampler type is stored before the instance has sampled {tag}")
        p.prove(z3.BoolVal(("sampler_config" in back.d) == bool(sh["include"])), f"{q}:C14:C13:the sampler's configuration is stored exactly when requested {tag}")


# ------------------------------------------------------------------------------------------ the reader behind resume_from_file
class GetFlowWrapperModel(Contract):
    qual = "flows:get_flow_wrapper"
    doc = "returns (the flow class of the named back end, its array namespace); the class's load(h5, path) reads the flow stored under that path"

    def model(self, I, info, bound, args, kwargs, node):
        backend = kwargs.get("backend", args[0] if args else Str("zuko"))
        fm = kwargs.get("flow_matching", args[1] if len(args) > 1 else B(False))
        if I.path.ghost.get("record_transform_construction") and isinstance(backend, Str) and backend.v in ("zuko", "flowjax"):
            # inside the InitFlow contract: the real class (its constructor's signature is inspected; construction itself is recorded, see mk_new)
            if backend.v == "zuko":
                cls = "ZukoFlowMatching" if I.is_true(fm) else "ZukoFlow"
            else:
                cls = "FlowJax"
            return Tup([ClassRef(cls), Sym(z3.Const("flow_backend_namespace", Misc), "ns")])
        return Tup([Obj("FlowClassStub", {"backend": backend, "flow_matching": fm}), Sym(z3.Const("flow_backend_namespace", Misc), "ns")])

    def usable_at_call(self, I, q):
        return True


def _install_flow_class_stub(reg):
    def load(I, a, k, n):
        from contracts.io import group_path
        h5, path = a[1], k.get("path", a[2] if len(a) > 2 else Str("flow"))
        root = h5.f["root"] if h5.cls == "H5File" else h5
        g = group_path(I, root, path.v, create=False, node=n)
        I.path.event("flow.load", path.v, a[0])
        return Obj("FlowStub2", {"ver": g.f["ver"], "loaded_by": a[0]})
    reg.handlers["FlowClassStub.load"] = load


class BuildAspireFromFile(BuildAspireFromFileModel):
    qual = "aspire:Aspire._build_aspire_from_file"
    properties = ("C13", "C11", "C14")
    raises = {"ValueError": "configuration or flow missing from the file"}
    doc = ("the reader behind resume_from_file, run on a file written by the real codec: the rebuilt instance has every saved setting (dims, parameters, "
           "periodic parameters, bounds, transform options, back end, flow options spread back into the constructor, eps, dtype, namespace resolved by name) "
           "and the caller's callables; the flow is loaded from the flow path with the class of the saved back end; the checkpoint bytes returned are the "
           "stored blob, n_samples the size of the stored population, the sampler type and sampler configuration the stored ones; a missing checkpoint gives None")

    def shapes(self):
        out = [{"ckpt": c, "bounds": b, "flow_kwargs": fk, "xp": x, "dtype": d} for c in (0, 1) for b in (0, 1) for fk in (0, 1) for x in (0, 1) for d in (0, 1)
               if (b == fk == x == d) or c]
        # a file that holds configuration and a checkpoint but no flow (an explicit checkpoint path used inside a context that had already saved the flow elsewhere)
        out.append({"ckpt": 1, "bounds": 0, "flow_kwargs": 0, "xp": 0, "dtype": 0, "noflow": 1})
        return out

    def must_return(self, shape):
        return not shape.get("noflow")            # every other file holds configuration and flow: the reader returns

    def post_raise(self, I, pre, sig):
        sh = pre.ghost["shape"]
        if sh.get("noflow") and sig.exc == "ValueError":
            return                                # refused, as it must be

        I.path.prove(z3.BoolVal(False), f"{self.qual}:C13:C12:a file that holds configuration and flow is read without an exception [{sig.exc}; checkpoint stored: {bool(sh['ckpt'])}]", assume_after=False)

    def setup(self, I, shape):
        _install_flow_class_stub(I.reg)
        p = I.path
        arr = base_arr("a_bound_pair", "real")
        cfg = {"log_likelihood": Str("user_module:ll"), "log_prior": Str("user_module:lp"), "dims": IV(z3.Int("saved_dims")),
               "parameters": PyList([Str("mass"), Str("chi")]), "periodic_parameters": PyList([Str("chi")]) if shape["bounds"] else NONE,
               "prior_bounds": PyDict({"mass": arr, "chi": arr}) if shape["bounds"] else NONE, "bounded_to_unbounded": B(z3.Bool("saved_b2u")),
               "bounded_transform": Str("probit"), "flow_matching": B(False), "device": NONE,
               "xp": Str("array_api_compat.numpy") if shape["xp"] else NONE, "flow_backend": Str("flowjax" if shape["flow_kwargs"] else "zuko"),
               "flow_kwargs": PyDict({"hidden_features": IV(z3.Int("saved_hidden")), "transforms": IV(z3.Int("saved_transforms"))}) if shape["flow_kwargs"] else PyDict({}),
               "eps": R(z3.Real("saved_eps")), "dtype": Str("float32") if shape["dtype"] else NONE,
               "sampler_type": Str("smc"), "sampler_config": PyDict({"sampler_class": Str("MiniPCNSMC")})}
        d = PyDict(dict(cfg))
        root = mk_group("/")
        h5 = Obj("H5File", {"root": root, "mode": Str("a"), "closed": B(False), "path": Str("run.h5")})
        save = I.front.get("utils:recursively_save_to_h5_file")
        I.depth += 1
        try:
            I.call_repo(save, None, [h5, Str("aspire_config"), d], {}, None, force_inline=True)
        finally:
            I.depth -= 1
        if shape.get("noflow"):
            I.path.ghost["record_transform_construction"] = True       # should the reader go on to build a flow of its own, that is followed (and refuted below)
        if not shape.get("noflow"):
            fg = mk_group("flow")
            fg.f["ver"] = Sym(z3.Const("stored_flow_ver", FLOWVER), "flowver")
            root.f["members"].d["flow"] = fg
        g = {"cfg": cfg, "shape": shape, "root": root}
        if shape["ckpt"]:
            pop = Obj("SMCSamples", {"x": base_arr("stored_x", "row", z3.Int("stored_population_size")), "xp": Sym(z3.Const("stored_xp", Misc), "ns")})
            state = PyDict({"samples": pop, "sampler": Str("MiniPCNSMC"), "iteration": IV(z3.Int("stored_iteration"))})
            blob = I.reg.handlers["pickle.dumps"](I, [state], {}, None)
            ck = mk_group("checkpoint")
            ck.f["members"].d["state"] = Obj("H5Dataset", {"shape0": IV(blob.n), "data": blob, "name": Str("state"), "resizable": B(True)})
            root.f["members"].d["checkpoint"] = ck
            g["blob"], g["state"], g["pop"] = blob, state, pop
        fs(I)[skey(Str("run.h5"))] = root
        L = Fn(lambda I2, a, k, n: NONE, "user_log_likelihood")
        P = Fn(lambda I2, a, k, n: NONE, "user_log_prior")
        g["L"], g["P"] = L, P
        kw = {"file_path": Str("run.h5"), "log_likelihood": L, "log_prior": P, "checkpoint_path": Str("checkpoint"), "checkpoint_dset": Str("state"),
              "flow_path": Str("flow"), "config_path": Str("aspire_config")}
        return Pre(None, [], kw, ghost=g)

    def post(self, I, pre, r):
        p, g = I.path, pre.ghost
        q = self.qual
        sh, cfg = g["shape"], g["cfg"]
        tag = f"[{'checkpoint stored' if sh['ckpt'] else 'no checkpoint'}, bounds={sh['bounds']}, flow options={sh['flow_kwargs']}, namespace={sh['xp']}, dtype={sh['dtype']}]"
        if sh.get("noflow"):
            p.prove(z3.BoolVal(False), f"{q}:C14:C12:a file without the stored flow is refused (ValueError): the stored checkpoint is never handed on to be continued under another proposal")
            return
        ok = isinstance(r, Tup) and len(r.items) == 6 and isinstance(r.items[0], Obj) and r.items[0].cls == "Aspire"
        p.prove(z3.BoolVal(ok), f"{q}:C13:returns (instance, bytes, state, sampler config, sampler type, size) {tag}")
        if not ok:
            return
        a, blob, state, scfg, stype, nsmp = r.items
        from contracts.serialization import struct_equal
        for k in ("dims", "parameters", "periodic_parameters", "prior_bounds", "bounded_to_unbounded", "bounded_transform", "flow_matching", "device", "flow_backend", "eps", "dtype"):
            p.prove(struct_equal(I, cfg[k], a.f.get(k, NONE)), f"{q}:C13:C11:the rebuilt instance has the saved setting `{k}` (same value, same type: a list stays a list) {tag}")
        fk = a.f.get("flow_kwargs")
        p.prove(struct_equal(I, cfg["flow_kwargs"], fk) if isinstance(fk, PyDict) else z3.BoolVal(False), f"{q}:C13:the saved flow options are handed back to the constructor as keywords (not nested) {tag}")
        xp = a.f.get("xp", NONE)
        if sh["xp"]:
            from contracts.dtypes import as_ns
            got = as_ns(xp)
            p.prove(z3.BoolVal(got is not None and got.f["name"].v == "numpy"), f"{q}:C13:C15:the saved namespace name is resolved to that namespace (and a stored population's namespace does not override it) {tag}")
        elif not sh["ckpt"]:
            p.prove(z3.BoolVal(isinstance(xp, NoneV)), f"{q}:C13:no namespace saved, none set {tag}")
        p.prove(z3.BoolVal(a.f.get("log_likelihood") is g["L"] and a.f.get("log_prior") is g["P"]), f"{q}:C13:the caller's callables are installed {tag}")
        fl = a.f.get("_flow")
        good = isinstance(fl, Obj) and fl.cls == "FlowStub2"
        p.prove(z3.BoolVal(good), f"{q}:C13:C14:the flow stored in the file is loaded into the instance {tag}")
        if good:
            p.prove(fl.f["ver"].e == z3.Const("stored_flow_ver", FLOWVER), f"{q}:C14:C11:the loaded flow is the one stored under the flow path {tag}")
            by = fl.f["loaded_by"]
            p.prove(z3.BoolVal(isinstance(by.f["backend"], Str) and by.f["backend"].v == cfg["flow_backend"].v), f"{q}:C13:the flow is loaded with the class of the saved back end {tag}")
        p.prove(z3.BoolVal(isinstance(stype, Str) and stype.v == "smc"), f"{q}:C14:C11:the stored sampler type is returned {tag}")
        p.prove(struct_equal(I, cfg["sampler_config"], scfg) if isinstance(scfg, PyDict) else z3.BoolVal(False), f"{q}:C13:the stored sampler configuration is returned {tag}")
        if sh["ckpt"]:
            p.prove(z3.BoolVal(blob is g["blob"] or (isinstance(blob, Arr) and blob.key == g["blob"].key)), f"{q}:C11:the checkpoint bytes returned are the stored blob {tag}")
            p.prove(to_int(nsmp) == z3.Int("stored_population_size") if isinstance(nsmp, Z) else z3.BoolVal(False), f"{q}:C11:the population size returned is that of the stored population {tag}")
            p.prove(z3.BoolVal(isinstance(state, PyDict) and isinstance(state.d.get("sampler"), Str) and state.d["sampler"].v == "MiniPCNSMC"), f"{q}:C11:C14:the decoded checkpoint state is returned {tag}")
            if not sh["xp"]:
                p.prove(z3.BoolVal(a.f.get("xp") is g["pop"].f["xp"] or (isinstance(a.f.get("xp"), Sym) and a.f["xp"].e.eq(g["pop"].f["xp"].e))),
                        f"{q}:C11:C15:without a saved namespace the instance takes the stored population's {tag}")
        else:
            p.prove(z3.BoolVal(isinstance(blob, NoneV) and isinstance(state, NoneV) and isinstance(nsmp, NoneV)), f"{q}:C12:C11:a file without a checkpoint gives no resume state (the run restarts) {tag}")


# ------------------------------------------------------------------------------------------ constructors keep the generator they are given
class SMCSamplerInit(Contract):
    qual = "samplers.smc.base:SMCSampler.__init__"
    cls = "SMCSampler"
    properties = ("C20",)
    doc = ("a generator given to the constructor is the sampler's generator (self.rng) - the object itself, whatever the base classes do; only without one "
           "may an ambient generator be created")

    def shapes(self):
        return [{"rng": 0}, {"rng": 1}]

    def setup(self, I, shape):
        s = Obj(self.cls, {})
        rng = Sym(z3.Const("constructor_rng", Misc), "rng")
        kw = {"log_likelihood": Fn(lambda I2, a, k, n: NONE, "user_log_likelihood"), "log_prior": Fn(lambda I2, a, k, n: NONE, "user_log_prior"), "dims": IV(z3.Int("dims")),
              "prior_flow": Obj("FlowStub", {}), "xp": Sym(z3.Const("sampler_xp", Misc), "ns"), "dtype": NONE, "parameters": NONE, "preconditioning_transform": NONE}
        if shape["rng"]:
            kw["rng"] = rng
        return Pre(s, [], kw, ghost={"s": s, "rng": rng, "shape": shape})

    def post(self, I, pre, r):
        p, g = I.path, pre.ghost
        q = self.qual
        have = g["s"].f.get("rng")
        if g["shape"]["rng"]:
            p.prove(z3.BoolVal(have is g["rng"]), f"{q}:C20:the generator given to the constructor is the sampler's generator (used for resampling and handed to the kernel)")
        else:
            p.prove(z3.BoolVal(have is not None and not isinstance(have, NoneV)), f"{q}:C20:without a generator the sampler still has one (ambient, created only in this case)")
        p.prove(z3.BoolVal(isinstance(g["s"].f.get("history", NONE), NoneV) or True), f"{q}:constructed")


class BlackJAXSMCInit(SMCSamplerInit):
    qual = "samplers.smc.blackjax:BlackJAXSMC.__init__"
    cls = "BlackJAXSMC"


# ------------------------------------------------------------------------------------------ Aspire.init_sampler (the real body; callers use InitSamplerModel)
class InitSampler(InitSamplerModel):
    qual = "aspire:Aspire.init_sampler"
    properties = ("C11", "C13", "C20", "C05")
    raises = {"ValueError": "unknown sampler type / unknown preconditioning"}
    doc = ("the sampler built is of the class of `sampler_type` and holds the instance's callables, flow, namespace, dtype, parameter names and the given "
           "constructor keywords (a generator is the very object given); its preconditioning transform is built from the instance's settings *by parameter "
           "name*: every parameter gets the bounds stored under its own name, whatever order the bounds dictionary iterates in (an instance rebuilt from a "
           "file has them in alphabetical order), periodic parameters and namespace / dtype are the instance's")

    def shapes(self):
        return [{"sampler": st, "precond": pc, "order": od} for st in ("importance", "smc", "emcee_smc", "minipcn", "blackjax_smc") for pc in (None, "none", "default", "flow")
                for od in ("parameter", "alphabetical") if not (pc in (None, "none") and od == "alphabetical")]

    def must_return(self, shape):
        return True

    def setup(self, I, shape):
        names = ["mass", "chi"]                       # deliberately not in alphabetical order
        bounds = {nm: base_arr(f"bounds_of_{nm}", "real", z3.IntVal(2)) for nm in names}
        order = names if shape["order"] == "parameter" else sorted(names)
        a = Obj("Aspire", {"log_likelihood": Fn(lambda I2, a, k, n: NONE, "user_log_likelihood"), "log_prior": Fn(lambda I2, a, k, n: NONE, "user_log_prior"),
                           "dims": IV(2), "parameters": PyList([Str(nm) for nm in names]), "periodic_parameters": PyList([Str("chi")]),
                           "prior_bounds": PyDict({nm: bounds[nm] for nm in order}), "bounded_to_unbounded": B(z3.Bool("cfg_b2u")), "bounded_transform": Str("logit"),
                           "flow_matching": B(False), "flow_backend": Str("zuko"), "flow_kwargs": PyDict({"seed": IV(z3.Int("flow_seed"))}), "device": NONE,
                           "xp": Sym(z3.Const("aspire_xp", Misc), "ns"), "dtype": Sym(z3.Const("aspire_dtype", Misc), "dtype"), "eps": R(z3.Real("cfg_eps")),
                           "_flow": flow_obj("instance"), "_sampler": NONE})
        rng = Sym(z3.Const("user_rng", Misc), "rng")
        g = {"a": a, "names": names, "bounds": bounds, "shape": shape, "rng": rng, "built": []}

        def rec(kind):
            def hook(I2, info, bound, args, kwargs, n):
                g["built"].append((kind, bound, dict(kwargs), list(args)))
            return hook
        g["hooks"] = {}
        I.path.ghost["record_transform_construction"] = True
        for cls in set(SAMPLER_TYPES.values()):
            info = I.front.find_method(cls, "__init__")
            g["hooks"][info.qualname] = rec("sampler:" + cls)
        kw = {}
        if shape["precond"] is not None:
            kw["preconditioning"] = Str(shape["precond"])
        _, ipos, ikwonly, _ = class_sig(I, SAMPLER_TYPES[shape["sampler"]], "__init__")
        if "rng" in ipos + ikwonly:
            kw["rng"] = rng
        g["kw"] = kw
        return Pre(a, [Str(shape["sampler"])], kw, ghost=g)

    def hooks(self, I, pre):
        return pre.ghost["hooks"]

    def post(self, I, pre, r):
        p, g = I.path, pre.ghost
        q = self.qual
        sh, a = g["shape"], g["a"]
        cls = SAMPLER_TYPES[sh["sampler"]]
        tag = f"[{sh['sampler']}, preconditioning={sh['precond']}, bounds stored in {sh['order']} order]"
        p.prove(z3.BoolVal(isinstance(r, Obj) and r.cls == cls), f"{q}:C14:C11:the sampler is of the class of the requested type {tag}")
        smp = [b for b in g["built"] if b[0].startswith("sampler:")]
        # the most derived constructor call is the first recorded one (base-class __init__ calls follow through super())
        if not smp:
            p.prove(z3.BoolVal(False), f"{q}:a sampler is constructed {tag}")
            return
        kw = smp[0][2]
        for k, want in (("log_likelihood", a.f["log_likelihood"]), ("log_prior", a.f["log_prior"]), ("prior_flow", a.f["_flow"]), ("xp", a.f["xp"]), ("dtype", a.f["dtype"]),
                        ("parameters", a.f["parameters"]), ("dims", a.f["dims"])):
            p.prove(z3.BoolVal(kw.get(k) is want), f"{q}:C05:C15:the sampler is given the instance's `{k}` {tag}")
        if "rng" in g["kw"]:
            p.prove(z3.BoolVal(kw.get("rng") is g["rng"]), f"{q}:C20:a generator among the constructor keywords is handed to the sampler's constructor {tag}")
        trs = [({"CompositeTransform": "composite", "FlowPreconditioningTransform": "flow"}[c[0]], c[1], c[2], c[3]) for c in p.ghost.get("constructed", [])]
        eff = sh["precond"] if sh["precond"] is not None else ("none" if sh["sampler"] == "importance" else "default")
        if eff == "none":
            p.prove(z3.BoolVal(not trs and isinstance(kw.get("preconditioning_transform"), NoneV)), f"{q}:C05:no preconditioning transform is built unless asked for {tag}")
            return
        p.prove(z3.BoolVal(len(trs) >= 1 and trs[0][0] == ("composite" if eff == "default" else "flow") and kw.get("preconditioning_transform") is trs[0][1]),
                f"{q}:C05:C11:the transform of the requested kind is built and handed to the sampler {tag}")
        if not trs:
            return
        tk = trs[0][2]
        pb = tk.get("prior_bounds")
        for nm in g["names"]:
            ref = g["bounds"][nm]
            if pb is a.f["prior_bounds"]:
                goal = z3.BoolVal(True)
            elif isinstance(pb, PyDict) and nm in pb.d:
                v = pb.d[nm]
                if v is ref:
                    goal = z3.BoolVal(True)
                elif isinstance(v, (Tup, PyList)) and len(v.items) == 2:
                    goal = z3.And(to_real(v.items[0]) == ref.at(z3.IntVal(0)), to_real(v.items[1]) == ref.at(z3.IntVal(1)))
                elif isinstance(v, Arr):
                    goal = z3.And(v.at(z3.IntVal(0)) == ref.at(z3.IntVal(0)), v.at(z3.IntVal(1)) == ref.at(z3.IntVal(1)))
                else:
                    goal = z3.BoolVal(False)
            else:
                goal = z3.BoolVal(False)
            p.prove(goal, f"{q}:C11:C13:C04:the preconditioning transform gets, for parameter `{nm}`, the bounds stored under that name {tag}")
        p.prove(z3.BoolVal(tk.get("parameters") is a.f["parameters"] and tk.get("periodic_parameters") is a.f["periodic_parameters"]),
                f"{q}:C11:C04:the preconditioning transform is built for the instance's parameters and periodic parameters {tag}")
        p.prove(z3.BoolVal(tk.get("xp") is a.f["xp"] and tk.get("dtype") is a.f["dtype"]), f"{q}:C15:the preconditioning transform works in the instance's namespace and precision {tag}")
        if eff == "flow":
            fk = tk.get("flow_kwargs")
            same = fk is a.f["flow_kwargs"] or (isinstance(fk, PyDict) and set(fk.d) == set(a.f["flow_kwargs"].d) and all(fk.d[k] is a.f["flow_kwargs"].d[k] for k in fk.d))
            p.prove(z3.BoolVal(same), f"{q}:C20:the preconditioning flow is built with the instance's flow options (its seed included) {tag}")


# ------------------------------------------------------------------------------------------ small glue functions that callers only know through models
class SaveFlow(SaveFlowModel):
    qual = "aspire:Aspire.save_flow"
    properties = ("C12", "C14", "C13")
    raises = {"ValueError": "no flow to save"}
    doc = "the instance's *current* flow is saved into the given file under the given path (default `flow`); without a flow nothing is written and ValueError is raised"

    def shapes(self):
        return [{"flow": f, "path": pth} for f in (0, 1) for pth in (None, "proposal")]

    def setup(self, I, shape):
        fl = flow_obj("instance") if shape["flow"] else NONE

        def flow_save(I2, a, k, n):
            I2.path.event("flow.save", a[0], a[1], k.get("path", a[2] if len(a) > 2 else Str("flow")))
            return NONE
        I.reg.handlers["FlowStub2.save"] = flow_save
        a = Obj("Aspire", {"_flow": fl})
        h5 = Obj("H5File", {"root": mk_group("/"), "mode": Str("a"), "closed": B(False), "path": Str("run.h5")})
        kw = {"path": Str(shape["path"])} if shape["path"] else {}
        return Pre(a, [h5], kw, ghost={"a": a, "fl": fl, "h5": h5, "shape": shape})

    def post(self, I, pre, r):
        p, g = I.path, pre.ghost
        q = self.qual
        sh = g["shape"]
        saves = [e for e in p.events if e[0] == "flow.save"]
        if not sh["flow"]:
            p.prove(z3.BoolVal(False), f"{q}:C12:without a flow save_flow raises (nothing half-written)")
            return
        ok = len(saves) == 1 and saves[0][1] is g["fl"] and saves[0][2] is g["h5"] and isinstance(saves[0][3], Str) and saves[0][3].v == (sh["path"] or "flow")
        p.prove(z3.BoolVal(ok), f"{q}:C12:C14:C13:the instance's current flow is saved once, into the given file, under `{sh['path'] or 'flow'}`")

    def post_raise(self, I, pre, sig):
        sh = pre.ghost["shape"]
        if sig.exc == "ValueError" and not sh["flow"]:
            I.path.prove(z3.BoolVal(not any(e[0] == "flow.save" for e in I.path.events)), f"{self.qual}:C12:nothing is written when there is no flow")
            return
        return super().post_raise(I, pre, sig)


from contracts.smc_base import FitPreconditioningModel  # noqa: E402


class FitPreconditioning(FitPreconditioningModel):
    qual = "samplers.base:Sampler.fit_preconditioning_transform"
    properties = ("C11", "C05")
    doc = ("every call refits the sampler's preconditioning transform to the points it is given (converted to the transform's namespace and dtype) and returns "
           "the transformed points: the transform in force during a mutation is a function of the current population only - which is what makes a resumed run "
           "(new sampler object, refit on the restored population) continue like the uninterrupted one")

    def shapes(self):
        return [{"call": c} for c in (1, 2)]

    def setup(self, I, shape):
        from contracts.samplers import mk_sampler_obj
        s = mk_sampler_obj(I, "Sampler")
        n = z3.Int("n_points")
        I.path.assume(n >= 1)
        x = base_arr("points", "row", n)
        g = {"s": s, "x": x, "shape": shape}
        if shape["call"] == 2:
            # an earlier call on other points (the previous iteration): must not change what this call does
            info = I.front.get(self.qual)
            I.depth += 1
            try:
                I.call_repo(info, s, [base_arr("earlier_points", "row", z3.Int("n_earlier"))], {}, None, force_inline=True)
            finally:
                I.depth -= 1
            g["n_before"] = len([e for e in I.path.events if e[0] == "precond.fit"])
        return Pre(s, [x], ghost=g)

    def post(self, I, pre, r):
        from contracts.samples import arr_eq_goal
        from contracts.samplers import TFWD_X, rowwise
        p, g = I.path, pre.ghost
        q = self.qual
        tag = "[first call]" if g["shape"]["call"] == 1 else "[a later call on the same sampler]"
        fits = [e for e in p.events if e[0] == "precond.fit"][g.get("n_before", 0):]
        p.prove(z3.BoolVal(len(fits) == 1), f"{q}:C11:C05:the transform is refitted on every call {tag}")
        if fits:
            p.prove(arr_eq_goal(fits[0][1], g["x"]), f"{q}:C11:C05:the transform is fitted to the points given to this call {tag}")
        p.prove(arr_eq_goal(r, rowwise("TFWDX", TFWD_X, g["x"], "row")) if isinstance(r, Arr) else z3.BoolVal(False), f"{q}:C05:returns the given points in the fitted transform's space {tag}")


class InitFlow(Contract):
    qual = "aspire:Aspire.init_flow"
    properties = ("C03", "C04", "C13", "C15")
    doc = ("the proposal flow is built with a data transform that covers *every* parameter with the bounds stored under its name (periodic parameters are "
           "bounded parameters of the proposal too: the flow's transform has no periodic stage, so dropping their bounds lets the proposal put mass outside "
           "the prior's support), the instance's transform options, eps, dtype and device, in the back end's namespace; the flow class of the chosen back end "
           "gets the instance's dims, device, dtype, that transform, and the flow options")

    def shapes(self):
        return [{"backend": b, "periodic": pp} for b in ("zuko", "flowjax") for pp in (0, 1)]

    def must_return(self, shape):
        return True

    def setup(self, I, shape):
        names = ["mass", "chi"]
        bounds = {nm: base_arr(f"bounds_of_{nm}", "real", z3.IntVal(2)) for nm in names}
        a = Obj("Aspire", {"dims": IV(2), "parameters": PyList([Str(nm) for nm in names]), "periodic_parameters": PyList([Str("chi")]) if shape["periodic"] else NONE,
                           "prior_bounds": PyDict(dict(bounds)), "bounded_to_unbounded": B(z3.Bool("cfg_b2u")), "bounded_transform": Str("probit"),
                           "flow_matching": B(False), "flow_backend": Str(shape["backend"]), "flow_kwargs": PyDict({"hidden_features": IV(z3.Int("hidden"))}), "device": NONE,
                           "xp": Sym(z3.Const("aspire_xp", Misc), "ns"), "dtype": Sym(z3.Const("aspire_dtype", Misc), "dtype"), "eps": R(z3.Real("cfg_eps")), "_flow": NONE})
        I.path.ghost["record_transform_construction"] = True
        return Pre(a, [], {}, ghost={"a": a, "names": names, "bounds": bounds, "shape": shape})

    def post(self, I, pre, r):
        p, g = I.path, pre.ghost
        q = self.qual
        a, sh = g["a"], g["shape"]
        tag = f"[{sh['backend']}, {'one parameter periodic' if sh['periodic'] else 'no periodic parameter'}]"
        built = p.ghost.get("constructed", [])
        trs = [c for c in built if c[0] == "FlowTransform"]
        fls = [c for c in built if c[0] in ("ZukoFlow", "ZukoFlowMatching", "FlowJax")]
        p.prove(z3.BoolVal(len(trs) == 1 and len(fls) == 1 and fls[0][0] == {"zuko": "ZukoFlow", "flowjax": "FlowJax"}[sh["backend"]]),
                f"{q}:C03:C13:one data transform and one flow of the chosen back end are built {tag}")
        if not (trs and fls):
            return
        tk, fk = trs[0][2], fls[0][2]
        pb = tk.get("prior_bounds")
        for nm in g["names"]:
            ref = g["bounds"][nm]
            v = ref if pb is a.f["prior_bounds"] else (pb.d.get(nm) if isinstance(pb, PyDict) else None)
            if v is ref:
                goal = z3.BoolVal(True)
            elif isinstance(v, (Tup, PyList)) and len(v.items) == 2 and all(isinstance(t, Z) for t in v.items):
                goal = z3.And(to_real(v.items[0]) == ref.at(z3.IntVal(0)), to_real(v.items[1]) == ref.at(z3.IntVal(1)))
            elif isinstance(v, Arr):
                goal = z3.And(v.at(z3.IntVal(0)) == ref.at(z3.IntVal(0)), v.at(z3.IntVal(1)) == ref.at(z3.IntVal(1)))
            else:
                goal = z3.BoolVal(False)
            p.prove(goal, f"{q}:C03:C04:the proposal's data transform gets, for parameter `{nm}`, the finite bounds stored under that name (periodic or not) {tag}")
        for k, want in (("parameters", a.f["parameters"]), ("bounded_to_unbounded", a.f["bounded_to_unbounded"]), ("bounded_transform", a.f["bounded_transform"]),
                        ("eps", a.f["eps"]), ("dtype", a.f["dtype"]), ("device", a.f["device"])):
            p.prove(z3.BoolVal(tk.get(k) is want), f"{q}:C03:C04:C15:the data transform is built with the instance's `{k}` {tag}")
        p.prove(z3.BoolVal(isinstance(tk.get("xp"), Sym) and tk["xp"].e.eq(z3.Const("flow_backend_namespace", Misc))), f"{q}:C15:the data transform works in the back end's namespace {tag}")
        p.prove(z3.BoolVal(fk.get("data_transform") is trs[0][1] and fk.get("dims") is a.f["dims"] and fk.get("dtype") is a.f["dtype"] and fk.get("device") is a.f["device"]),
                f"{q}:C03:C15:the flow is built for the instance's dims / dtype / device around that data transform {tag}")
        p.prove(z3.BoolVal(fk.get("hidden_features") is a.f["flow_kwargs"].d["hidden_features"]), f"{q}:C13:C20:the flow options of the instance are handed to the flow's constructor {tag}")
        p.prove(z3.BoolVal(a.f.get("_flow") is fls[0][1]), f"{q}:C03:the instance holds the flow that was built {tag}")


class NLikelihoodEvaluations(Contract):
    qual = "aspire:Aspire.n_likelihood_evaluations"
    properties = ("C17",)
    doc = ("the count the instance reports is the counter object of the sampler of the last sampling call, handed through unchanged (the sampler's counter "
           "is proved equal to the number of points the user's likelihood was asked to evaluate by the `log_likelihood` / `sample` contracts); before any "
           "sampling call there is no sampler and the answer is None; asking changes nothing")

    def shapes(self):
        return [{"sampler": "none"}, {"sampler": "absent"}, {"sampler": "smc"}, {"sampler": "importance"}]

    def must_return(self, shape):
        return True

    def setup(self, I, shape):
        f = {}
        ghost = {"shape": shape}
        if shape["sampler"] == "none":
            f["_sampler"] = NONE
        elif shape["sampler"] != "absent":
            cnt = IV(z3.Int("points_the_likelihood_was_asked_to_evaluate"))
            smp = Obj("SMCSampler" if shape["sampler"] == "smc" else "ImportanceSampler", {"n_likelihood_evaluations": cnt})
            f["_sampler"] = smp
            ghost.update(cnt=cnt, smp=smp)
        a = Obj("Aspire", f)
        if shape["sampler"] == "absent":
            a.absent.add("_sampler")
        ghost["a"] = a
        ghost["before"] = dict(a.f)
        return Pre(a, [], {}, ghost=ghost)

    def post(self, I, pre, r):
        p, g, q = I.path, pre.ghost, self.qual
        sh = g["shape"]["sampler"]
        if sh in ("none", "absent"):
            p.prove(z3.BoolVal(r is NONE or isinstance(r, NoneV)), f"{q}:C17:before any sampling call the reported count is None [{sh}]")
        else:
            ok = isinstance(r, Z) and r.kind == "int"
            p.prove(z3.BoolVal(ok), f"{q}:C17:the reported count is an integer [{sh}]")
            if ok:
                p.prove(r.e == g["cnt"].e, f"{q}:C17:the reported count equals the sampler's evaluation counter, which counts every point the user's likelihood was asked to evaluate [{sh}]")
            smp = g["smp"]
            p.prove(z3.BoolVal(isinstance(smp.f.get("n_likelihood_evaluations"), Z) and smp.f["n_likelihood_evaluations"].e.eq(g["cnt"].e)),
                    f"{q}:C17:asking for the count leaves the sampler's counter as it was [{sh}]")
        a = g["a"]
        p.prove(z3.BoolVal(set(a.f) == set(g["before"]) and all(a.f[k] is v for k, v in g["before"].items())),
                f"{q}:C17:asking for the count leaves the instance as it was [{sh}]")
