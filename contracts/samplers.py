"""Sidecar contracts for the sampler classes: tempered target (C05), cache coherence (C10), prior-before-likelihood and
evaluation counting (C17), generator routing (C20)."""
from __future__ import annotations

import ast

import z3

from pyvc import xreal as X
from pyvc.contracts import Contract, Pre
from pyvc.engine import LoopSpec, PathEnd, RaiseSig, Unsupported
from pyvc.lib import Misc, RS, IS, BS, assumed, red
from pyvc.values import (NONE, Arr, B, ClassRef, Fn, I as IV, NoneV, Obj, Partial, PyDict, PyList, R, Row, Str, Sym, SymList, Tup, Z, base_arr,
                         fresh, skey, to_int, to_real, uf)
from contracts.samples import FIELDS, arr_eq_goal, resolved_dtype, dtype_carried

# row-wise user functions (A-USER) in the extended reals
Q_ROW = uf("proposal_log_prob_row", Row, X.ER)
PI_ROW = uf("user_log_prior_row", Row, X.ER)
L_ROW = uf("user_log_likelihood_row", Row, X.ER)
TINV_X = uf("precond_inverse_row", Row, Row)
TINV_J = uf("precond_inverse_logJ_row", Row, RS)
TFWD_X = uf("precond_forward_row", Row, Row)


def rowwise(name, f, x: Arr, elem="xreal"):
    return Arr(x.n, elem, lambda k, _at=x.at: f(_at(k)), f"{name}({x.key})", x.meta, x.facts)


def mk_sampler_obj(I, cls="SMCSampler", extra=None):
    """sampler with user callables that *check the C17 call-site obligation themselves*"""
    p = I.path

    def user_prior(I2, a, k, n):
        s = a[0]
        I2.path.event("user_log_prior", s, s.f["x"])
        return rowwise("PI", PI_ROW, s.f["x"])

    def user_like(I2, a, k, n):
        s = a[0]
        lp = s.f.get("log_prior", NONE)
        I2.path.prove(z3.BoolVal(not isinstance(lp, NoneV)), I2.oname("C17:log_prior attached before the likelihood is called", n), kind="call-site")
        if isinstance(lp, Arr):
            want = rowwise("PI", PI_ROW, s.f["x"])
            I2.path.prove(arr_eq_goal(lp, want), I2.oname("C17:attached log_prior is the prior of exactly these points", n), kind="call-site")
        out = rowwise("L", L_ROW, s.f["x"])
        I2.path.event("user_log_likelihood", s, s.f["x"], out)
        return out

    def flow_log_prob(I2, a, k, n):
        x = a[1] if isinstance(a[0], Obj) else a[0]
        I2.path.event("flow.log_prob", x)
        return rowwise("Q", Q_ROW, x)

    def flow_sample_and_log_prob(I2, a, k, n):
        nn = to_int(a[1])
        x = base_arr(fresh("flowdraw_x"), "row", nn)
        I2.path.event("flow.sample_and_log_prob", nn, x)
        return Tup([x, rowwise("Q", Q_ROW, x)])

    def t_inverse(I2, a, k, n):
        z = a[1]
        I2.path.event("precond.inverse", z)
        return Tup([rowwise("TINVX", TINV_X, z, "row"), rowwise("TINVJ", TINV_J, z, "real")])

    def t_fit(I2, a, k, n):
        x = a[1]
        I2.path.event("precond.fit", x)
        return rowwise("TFWDX", TFWD_X, x, "row")

    flow = Obj("FlowStub", {})
    tr = Obj("TransformStub", {"xp": Sym(z3.Const("precond_xp", Misc), "ns"), "dtype": Sym(z3.Const("precond_dtype", Misc), "dtype")})
    I.reg.handlers["FlowStub.log_prob"] = flow_log_prob
    I.reg.handlers["FlowStub.sample_and_log_prob"] = flow_sample_and_log_prob
    I.reg.handlers["TransformStub.inverse"] = t_inverse
    I.reg.handlers["TransformStub.fit"] = t_fit

    def t_forward(I2, a, k, n):
        x = a[1]
        I2.path.event("precond.forward", x)
        return Tup([rowwise("TFWDX_unfitted", uf("precond_forward_row_without_refit", Row, Row), x, "row"), rowwise("TFWDJ", uf("precond_forward_logJ_row", Row, RS), x, "real")])
    I.reg.handlers["TransformStub.forward"] = t_forward
    f = {"xp": Sym(z3.Const("sampler_xp", Misc), "ns"), "dtype": Sym(z3.Const("sampler_dtype", Misc), "dtype"),
         "parameters": Sym(z3.Const("sampler_parameters", Misc), "params"), "dims": IV(z3.Int("dims")),
         "log_prior": Fn(user_prior, "user_log_prior"), "_log_likelihood": Fn(user_like, "user_log_likelihood"),
         "prior_flow": flow, "preconditioning_transform": tr, "n_likelihood_evaluations": IV(z3.Int("evals0")),
         "rng": Sym(z3.Const("sampler_rng", Misc), "rng"), "history": Obj("SMCHistory", {"mcmc_acceptance": SymList(z3.Int("len_acc0"), None, None, "mcmc_acceptance"),
                                                                                         "mcmc_autocorr": SymList(z3.Int("len_ac0"), None, None, "mcmc_autocorr")}),
         "sampler_kwargs": PyDict({"n_steps": IV(z3.Int("kernel_steps")), "step_fn": Str("tpcn"), "target_acceptance_rate": R(z3.Real("tar")), "nsteps": IV(z3.Int("kernel_steps")),
                                   "progress": B(True)}),
         "emcee_moves": NONE}
    f.update(extra or {})
    return Obj(cls, f)


def tempered_expected(beta, row_z, mcmc=False, identity=False):
    # identity: the sampler was built without preconditioning (the library's own IdentityTransform: x = z, log-Jacobian 0)
    x = row_z if identity else TINV_X(row_z)
    j = X.fin(z3.RealVal(0)) if identity else X.fin(TINV_J(row_z))
    if mcmc:
        return X.xadd(X.xadd(L_ROW(x), PI_ROW(x)), j)
    v = X.xadd(X.xadd(X.xscale(1 - beta, Q_ROW(x)), X.xscale(beta, X.xadd(L_ROW(x), PI_ROW(x)))), j)
    return v


class SMCLogProb(Contract):
    qual = "samplers.smc.base:SMCSampler.log_prob"
    cls = "SMCSampler"
    properties = ("C05", "C17")
    doc = ("for every row i: result[i] == nan_to_minus_inf((1-beta) q(x_i) + beta (L(x_i) + pi(x_i)) + logJ_i) in the extended reals, with "
           "(x, logJ) = preconditioning_transform.inverse(z); never NaN; zero prior and beta > 0 => -inf; likelihood called once on samples "
           "that carry the prior of exactly those points; evaluation counter += len(z)")

    def shapes(self):
        return [{"precond": "stub"}, {"precond": "identity"}]

    def setup(self, I, shape):
        s = mk_sampler_obj(I, self.cls)
        if shape["precond"] == "identity":
            # a sampler built with preconditioning="none": the library's own IdentityTransform (its real methods are executed)
            s.f["preconditioning_transform"] = Obj("IdentityTransform", {"xp": s.f["xp"], "dtype": s.f["dtype"]})
        n = z3.Int("n_z")
        I.path.assume(n >= 1)
        z = base_arr("z", "row", n)
        beta = z3.Real("beta")
        I.path.assume(z3.And(beta > 0, beta <= 1))
        return Pre(s, [z, R(beta)], ghost={"s": s, "z": z, "beta": beta, "n": n, "evals0": s.f["n_likelihood_evaluations"], "identity": shape["precond"] == "identity"})

    def post(self, I, pre, r):
        p, g = I.path, pre.ghost
        q = self.qual
        beta, z = g["beta"], g["z"]
        if not (isinstance(r, Arr) and r.elem == "xreal"):
            p.prove(z3.BoolVal(False), f"{q}:C05:returns one extended-real log-density per row")
            return
        i = z3.Int(fresh("row"))
        inb = z3.And(i >= 0, i < g["n"])
        p.prove(r.n == g["n"], f"{q}:C05:one value per input point")
        ident = g.get("identity", False)
        exp = X.nan_to_ninf(tempered_expected(beta, z.at(i), identity=ident))
        p.prove(z3.Implies(inb, r.at(i) == exp),
                f"{q}:C05:result[i] == NaN->-inf( (1-beta) q(x_i) + beta (L(x_i) + pi(x_i)) + log|det dx/dz|_i ), x = inverse(z)")
        p.prove(z3.Implies(inb, z3.Not(X.is_nan(r.at(i)))), f"{q}:C05:an undefined (NaN) tempered value is never handed to the kernel")
        xi = z.at(i) if ident else TINV_X(z.at(i))
        p.prove(z3.Implies(z3.And(inb, PI_ROW(xi) == X.NINF), r.at(i) == X.NINF), f"{q}:C05:zero prior gives log-density -inf, never a finite number")
        self.count_obligations(I, pre)

    def count_obligations(self, I, pre):
        p, g = I.path, pre.ghost
        q = self.qual
        s = g["s"]
        likes = [e for e in p.events if e[0] == "user_log_likelihood"]
        p.prove(z3.BoolVal(len(likes) == 1), f"{q}:C17:the user's likelihood is called exactly once per target evaluation")
        p.prove(to_int(s.f["n_likelihood_evaluations"]) == to_int(g["evals0"]) + g["n"],
                f"{q}:C17:evaluation counter grows by the number of points the likelihood was asked to evaluate")
        priors = [e for e in p.events if e[0] == "user_log_prior"]
        if likes and priors:
            order = [e[0] for e in p.events if e[0] in ("user_log_prior", "user_log_likelihood")]
            p.prove(z3.BoolVal(order.index("user_log_prior") < order.index("user_log_likelihood")), f"{q}:C17:prior evaluated before the likelihood")

    def canaries(self, I, pre, r):
        g = pre.ghost
        i = z3.Int(fresh("row"))
        return [("result[i] is always finite (must be refutable)", z3.Implies(z3.And(i >= 0, i < g["n"]), X.is_fin(r.at(i))))]


class MiniPCNLogProb(SMCLogProb):
    qual = "samplers.smc.minipcn:MiniPCNSMC.log_prob"
    cls = "MiniPCNSMC"


class BlackJAXLogProb(SMCLogProb):
    qual = "samplers.smc.blackjax:BlackJAXSMC.log_prob"
    cls = "BlackJAXSMC"


class MCMCLogProb(Contract):
    qual = "samplers.mcmc:MCMCSampler.log_prob"
    properties = ("C05", "C17")
    doc = "result[i] == L(x_i) + pi(x_i) + logJ_i with (x, logJ) = inverse(z): beta = 1, no proposal term; zero prior never gives a finite value"

    def shapes(self):
        return [{"precond": "stub"}, {"precond": "identity"}]

    def setup(self, I, shape):
        s = mk_sampler_obj(I, "MCMCSampler")
        if shape["precond"] == "identity":
            s.f["preconditioning_transform"] = Obj("IdentityTransform", {"xp": s.f["xp"], "dtype": s.f["dtype"]})
        n = z3.Int("n_z")
        I.path.assume(n >= 1)
        z = base_arr("z", "row", n)
        return Pre(s, [z], ghost={"s": s, "z": z, "n": n, "evals0": s.f["n_likelihood_evaluations"], "identity": shape["precond"] == "identity"})

    def post(self, I, pre, r):
        p, g = I.path, pre.ghost
        q = self.qual
        z = g["z"]
        if not (isinstance(r, Arr) and r.elem == "xreal"):
            p.prove(z3.BoolVal(False), f"{q}:C05:returns one extended-real log-density per row")
            return
        i = z3.Int(fresh("row"))
        inb = z3.And(i >= 0, i < g["n"])
        ident = g.get("identity", False)
        p.prove(z3.Implies(inb, r.at(i) == tempered_expected(None, z.at(i), mcmc=True, identity=ident)), f"{q}:C05:result[i] == L(x_i) + pi(x_i) + log|det dx/dz|_i (no proposal term, beta = 1)")
        xi = z.at(i) if ident else TINV_X(z.at(i))
        p.prove(z3.Implies(z3.And(inb, PI_ROW(xi) == X.NINF), z3.Not(X.is_fin(r.at(i)))), f"{q}:C05:zero prior never gives a finite log-density")
        SMCLogProb.count_obligations(self, I, pre)


# ------------------------------------------------------------------------------------------ mutate (C10, C17, C05 hand-over, C18)
def aligned_goals(q, pop, want_len=None, fields=("log_q", "log_prior", "log_likelihood")):
    out = []
    x = pop.f["x"]
    for k, f, nm in (("log_q", Q_ROW, "the proposal"), ("log_prior", PI_ROW, "the user's prior"), ("log_likelihood", L_ROW, "the user's likelihood")):
        if k not in fields:
            continue
        v = pop.f.get(k, NONE)
        tags = "C10:C17" if k == "log_prior" else "C10"      # C17: the likelihood sees the prior of exactly the points it is given
        out.append((f"{q}:{tags}:stored {k} of row i is {nm} evaluated at the coordinates of row i", arr_eq_goal(v, rowwise(k, f, x)) if isinstance(v, Arr) else z3.BoolVal(False)))
    return out


class KernelStub:
    """assumed contract of a third-party kernel (A-KERNEL): calls the target it was given, returns final positions"""


def install(reg):
    def minipcn_sampler(I, a, k, n):
        assumed(I, "minipcn.Sampler(log_prob_fn, step_fn, rng, dims, target_acceptance_rate, xp): A-KERNEL")
        o = Obj("MiniPCNKernel", dict(k))
        I.path.event("kernel.construct", "minipcn", dict(k))
        return o

    def minipcn_sample(I, a, k, n):
        o, z = a[0], a[1]
        I.path.event("kernel.run", o, z, k.get("n_steps"))
        # the kernel evaluates the target it was handed (at least once on the start positions)
        I.call(o.f["log_prob_fn"], [z], {}, n)
        zf = base_arr(fresh("chain_last"), "row", z.n)
        chain = Obj("Chain", {"last": zf})
        hist = Obj("KernelHistory", {"acceptance_rate": base_arr(fresh("acc_rate"), "real")})
        return Tup([chain, hist])

    def chain_getitem(I, a, k, n):
        idx = a[1]
        if isinstance(idx, tuple) and idx[0] == "slice":
            m = z3.Int(fresh("n_chain_rows"))
            I.path.assume(m >= 1, check=False)
            return base_arr(fresh("thinned_chain"), "row", m)
        return a[0].f["last"]

    reg.handlers["minipcn.Sampler"] = minipcn_sampler
    reg.handlers["MiniPCNKernel.sample"] = minipcn_sample
    reg.handlers["Chain.__getitem__"] = chain_getitem

    def emcee_sampler(I, a, k, n):
        assumed(I, "emcee.EnsembleSampler(nwalkers, ndim, log_prob_fn, args, vectorize, moves): A-KERNEL")
        o = Obj("EmceeKernel", {"acceptance_fraction": base_arr(fresh("acc_frac"), "real"), "nwalkers": a[0], "ndim": a[1], "log_prob_fn": a[2] if len(a) > 2 else k.get("log_prob_fn"), "args": k.get("args", Tup([])), **k})
        I.path.event("kernel.construct", "emcee", o.f)
        return o

    def emcee_run(I, a, k, n):
        o, z = a[0], a[1]
        I.path.event("kernel.run", o, z, k.get("nsteps"))
        I.call(o.f["log_prob_fn"], [z] + list(o.f["args"].items), {}, n)
        o.f["last"] = base_arr(fresh("chain_last"), "row", z.n)
        return NONE

    def emcee_chain(I, a, k, n):
        fl = k.get("flat", B(False))
        if I.is_true(fl):
            if "flat_chain" not in a[0].f:
                m = z3.Int(fresh("n_chain_rows"))
                I.path.assume(m >= 1, check=False)
                a[0].f["flat_chain"] = base_arr(fresh("flat_chain"), "row", m)
            return a[0].f["flat_chain"]
        return Obj("Chain", {"last": a[0].f["last"]})

    def emcee_log_prob(I, a, k, n):
        assumed(I, "emcee get_log_prob(flat=True): the values of the target the sampler was constructed with, at the states get_chain(flat=True) returns (A-KERNEL)")
        if not I.is_true(k.get("flat", B(False))):
            raise Unsupported("get_log_prob(flat=False)")
        o = a[0]
        z = emcee_chain(I, [o], {"flat": B(True)}, n)
        return I.call(o.f["log_prob_fn"], [z] + list(o.f["args"].items), {}, n)

    reg.handlers["emcee.EnsembleSampler"] = emcee_sampler
    reg.handlers["EmceeKernel.run_mcmc"] = emcee_run
    reg.handlers["EmceeKernel.get_chain"] = emcee_chain
    reg.handlers["EmceeKernel.get_log_prob"] = emcee_log_prob
    reg.handlers["EmceeKernel.get_autocorr_time"] = lambda I, a, k, n: R(z3.Real(fresh("autocorr")))


class MiniPCNMutate(Contract):
    def must_return(self, shape):
        return True

    qual = "samplers.smc.minipcn:MiniPCNSMC.mutate"
    cls = "MiniPCNSMC"
    kernel = "minipcn"
    properties = ("C10", "C17", "C05", "C18", "C20")
    raises = {"ValueError": "log proposal of the mutated particles contains NaN"}
    doc = ("returns a new population at temperature beta whose log_q, log_prior, log_likelihood are the proposal, prior and likelihood of its "
           "own (new) coordinates; the kernel is handed log_prob partially applied to *this* beta and the sampler's generator; exactly one "
           "acceptance entry appended; the likelihood sees samples carrying the prior of exactly those points")

    def setup(self, I, shape):
        s = mk_sampler_obj(I, self.cls)
        n = z3.Int("n_particles")
        I.path.assume(n >= 1)
        from pyvc.spec import mk_samples
        beta0 = z3.Real("beta_old")
        parts = mk_samples("SMCSamples", "particles", n, R(beta0))
        beta = z3.Real("beta")
        I.path.assume(z3.And(beta > 0, beta <= 1))
        acc = s.f["history"].f["mcmc_acceptance"]
        return Pre(s, [parts, R(beta)], ghost={"s": s, "beta": beta, "n": n, "parts": parts, "acc_len0": acc.len})

    def hooks(self, I, pre):
        return {"samples:BaseSamples.array_to_namespace": a2ns_hook, "utils:asarray": asarray_hook}

    def post(self, I, pre, r):
        p, g = I.path, pre.ghost
        q = self.qual
        s = g["s"]
        if not (isinstance(r, Obj) and r.cls == "SMCSamples"):
            p.prove(z3.BoolVal(False), f"{q}:returns SMCSamples")
            return
        likelihood_output_normalised(I, q, only_for=r)
        for nm, gl in aligned_goals(q, r):
            p.prove(gl, nm)
        p.prove(to_real(r.f["beta"]) == g["beta"], f"{q}:C10:result carries the temperature it was mutated at")
        nanq = I.eval_expr("xp.isnan(a).any()", "utils", {"a": r.f["log_q"], "xp": r.f["xp"]})
        p.prove(z3.Not(I.truth(nanq, None)), f"{q}:C10:a population whose proposal density contains NaN is never returned (the guard raises instead)")
        p.prove(r.f["x"].n == g["n"], f"{q}:C10:population size unchanged by mutation")
        acc = s.f["history"].f["mcmc_acceptance"]
        p.prove(acc.len == g["acc_len0"] + 1, f"{q}:C18:exactly one acceptance entry appended per mutation")
        p.prove(z3.BoolVal(r.f.get("parameters") is s.f["parameters"]), f"{q}:parameters of the sampler")
        dt = r.f.get("dtype")
        p.prove(z3.BoolVal(dtype_carried(dt, s.f["dtype"])), f"{q}:C15:population built with the precision requested from the sampler")
        # hand-over to the kernel
        cons = [e for e in p.events if e[0] == "kernel.construct"]
        p.prove(z3.BoolVal(len(cons) == 1), f"{q}:C05:exactly one kernel constructed")
        if len(cons) == 1:
            kw = cons[0][2]
            fn = kw.get("log_prob_fn")
            ok = False
            if isinstance(fn, Partial):
                tgt = fn.fn
                ok = (getattr(tgt, "info", None) is not None and tgt.info.name == "log_prob" and tgt.bound is s)
                b = fn.kwargs.get("beta", fn.args[0] if fn.args else None)
                p.prove(z3.BoolVal(ok), f"{q}:C05:the kernel is handed this sampler's log_prob")
                p.prove(to_real(b) == g["beta"] if b is not None else z3.BoolVal(False), f"{q}:C05:... partially applied to this iteration's beta")
            elif getattr(fn, "info", None) is not None:
                args = kw.get("args", Tup([]))
                p.prove(z3.BoolVal(fn.info.name == "log_prob" and fn.bound is s), f"{q}:C05:the kernel is handed this sampler's log_prob")
                p.prove(to_real(args.items[0]) == g["beta"] if args.items else z3.BoolVal(False), f"{q}:C05:... with this iteration's beta as argument")
            else:
                p.prove(z3.BoolVal(False), f"{q}:C05:the kernel is handed this sampler's log_prob")
            if "rng" in kw:
                p.prove(z3.BoolVal(kw["rng"] is s.f["rng"]), f"{q}:C20:the kernel is given the sampler's generator")
        likes = [e for e in p.events if e[0] == "user_log_likelihood"]
        p.prove(z3.BoolVal(len(likes) >= 1 and likes[-1][1] is r), f"{q}:C17:the final re-evaluation of the likelihood is on the returned population")


class EmceeMutate(MiniPCNMutate):
    qual = "samplers.smc.emcee:EmceeSMC.mutate"
    cls = "EmceeSMC"
    kernel = "emcee"


from contracts.smc_base import DrawInitialSamplesModel  # noqa: E402


class DrawInitialSamples(DrawInitialSamplesModel):
    def must_return(self, shape):
        return True

    qual = "samplers.mcmc:MCMCSampler.draw_initial_samples"
    properties = ("C10", "C17")
    doc = ("loop invariant: samples is None and nothing drawn, or len(samples) == n_drawn with log_q/log_prior belonging to the rows and "
           "finite prior; result has exactly n_samples rows, all three caches belong to the rows, every prior finite; the likelihood is "
           "evaluated once, after trimming, on the returned object")

    def setup(self, I, shape):
        s = mk_sampler_obj(I, "MCMCSampler")
        n = z3.Int("n_samples")
        I.path.assume(n >= 1)
        return Pre(s, [IV(n)], ghost={"s": s, "n": n, "evals0": s.f["n_likelihood_evaluations"]})

    def loops(self, I, pre):
        g = pre.ghost
        q = self.qual

        def inv(I):
            e = I.frame.env
            smp, nd = e["samples"], to_int(e["n_samples_drawn"])
            out = [("n_samples_drawn >= 0", nd >= 0)]
            if isinstance(smp, NoneV):
                out.append(("nothing accumulated yet", nd == 0))
            else:
                out.append(("C10 len(samples) == n_samples_drawn", smp.f["x"].n == nd))
                for nm, gl in aligned_goals(q, smp, fields=("log_q", "log_prior")):
                    out.append((nm.split(":", 2)[-1], gl))
                i = z3.Int(fresh("row"))
                lp = smp.f["log_prior"]
                out.append(("C10 every accumulated particle has a finite prior", z3.Implies(z3.And(i >= 0, i < lp.n, lp.hyp(i)), X.is_fin(lp.at(i))) if isinstance(lp, Arr) else z3.BoolVal(False)))
                out.append(("log_likelihood not yet evaluated", z3.BoolVal(isinstance(smp.f.get("log_likelihood", NONE), NoneV))))
            return out

        def havoc(I):
            e = I.frame.env
            # two shapes of accumulated state: none yet / some valid particles
            if I.path.choose(2, "accumulated") == 0:
                e["samples"] = NONE
                e["n_samples_drawn"] = IV(0)
            else:
                nd = z3.Int(fresh("n_drawn"))
                I.path.assume(nd >= 1)
                x = base_arr(fresh("acc_x"), "row", nd)
                lp = rowwise("PI", PI_ROW, x)
                i0 = z3.Int(fresh("any_row"))
                x.facts.append(lambda k, _x=x: X.is_fin(PI_ROW(_x.at(k))))     # invariant: every accumulated prior is finite (pointwise schema)
                lp = rowwise("PI", PI_ROW, x)
                o = Obj("Samples", {"x": x, "log_q": rowwise("Q", Q_ROW, x), "log_prior": lp, "log_likelihood": NONE, "parameters": g["s"].f["parameters"],
                                    "dtype": resolved_dtype(g["s"].f["dtype"], g["s"].f["xp"]), "xp": g["s"].f["xp"], "device": NONE,
                                    "log_evidence": NONE, "log_evidence_error": NONE, "log_w": NONE, "weights": NONE, "effective_sample_size": NONE,
                                    "evidence": NONE, "evidence_error": NONE})
                I.path.ghost["acc_finite"] = (lp, x)
                e["samples"] = o
                e["n_samples_drawn"] = IV(nd)

        def at_head(I):
            # the invariant's "every accumulated prior is finite" is a universally quantified fact: it is instantiated at the rows the
            # goals talk about (engine-side instantiation, no quantifier reaches the solver)
            pass

        return {0: LoopSpec(inv, havoc, at_head=at_head)}

    def post(self, I, pre, r):
        p, g = I.path, pre.ghost
        q = self.qual
        if not isinstance(r, Obj):
            p.prove(z3.BoolVal(False), f"{q}:returns a sample set")
            return
        p.prove(r.f["x"].n == g["n"], f"{q}:C10:exactly the requested number of particles")
        for nm, gl in aligned_goals(q, r):
            p.prove(gl, nm)
        likes = [e for e in p.events if e[0] == "user_log_likelihood"]
        p.prove(z3.BoolVal(len(likes) == 1 and likes[0][1] is r), f"{q}:C17:the likelihood is evaluated once, after trimming, on the returned object")
        p.prove(to_int(g["s"].f["n_likelihood_evaluations"]) == to_int(g["evals0"]) + g["n"], f"{q}:C17:evaluation counter grows by the number of points evaluated")


def a2ns_hook(I, info, bound, args, kwargs, n):
    """records what is handed to BaseSamples.array_to_namespace (the conversion into the population's namespace and precision)"""
    I.path.event("array_to_namespace", bound, args[0] if args else kwargs.get("x"))


def asarray_hook(I, info, bound, args, kwargs, n):
    """utils.asarray(x, xp, dtype=...) is the conversion array_to_namespace itself performs: calling it directly counts as well"""
    if "dtype" in kwargs or len(args) > 2:
        I.path.event("array_to_namespace", None, args[0] if args else kwargs.get("x"))


def likelihood_output_normalised(I, q, tag="", only_for=None):
    """C15: whatever the user's likelihood returns (any namespace, any width - e.g. accumulated on the host in float64) is converted into the
    population's namespace and precision before it is stored next to the coordinates"""
    p = I.path
    # only_for: the evaluations whose result is stored on that sample set (evaluations of the target inside the kernel are used, not stored)
    outs = [e[3] for e in p.events if e[0] == "user_log_likelihood" and len(e) > 3 and (only_for is None or e[1] is only_for)]
    conv = [e[2] for e in p.events if e[0] == "array_to_namespace"]
    p.prove(z3.BoolVal(bool(outs) and all(any(o is c for c in conv) for o in outs)),
            f"{q}:C15:what the user's likelihood returns is converted into the population's namespace and precision (array_to_namespace) before it is stored {tag}")


class ImportanceSample(Contract):
    def must_return(self, shape):
        return True

    def hooks(self, I, pre):
        return {"samples:BaseSamples.array_to_namespace": a2ns_hook, "utils:asarray": asarray_hook}

    qual = "samplers.importance:ImportanceSampler.sample"
    properties = ("C10", "C17", "C02", "C15")
    doc = ("draws n_samples points with their proposal log-density from the flow in one call; attaches the prior of exactly those points, then the "
           "likelihood of exactly those points (counted), then computes the weights; all three caches belong to the rows")

    def setup(self, I, shape):
        s = mk_sampler_obj(I, "ImportanceSampler")
        n = z3.Int("n_samples")
        I.path.assume(n >= 1)
        return Pre(s, [IV(n)], ghost={"s": s, "n": n, "evals0": s.f["n_likelihood_evaluations"]})

    def post(self, I, pre, r):
        p, g = I.path, pre.ghost
        q = self.qual
        s = g["s"]
        if not (isinstance(r, Obj) and r.cls == "Samples"):
            p.prove(z3.BoolVal(False), f"{q}:returns Samples")
            return
        p.prove(r.f["x"].n == g["n"], f"{q}:C10:exactly the requested number of samples")
        draws = [e for e in p.events if e[0] == "flow.sample_and_log_prob"]
        p.prove(z3.BoolVal(len(draws) == 1), f"{q}:C10:C20:one draw from the proposal")
        if draws:
            p.prove(arr_eq_goal(r.f["x"], draws[0][2]), f"{q}:C10:the returned coordinates are the proposal's draws")
        for nm, gl in aligned_goals(q, r):
            p.prove(gl, nm)
        likes = [e for e in p.events if e[0] == "user_log_likelihood"]
        p.prove(z3.BoolVal(len(likes) == 1 and likes[0][1] is r), f"{q}:C17:the likelihood is evaluated once on the returned sample set")
        p.prove(to_int(s.f["n_likelihood_evaluations"]) == to_int(g["evals0"]) + g["n"], f"{q}:C17:evaluation counter grows by the number of points evaluated")
        p.prove(z3.BoolVal(isinstance(r.f.get("log_w"), Arr)), f"{q}:C02:weights computed for the returned set")
        p.prove(z3.BoolVal(dtype_carried(r.f.get("dtype"), s.f["dtype"])), f"{q}:C15:population built with the precision requested from the sampler")
        likelihood_output_normalised(I, q)
        p.prove(z3.BoolVal(r.f.get("parameters") is s.f["parameters"]), f"{q}:parameters of the sampler")


class ConvertToSamples(Contract):
    """C10 / C17: the instance-level route by which user-supplied points become a weighted sample set"""
    qual = "aspire:Aspire.convert_to_samples"
    properties = ("C10", "C17")
    doc = ("builds one sample set from the caller's points and caches; when asked to evaluate, a missing prior is computed first, from exactly those points, and "
           "attached before the user's likelihood is called (once, on that set, and only if no likelihood was supplied); a supplied cache is carried, not recomputed; "
           "the stored prior / likelihood of row i are the user's functions at row i")

    def must_return(self, shape):
        return True

    def hooks(self, I, pre):
        return {"samples:BaseSamples.array_to_namespace": a2ns_hook, "utils:asarray": asarray_hook}

    def shapes(self):
        return [{"prior": pr, "like": lk, "evaluate": ev} for pr in (0, 1) for lk in (0, 1) for ev in (0, 1)]

    def setup(self, I, shape):
        s = mk_sampler_obj(I, "Aspire")
        # on the instance the user's likelihood is the attribute `log_likelihood` itself (no counting wrapper at this level)
        s.f["log_likelihood"] = s.f.pop("_log_likelihood")
        n = z3.Int("n_points")
        I.path.assume(n >= 1)
        x = base_arr("user_points", "row", n)
        lq = rowwise("Q", Q_ROW, x)
        kw = {"log_q": lq, "evaluate": B(bool(shape["evaluate"]))}
        if shape["prior"]:
            kw["log_prior"] = rowwise("PI", PI_ROW, x)
        if shape["like"]:
            kw["log_likelihood"] = rowwise("L", L_ROW, x)
        return Pre(s, [x], kw, ghost={"s": s, "x": x, "n": n, "shape": shape, "kw": kw})

    def post(self, I, pre, r):
        p, g, q = I.path, pre.ghost, self.qual
        sh = g["shape"]
        tag = f"[prior {'supplied' if sh['prior'] else 'missing'}, likelihood {'supplied' if sh['like'] else 'missing'}, evaluate={bool(sh['evaluate'])}]"
        if not (isinstance(r, Obj) and r.cls == "Samples"):
            p.prove(z3.BoolVal(False), f"{q}:returns Samples {tag}")
            return
        p.prove(arr_eq_goal(r.f["x"], g["x"]) if isinstance(r.f.get("x"), Arr) else z3.BoolVal(False), f"{q}:C10:the coordinates of the returned set are the caller's points {tag}")
        want = ["log_q"] + (["log_prior"] if (sh["prior"] or sh["evaluate"]) else []) + (["log_likelihood"] if (sh["like"] or sh["evaluate"]) else [])
        for nm, gl in aligned_goals(q, r, fields=tuple(want)):
            p.prove(gl, f"{nm} {tag}")
        likes = [e for e in p.events if e[0] == "user_log_likelihood"]
        priors = [e for e in p.events if e[0] == "user_log_prior"]
        n_like = 1 if (sh["evaluate"] and not sh["like"]) else 0
        n_pri = 1 if (sh["evaluate"] and not sh["prior"]) else 0
        p.prove(z3.BoolVal(len(likes) == n_like and all(e[1] is r for e in likes)),
                f"{q}:C17:the user's likelihood is called {'once, on the returned sample set' if n_like else 'not at all'} {tag}")
        p.prove(z3.BoolVal(len(priors) == n_pri and all(e[1] is r for e in priors)),
                f"{q}:C17:the user's prior is called {'once, on the returned sample set' if n_pri else 'not at all'} {tag}")
        if sh["evaluate"]:
            p.prove(z3.BoolVal(isinstance(r.f.get("log_w"), Arr)), f"{q}:C02:weights computed for the returned set {tag}")
        p.prove(z3.BoolVal(r.f.get("parameters") is g["s"].f["parameters"]), f"{q}:parameters of the instance {tag}")
        p.prove(z3.BoolVal(dtype_carried(r.f.get("dtype"), g["s"].f["dtype"])), f"{q}:C15:sample set built with the precision of the instance {tag}")


class LogLikelihoodWrapper(Contract):
    """C17: the counting wrapper around the user's likelihood"""
    qual = "samplers.base:Sampler.log_likelihood"
    properties = ("C17",)
    raises = {"UserError": "raised by the user's likelihood"}
    doc = ("the user's likelihood is called exactly once, with the very sample set the wrapper was given; the counter grows by len(samples) - the number of points "
           "the likelihood was *asked* to evaluate - also when that call raises; the wrapper returns what the user's function returned")

    def must_return(self, shape):
        return not shape["raises"]

    def shapes(self):
        return [{"raises": 0}, {"raises": 1}]

    def setup(self, I, shape):
        s = mk_sampler_obj(I, "Sampler")
        n = z3.Int("n_points")
        I.path.assume(n >= 0)
        x = base_arr("pts", "row", n)
        smp = Obj("Samples", {"x": x, "log_prior": rowwise("PI", PI_ROW, x), "log_likelihood": NONE, "log_q": NONE})
        if shape["raises"]:
            inner = s.f["_log_likelihood"]

            def failing(I2, a, k, nn, _f=inner):
                I2.path.event("user_log_likelihood", a[0], a[0].f["x"])
                raise RaiseSig("UserError", nn)
            s.f["_log_likelihood"] = Fn(failing, "user_log_likelihood (raises)")
        return Pre(s, [smp], ghost={"s": s, "smp": smp, "n": n, "evals0": s.f["n_likelihood_evaluations"], "shape": shape})

    def _counted(self, I, pre, how):
        p, g = I.path, pre.ghost
        calls = [e for e in p.events if e[0] == "user_log_likelihood"]
        p.prove(z3.BoolVal(len(calls) == 1 and calls[0][1] is g["smp"]), f"{self.qual}:C17:the user's likelihood is called exactly once, on the sample set given {how}")
        p.prove(to_int(g["s"].f["n_likelihood_evaluations"]) == to_int(g["evals0"]) + g["n"],
                f"{self.qual}:C17:the counter grows by the number of points the likelihood was asked to evaluate {how}")

    def post(self, I, pre, r):
        self._counted(I, pre, "[normal return]")
        I.path.prove(z3.BoolVal(isinstance(r, Arr)), f"{self.qual}:C17:returns the user's values")

    def post_raise(self, I, pre, sig):
        if sig.exc != "UserError" or not pre.ghost["shape"]["raises"]:
            return super().post_raise(I, pre, sig)
        self._counted(I, pre, "[the user's likelihood raised]")
